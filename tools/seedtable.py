#!/usr/bin/env python3
"""tools/seedtable.py -> seeded/README.md : one row per independently seeded defect (meta.json by its author,
result.json by tools/seedtest.py)."""
import json, os, glob
ROOT = os.path.dirname(os.path.dirname(os.path.abspath(__file__)))
rows = []
try:
    HIST = json.load(open(os.path.join(ROOT, 'seeded', 'HISTORY.json')))
except OSError:
    HIST = {}
for d in sorted(glob.glob(os.path.join(ROOT, 'seeded', 'C*', '[mnp]*'))):
    try:
        meta = json.load(open(os.path.join(d, 'meta.json')))
    except Exception:
        continue
    res = {}
    if os.path.exists(os.path.join(d, 'result.json')):
        res = json.load(open(os.path.join(d, 'result.json')))
    prop = os.path.basename(os.path.dirname(d)); k = os.path.basename(d)
    vl = res.get('violation_lines') or []
    how = '-'
    if res.get('caught'):
        kinds = [r.get('kind', '?') for r in res.get('replays', [])]
        how = ('failing input' if not any('no-failing-input-found' in l for l in vl) else 'no-failing-input-found') + (' (' + ','.join(kinds) + ')' if kinds else '')
    elif 'caught' in res:
        how = 'MISSED'
    if res.get('stale'):
        how = 'superseded (' + res['stale'].split(';')[-1].strip() + ')'
    hist = HIST.get(prop + '/' + k, [])
    rows.append((prop, k, (meta.get('title') or meta.get('what_it_breaks') or '')[:110].replace('|', '/').replace('\n', ' '),
                 (meta.get('needs_to_manifest') or '')[:140].replace('|', '/').replace('\n', ' '),
                 'yes' if res.get('demo_unchanged_passes') and res.get('demo_patched_fails') and res.get('suite_ok') else ('?' if not res else 'NO'),
                 how, '; '.join(hist)))
out = ['# Independently seeded defects', '',
       'Each directory holds `patch.diff`, `demo.rs` (passes on the unchanged tree, fails with the patch), `meta.json` (written by the',
       'author, who saw only the property text) and `result.json` (written by `tools/seedtest.py`: confirmation + what `./check` reported).',
       '', '| property | mutant | what it breaks | needs | confirmed | ./check | history |', '|---|---|---|---|---|---|---|']
for r in rows:
    out.append('| ' + ' | '.join(r) + ' |')
open(os.path.join(ROOT, 'seeded', 'README.md'), 'w').write('\n'.join(out) + '\n')
print(len(rows), 'mutants;', sum(1 for r in rows if r[5].startswith('failing')), 'with failing input;', sum(1 for r in rows if r[5] == 'MISSED'), 'missed')
