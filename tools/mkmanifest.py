#!/usr/bin/env python3
"""Regenerate MANIFEST.json from props/cXX.py (MANIFEST dicts) -- run by hand, result committed."""
import importlib, json, os, sys
ROOT = os.path.dirname(os.path.dirname(os.path.abspath(__file__)))
for d in ('lib', 'props', 'gen'):
    sys.path.insert(0, os.path.join(ROOT, d))
props = [json.loads(l) for l in open(os.path.join(ROOT, 'properties.jsonl'))]
checks, na = [], []
hooks_commits = []
try:
    hooks_commits = json.load(open(os.path.join(ROOT, 'hooks.json'))).get('source_commits', [])
except OSError:
    pass
try:
    na_reasons = json.load(open(os.path.join(ROOT, 'not_applicable.json')))
except OSError:
    na_reasons = {}
claimed = json.load(open(os.path.join(ROOT, 'claimed.json')))   # maintained by the coordinator: checks known to be green from a clean tree
for p in props:
    pid = p['id']
    try:
        if pid not in claimed:
            raise RuntimeError('not on the claimed list')
        mod = importlib.import_module(pid.lower())
        m = mod.MANIFEST
        src = open(os.path.join(ROOT, 'coq', 'Props', pid + '.v')).read()
        if 'placeholder' in src:
            raise RuntimeError('Props file is a placeholder')
        for k in ('level_text', 'level_note', 'technique'):
            if k not in m:
                print('WARNING %s: MANIFEST dict lacks %s -- not claimed' % (pid, k))
                raise RuntimeError('incomplete MANIFEST dict')
    except Exception as e:
        na.append({'property_id': pid, 'reason': na_reasons.get(pid, 'not yet claimed: model and proof for this property are not built yet (work in progress, see DESIGN.md section 9)')})
        continue
    checks.append({
        'property_id': pid,
        'quick_cmd': './check %s --tier quick' % pid,
        'thorough_cmd': './check %s --tier thorough' % pid,
        'evidence_file': '/verif/evidence/%s.json' % pid,
        'replay_cmd_template': './check %s --replay {path}' % pid,
        'engine': 'coq-proof+correspondence',
        'level_claimed': {'category': 'proof', 'text': m['level_text'], 'design_ref': m.get('design_ref', 'DESIGN.md 6')},
        'level_note': m['level_note'],
        'technique': m['technique'],
    })
man = {
    'version': 1,
    'setup_cmd': './setup.sh',
    'hooks': {
        'guard': 'lopdf_verif',
        'enable': 'RUSTFLAGS="--cfg lopdf_verif" cargo build (the harness is built against /repo with this flag by checks that need a hook)',
        'baseline_off_cmd': 'cd /repo && cargo test --workspace --no-fail-fast --offline',
        'source_commits': hooks_commits,
        'add_only': True,
    },
    'engines': [{
        'name': 'coq-proof+correspondence', 'path': '/verif/check',
        'serves_properties': [c['property_id'] for c in checks],
        'kind_free_text': 'Coq 8.16 theorems about hand-written Gallina models (coq/), constants regenerated from /repo by '
                          'translator/extract.py on every run, models extracted to OCaml and compared with the Rust '
                          'implementation on generated cases (harness/, gen/, props/), failing-input search on breakage',
    }],
    'checks': checks,
    'not_applicable': na,
    'notes': 'See DESIGN.md. known_findings.json lists genuine defects recorded rather than repaired.',
}
json.dump(man, open(os.path.join(ROOT, 'MANIFEST.json'), 'w'), indent=1)
print('checks:', [c['property_id'] for c in checks])
