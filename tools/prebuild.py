#!/usr/bin/env python3
"""Pre-build runners and harness bins for every claimed property (so quick checks start warm)."""
import importlib, json, os, sys
ROOT = os.path.dirname(os.path.dirname(os.path.abspath(__file__)))
for d in ('lib', 'props', 'gen'):
    sys.path.insert(0, os.path.join(ROOT, d))
import vlib
man = json.load(open(os.path.join(ROOT, 'MANIFEST.json')))
for c in man['checks']:
    pid = c['property_id']
    try:
        mod = importlib.import_module(pid.lower())
    except Exception as e:
        print('prebuild: cannot import', pid, e); continue
    specs = getattr(mod, 'SPECS', None) or [mod.SPEC]
    for spec in specs:
        if spec.get('runner'):
            exe, log = vlib.build_runner(spec['runner'])
            print('runner', spec['runner'], 'ok' if exe else 'FAILED\n' + log[-800:])
        exe, log = vlib.build_harness(spec['bin'], spec.get('features'), spec.get('hooks', False))
        print('harness', spec['bin'], 'ok' if exe else 'FAILED\n' + log[-800:])
