#!/usr/bin/env python3
"""tools/mutprompt.py Cxx -> writes /tmp/mut/Cxx.TASK.md (the brief of an independent mutation agent: property text only, nothing from /verif)
and creates the scratch worktree /tmp/mut/Cxx."""
import json, os, subprocess, sys
ROOT = os.path.dirname(os.path.dirname(os.path.abspath(__file__)))
pid = sys.argv[1]
p = [json.loads(l) for l in open(os.path.join(ROOT, 'properties.jsonl')) if json.loads(l)['id'] == pid][0]
wt = '/tmp/mut/' + pid
os.makedirs('/tmp/mut', exist_ok=True)
if not os.path.isdir(wt):
    subprocess.check_call(['git', '-C', '/repo', 'worktree', 'add', '--detach', wt, 'HEAD'], stdout=subprocess.DEVNULL, stderr=subprocess.DEVNULL)
txt = f"""# Task: seed realistic defects into a Rust library

You work ONLY inside the git worktree `{wt}` (a checkout of the Rust crate `lopdf`, a PDF library). Do not read,
list or touch `/verif` or `/repo` or any other directory outside `{wt}` (cargo's registry cache excepted). No network: always use
`cargo ... --offline`. Build output goes to `{wt}/target` (default).

## The property

**{p['title']}**

{p['statement']}

Quantified over: {p['quantifier']['text']}

Code the property is anchored in: {json.dumps(p['anchors'].get('files'))}
Mechanisms: {json.dumps([m['name'] + ' @ ' + m.get('where', '') for m in p['anchors'].get('mechanism', [])])}
Observe at: {json.dumps(p['anchors'].get('observe_at'))}

## What to produce

THREE independent, realistic source changes ("mutants") to the library (files under `src/`), each of which
* still compiles (`cargo build --offline`) and still passes the existing test suite:
  `cargo test --workspace --no-fail-fast --offline 2>&1 | grep -E "^test result|FAILED|failed"` -- on the unchanged tree 85 tests
  pass and exactly one, `annotation::annotation_count`, fails; that must stay exactly so with each mutant;
* BREAKS the property above on the real library;
* needs something SPECIFIC to manifest -- an unusual input, a boundary value, a multi-step sequence of operations, a particular
  combination of two features, or two cooperating edits that each look fine alone -- NOT something ordinary use would expose at
  once (a mutant that breaks every input is useless); it should look like a plausible refactoring slip, optimisation or
  "simplification" a maintainer could really commit;
* the three mutants should hit different mechanisms / code sites of the property.

For each mutant k = 1,2,3 write into `{wt}/mut_out/m<k>/`:
* `patch.diff` -- `git diff` of the mutant against the unchanged HEAD (source changes only, applies with `git apply` at the repo root);
* `demo.rs` -- a self-contained Rust integration test file (to be dropped into `tests/` of the crate; uses only the public API and the
  crate's normal dev-dependencies) containing one or more `#[test]` functions that PASS on the unchanged tree and FAIL with the mutant;
* `meta.json` -- {{"property": "{pid}", "title": "...", "what_it_breaks": "...", "needs_to_manifest": "...", "files_changed": [...],
  "ran": ["commands you ran and their outcome, for unchanged and mutated tree"]}}.
Verify all of this yourself: run the demo on the unchanged tree (passes) and on the mutated tree (fails), and the full suite on the mutated
tree (85 pass / 1 known failure). Reset the worktree between mutants with `git checkout -- . && git clean -fd tests/` (keep `mut_out/`). NEVER use `git stash`:
the stash is shared by all worktrees of the repository and other engineers work in sibling worktrees; keep your changes as patch files instead.
At the end leave the worktree source unchanged (`git status` shows only `mut_out/`), delete `{wt}/target` to free disk, and reply with a
short summary (one paragraph per mutant).
"""
open('/tmp/mut/%s.TASK.md' % pid, 'w').write(txt)
print('/tmp/mut/%s.TASK.md' % pid)
