#!/usr/bin/env python3
"""tools/seedtest.py <mutant-dir> [--confirm] [--check] [--tier quick]

<mutant-dir> holds patch.diff, demo.rs, meta.json (property id in meta['property']).
Works in a scratch git worktree of /repo (created under /tmp/seedwt/<name>, removed at the end unless --keep):
  --confirm : demo passes on the unchanged tree, fails with the patch; the pinned suite still passes with the patch
  --check   : run this /verif tree's `./check <prop>` against the patched worktree (VERIF_REPO) and report whether it
              printed a VIOLATION line; also runs it against the UNPATCHED worktree first when --baseline is given.
Results are merged into <mutant-dir>/result.json (never into meta.json, which is the author's).
Use a scratch clone of /verif for --check while other people build in /verif (Gen files are regenerated from VERIF_REPO)."""
import argparse, json, os, re, shutil, subprocess, sys, time
ROOT = os.path.dirname(os.path.dirname(os.path.abspath(__file__)))


def sh(cmd, cwd=None, env=None, timeout=3600):
    e = dict(os.environ); e['CARGO_NET_OFFLINE'] = 'true'
    if env: e.update(env)
    p = subprocess.run(cmd, cwd=cwd, env=e, shell=isinstance(cmd, str), stdout=subprocess.PIPE, stderr=subprocess.STDOUT, timeout=timeout)
    return p.returncode, p.stdout.decode('utf-8', 'replace')


def suite(wt):
    rc, out = sh('cargo test --workspace --no-fail-fast --offline 2>&1', cwd=wt, timeout=3600)
    passed = sum(int(m) for m in re.findall(r'test result: \w+\. (\d+) passed', out))
    failed = sorted(set(re.findall(r'^test (\S+) \.\.\. FAILED', out, re.M)))
    return passed, failed, out


def main():
    ap = argparse.ArgumentParser()
    ap.add_argument('mdir'); ap.add_argument('--confirm', action='store_true'); ap.add_argument('--check', action='store_true')
    ap.add_argument('--baseline', action='store_true'); ap.add_argument('--tier', default='quick'); ap.add_argument('--keep', action='store_true')
    ap.add_argument('--prop')
    a = ap.parse_args()
    mdir = os.path.abspath(a.mdir)
    meta = json.load(open(os.path.join(mdir, 'meta.json')))
    prop = a.prop or meta['property']
    name = prop   # one scratch worktree per property: the cargo cache under .build/cargo-<tag> is reused across its mutants
    wt = '/tmp/seedwt/' + name
    os.makedirs('/tmp/seedwt', exist_ok=True)
    if os.path.isdir(wt):
        sh(['git', '-C', '/repo', 'worktree', 'remove', '--force', wt])
    rc, out = sh(['git', '-C', '/repo', 'worktree', 'add', '--detach', wt, 'HEAD'])
    assert rc == 0, out
    res = {'property': prop, 'mutant': mdir, 'at': time.strftime('%Y-%m-%dT%H:%M:%S'), 'repo_head': sh(['git', '-C', '/repo', 'rev-parse', '--short', 'HEAD'])[1].strip()}
    try:
        patch = os.path.join(mdir, 'patch.diff')
        demo = os.path.join(mdir, 'demo.rs')
        if a.confirm:
            shutil.copy(demo, os.path.join(wt, 'tests', 'seed_demo.rs'))
            rc0, out0 = sh('cargo test --offline --test seed_demo 2>&1', cwd=wt)
            res['demo_unchanged_passes'] = (rc0 == 0)
            rc, out = sh(['git', 'apply', patch], cwd=wt)
            res['patch_applies'] = (rc == 0)
            if rc != 0:
                res['apply_log'] = out[-500:]
            else:
                rc1, out1 = sh('cargo test --offline --test seed_demo 2>&1', cwd=wt)
                res['demo_patched_fails'] = (rc1 != 0)
                res['demo_patched_tail'] = out1[-600:]
                os.remove(os.path.join(wt, 'tests', 'seed_demo.rs'))
                passed, failed, _ = suite(wt)
                res['suite_patched'] = {'passed': passed, 'failed': failed}
                res['suite_ok'] = (passed >= 85 and all(f.endswith('annotation_count') for f in failed))
                sh(['git', 'checkout', '--', '.'], cwd=wt)
        if a.check:
            env = {'VERIF_REPO': wt}
            if a.baseline:
                rc, out = sh(['./check', prop, '--tier', a.tier], cwd=ROOT, env=env, timeout=7200)
                res['baseline_rc'] = rc
                res['baseline_violation_lines'] = [l for l in out.split('\n') if l.startswith('VIOLATION')]
            rc, out = sh(['git', 'apply', patch], cwd=wt)
            assert rc == 0, out
            t0 = time.time()
            rc, out = sh(['./check', prop, '--tier', a.tier], cwd=ROOT, env=env, timeout=7200)
            res['check_rc'] = rc
            res['check_wall_s'] = round(time.time() - t0, 1)
            vl = [l for l in out.split('\n') if l.startswith('VIOLATION')]
            res['violation_lines'] = vl
            res['caught'] = (rc == 1 and bool(vl))
            res['check_tail'] = out[-1500:]
            for l in vl:
                m = re.search(r'replay=(\S+)', l)
                if m and os.path.exists(m.group(1)):
                    try:
                        r = json.load(open(m.group(1)))
                        res.setdefault('replays', []).append({k: (str(v)[:400]) for k, v in r.items() if k in ('kind', 'case', 'verdict', 'theorem_or_file', 'correspondence', 'note')})
                    except Exception:
                        pass
            sh(['git', 'checkout', '--', '.'], cwd=wt)
    finally:
        if not a.keep:
            sh(['git', '-C', '/repo', 'worktree', 'remove', '--force', wt])
    rp = os.path.join(mdir, 'result.json')
    old = {}
    if os.path.exists(rp):
        old = json.load(open(rp))
    old.update(res)
    json.dump(old, open(rp, 'w'), indent=1)
    print(json.dumps({k: v for k, v in old.items() if k not in ('check_tail', 'demo_patched_tail')}, indent=1))


if __name__ == '__main__':
    main()
