#!/bin/sh
# Regenerate coq/_CoqProject (all .v files under coq/) and coq/Makefile.
set -e
cd "$(dirname "$0")/../coq"
{
  echo "-Q . LV"
  echo "-arg -w -arg -notation-overridden,-deprecated-hint-without-locality,-deprecated-instance-without-locality"
  find Base Gen Model Spec Proofs Props Run -name '*.v' ! -name 'cases_*' ! -name 'Extract*' | LC_ALL=C sort
} > _CoqProject.new
if ! cmp -s _CoqProject.new _CoqProject 2>/dev/null; then
  mv _CoqProject.new _CoqProject
  coq_makefile -f _CoqProject -o Makefile >/dev/null
else
  rm -f _CoqProject.new
  [ -f Makefile ] || coq_makefile -f _CoqProject -o Makefile >/dev/null
fi
