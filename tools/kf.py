#!/usr/bin/env python3
"""Maintain /verif/known_findings.json (never written at check time).
  kf.py open  <prop> <id> "<what fails>" --class "<class of inputs>" --witness '<harness case line>' [--bin cxx]
  kf.py fixed <prop> <id> <commit> "<what failed>"
  kf.py list
"""
import argparse, fcntl, json, os, sys
ROOT = os.path.dirname(os.path.dirname(os.path.abspath(__file__)))
PATH = os.path.join(ROOT, 'known_findings.json')

def main():
    ap = argparse.ArgumentParser()
    sub = ap.add_subparsers(dest='cmd', required=True)
    o = sub.add_parser('open'); o.add_argument('prop'); o.add_argument('id'); o.add_argument('what')
    o.add_argument('--class', dest='cls', required=True); o.add_argument('--witness', default=None); o.add_argument('--bin', default=None)
    f = sub.add_parser('fixed'); f.add_argument('prop'); f.add_argument('id'); f.add_argument('commit'); f.add_argument('what')
    sub.add_parser('list')
    a = ap.parse_args()
    with open(PATH + '.lock', 'w') as lk:
        fcntl.flock(lk, fcntl.LOCK_EX)
        try:
            kf = json.load(open(PATH))
        except OSError:
            kf = {'findings': []}
        fs = kf['findings']
        if a.cmd == 'list':
            for e in fs:
                print(e['property'], e['id'], e['status'], '-', e['what'])
            return
        fs = [e for e in fs if not (e['property'] == a.prop and e['id'] == a.id)]
        if a.cmd == 'open':
            fs.append({'property': a.prop, 'id': a.id, 'status': 'open', 'what': a.what, 'class': a.cls,
                       'witness_case': a.witness, 'bin': a.bin or a.prop.lower()})
        else:
            fs.append({'property': a.prop, 'id': a.id, 'status': 'fixed', 'commit': a.commit, 'what': a.what,
                       'line': 'fixed: property=%s %s %s' % (a.prop, a.commit, a.what)})
        fs.sort(key=lambda e: (e['property'], e['id']))
        kf['findings'] = fs
        json.dump(kf, open(PATH, 'w'), indent=1)
        print('recorded', a.prop, a.id, a.cmd)

if __name__ == '__main__':
    main()
