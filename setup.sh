#!/bin/sh
# MANIFEST.setup_cmd: build the framework from files on disk only (offline).
set -x
cd "$(dirname "$0")"
export CARGO_NET_OFFLINE=true
mkdir -p .build evidence replays
python3 translator/extract.py || echo "translator reported a problem (checks will report it per property)"
tools/mkcoq.sh
( cd coq && ulimit -v 12000000 && timeout 3000 make -j16 -k COQC='timeout 1500 coqc' ) > .build/coq_make.log 2>&1 || tail -30 .build/coq_make.log
python3 tools/prebuild.py
exit 0
