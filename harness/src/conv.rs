//! sx <-> lopdf values (same encoding as coq/Model/Obj.v).
use crate::sx::Sx;
use lopdf::{Dictionary, Document, Object, ObjectId, Stream, StringFormat};

pub fn obj_of_sx(x: &Sx) -> Option<Object> {
    if x.is_id("null") {
        return Some(Object::Null);
    }
    let tag = x.tag()?;
    let a = x.args();
    Some(match tag {
        "b" => Object::Boolean(a.first()?.as_bool()?),
        "i" => Object::Integer(a.first()?.as_i64()?),
        "r" => {
            let s = a.first()?.as_bytes()?;
            Object::Real(std::str::from_utf8(&s).ok()?.parse::<f32>().ok()?)
        }
        "n" => Object::Name(a.first()?.as_bytes()?),
        "s" => Object::String(a.first()?.as_bytes()?, StringFormat::Literal),
        "h" => Object::String(a.first()?.as_bytes()?, StringFormat::Hexadecimal),
        "a" => Object::Array(a.iter().map(obj_of_sx).collect::<Option<Vec<_>>>()?),
        "d" => Object::Dictionary(dict_of_entries(a)?),
        "st" => {
            let d = dict_of_entries(a.first()?.args())?;
            let c = a.get(1)?.as_bytes()?;
            // Stream literal: do not let Stream::new touch Length -- build the struct directly
            Object::Stream(Stream { dict: d, content: c, allows_compression: true, start_position: None })
        }
        "ref" => Object::Reference((a.first()?.as_u64()? as u32, a.get(1)?.as_u64()? as u16)),
        _ => return None,
    })
}

pub fn dict_of_entries(es: &[Sx]) -> Option<Dictionary> {
    let mut d = Dictionary::new();
    for e in es {
        let kv = e.as_list()?;
        if kv.len() != 2 {
            return None;
        }
        d.set(kv[0].as_bytes()?, obj_of_sx(&kv[1])?);
    }
    Some(d)
}

pub fn real_string(f: f32) -> String {
    format!("{}", f)
}

pub fn obj_to_sx(o: &Object) -> Sx {
    match o {
        Object::Null => Sx::id("null"),
        Object::Boolean(b) => Sx::tagged("b", vec![Sx::boolean(*b)]),
        Object::Integer(i) => Sx::tagged("i", vec![Sx::num(i)]),
        Object::Real(f) => Sx::tagged("r", vec![Sx::bytes(real_string(*f).as_bytes())]),
        Object::Name(n) => Sx::tagged("n", vec![Sx::bytes(n)]),
        Object::String(s, StringFormat::Literal) => Sx::tagged("s", vec![Sx::bytes(s)]),
        Object::String(s, StringFormat::Hexadecimal) => Sx::tagged("h", vec![Sx::bytes(s)]),
        Object::Array(a) => Sx::tagged("a", a.iter().map(obj_to_sx).collect()),
        Object::Dictionary(d) => dict_to_sx(d),
        Object::Stream(s) => Sx::tagged("st", vec![dict_to_sx(&s.dict), Sx::bytes(&s.content)]),
        Object::Reference(id) => Sx::tagged("ref", vec![Sx::num(id.0), Sx::num(id.1)]),
    }
}

pub fn dict_to_sx(d: &Dictionary) -> Sx {
    Sx::tagged(
        "d",
        d.iter().map(|(k, v)| Sx::L(vec![Sx::bytes(k), obj_to_sx(v)])).collect(),
    )
}

pub fn oid_to_sx(id: ObjectId) -> Sx {
    Sx::L(vec![Sx::num(id.0), Sx::num(id.1)])
}
pub fn oid_of_sx(x: &Sx) -> Option<ObjectId> {
    let l = x.as_list()?;
    if l.len() != 2 {
        return None;
    }
    Some((l[0].as_u64()? as u32, l[1].as_u64()? as u16))
}

/// (doc xVERSION xMARK (d trailer) (objs ((id gen) obj)...) maxid)
pub fn doc_of_sx(x: &Sx) -> Option<Document> {
    if x.tag()? != "doc" {
        return None;
    }
    let a = x.args();
    if a.len() != 5 {
        return None;
    }
    let mut doc = Document::new();
    doc.version = String::from_utf8(a[0].as_bytes()?).ok()?;
    doc.binary_mark = a[1].as_bytes()?;
    doc.trailer = dict_of_entries(a[2].args())?;
    for e in a[3].args() {
        let io = e.as_list()?;
        if io.len() != 2 {
            return None;
        }
        doc.objects.insert(oid_of_sx(&io[0])?, obj_of_sx(&io[1])?);
    }
    doc.max_id = a[4].as_u64()? as u32;
    Some(doc)
}

pub fn doc_to_sx(doc: &Document) -> Sx {
    Sx::tagged(
        "doc",
        vec![
            Sx::bytes(doc.version.as_bytes()),
            Sx::bytes(&doc.binary_mark),
            dict_to_sx(&doc.trailer),
            Sx::tagged(
                "objs",
                doc.objects.iter().map(|(id, o)| Sx::L(vec![oid_to_sx(*id), obj_to_sx(o)])).collect(),
            ),
            Sx::num(doc.max_id),
        ],
    )
}
