//! lvh -- correspondence harness: the case language (sx), conversions between sx and lopdf
//! values, and the per-case driver loop shared by all bins.
pub mod sx;
pub mod conv;

use std::io::{BufRead, Write};

/// Run `f` on every stdin line (one sx case per line); print one line per case:
/// `<result sx> ||| <verdict>` where verdict is `ok`, `skip` or `FAIL <reason>` -- the direct
/// evaluation of the property on the implementation.  Panics are caught and reported as
/// `(panic <hex msg>)`.
pub fn drive<F>(f: F)
where
    F: Fn(&sx::Sx) -> (sx::Sx, String) + std::panic::RefUnwindSafe,
{
    std::panic::set_hook(Box::new(|_| {}));
    let stdin = std::io::stdin();
    let stdout = std::io::stdout();
    let mut out = std::io::BufWriter::new(stdout.lock());
    for line in stdin.lock().lines() {
        let line = line.expect("stdin");
        if line.trim().is_empty() {
            continue;
        }
        let res = match sx::parse_one(&line) {
            None => (sx::Sx::id("badline"), "skip".to_string()),
            Some(x) => match std::panic::catch_unwind(|| f(&x)) {
                Ok(r) => r,
                Err(e) => {
                    let msg = if let Some(s) = e.downcast_ref::<&str>() {
                        s.to_string()
                    } else if let Some(s) = e.downcast_ref::<String>() {
                        s.clone()
                    } else {
                        "?".to_string()
                    };
                    (
                        sx::Sx::L(vec![sx::Sx::id("panic"), sx::Sx::bytes(msg.as_bytes())]),
                        format!("FAIL panic: {}", msg.replace('\n', " ")),
                    )
                }
            },
        };
        writeln!(out, "{} ||| {}", res.0.print(), res.1).unwrap();
        // one line per case reaches the pipe at once: when a later case never returns, the driver
        // (lib/vlib.run_lines) can tell from the lines it got which case is the hanging one
        out.flush().unwrap();
    }
    out.flush().unwrap();
}
