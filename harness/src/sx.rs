//! The case language: `sx ::= atom | '(' sx* ')'`.  Same conventions as coq/Base/Sx.v.
#[derive(Debug, Clone, PartialEq)]
pub enum Sx {
    A(Vec<u8>),
    L(Vec<Sx>),
}

impl Sx {
    pub fn id(s: &str) -> Sx {
        Sx::A(s.as_bytes().to_vec())
    }
    pub fn bytes(b: &[u8]) -> Sx {
        let mut v = Vec::with_capacity(1 + 2 * b.len());
        v.push(b'x');
        for c in b {
            v.extend_from_slice(format!("{:02x}", c).as_bytes());
        }
        Sx::A(v)
    }
    pub fn num<T: std::fmt::Display>(n: T) -> Sx {
        Sx::A(n.to_string().into_bytes())
    }
    pub fn boolean(b: bool) -> Sx {
        Sx::A(if b { b"1".to_vec() } else { b"0".to_vec() })
    }
    pub fn list(v: Vec<Sx>) -> Sx {
        Sx::L(v)
    }
    pub fn tagged(tag: &str, mut v: Vec<Sx>) -> Sx {
        let mut l = vec![Sx::id(tag)];
        l.append(&mut v);
        Sx::L(l)
    }
    pub fn print(&self) -> String {
        let mut s = String::new();
        self.print_into(&mut s);
        s
    }
    fn print_into(&self, s: &mut String) {
        match self {
            Sx::A(a) => s.push_str(std::str::from_utf8(a).unwrap_or("?")),
            Sx::L(l) => {
                s.push('(');
                for (i, x) in l.iter().enumerate() {
                    if i > 0 {
                        s.push(' ');
                    }
                    x.print_into(s);
                }
                s.push(')');
            }
        }
    }
    pub fn as_list(&self) -> Option<&[Sx]> {
        match self {
            Sx::L(l) => Some(l),
            _ => None,
        }
    }
    pub fn as_atom(&self) -> Option<&[u8]> {
        match self {
            Sx::A(a) => Some(a),
            _ => None,
        }
    }
    pub fn is_id(&self, s: &str) -> bool {
        matches!(self, Sx::A(a) if a.as_slice() == s.as_bytes())
    }
    pub fn tag(&self) -> Option<&str> {
        match self {
            Sx::L(l) => l.first().and_then(|a| a.as_atom()).and_then(|a| std::str::from_utf8(a).ok()),
            _ => None,
        }
    }
    pub fn args(&self) -> &[Sx] {
        match self {
            Sx::L(l) if !l.is_empty() => &l[1..],
            _ => &[],
        }
    }
    pub fn as_bytes(&self) -> Option<Vec<u8>> {
        let a = self.as_atom()?;
        if a.first() != Some(&b'x') || a.len() % 2 != 1 {
            return None;
        }
        let h = &a[1..];
        let mut out = Vec::with_capacity(h.len() / 2);
        for p in h.chunks(2) {
            let s = std::str::from_utf8(p).ok()?;
            out.push(u8::from_str_radix(s, 16).ok()?);
        }
        Some(out)
    }
    pub fn as_i128(&self) -> Option<i128> {
        std::str::from_utf8(self.as_atom()?).ok()?.parse().ok()
    }
    pub fn as_u64(&self) -> Option<u64> {
        std::str::from_utf8(self.as_atom()?).ok()?.parse().ok()
    }
    pub fn as_i64(&self) -> Option<i64> {
        std::str::from_utf8(self.as_atom()?).ok()?.parse().ok()
    }
    pub fn as_bool(&self) -> Option<bool> {
        self.as_u64().map(|n| n != 0)
    }
}

pub fn parse_all(s: &str) -> Option<Vec<Sx>> {
    let mut stack: Vec<Vec<Sx>> = vec![vec![]];
    let mut cur: Vec<u8> = vec![];
    fn flush(cur: &mut Vec<u8>, top: &mut Vec<Sx>) {
        if !cur.is_empty() {
            top.push(Sx::A(std::mem::take(cur)));
        }
    }
    for &c in s.as_bytes() {
        match c {
            b'(' => {
                flush(&mut cur, stack.last_mut().unwrap());
                stack.push(vec![]);
            }
            b')' => {
                flush(&mut cur, stack.last_mut().unwrap());
                let done = stack.pop()?;
                stack.last_mut()?.push(Sx::L(done));
            }
            b' ' | b'\n' | b'\r' | b'\t' => flush(&mut cur, stack.last_mut().unwrap()),
            _ => cur.push(c),
        }
    }
    flush(&mut cur, stack.last_mut().unwrap());
    if stack.len() != 1 {
        return None;
    }
    stack.pop()
}

pub fn parse_one(s: &str) -> Option<Sx> {
    let mut v = parse_all(s)?;
    if v.len() == 1 {
        v.pop()
    } else {
        None
    }
}
