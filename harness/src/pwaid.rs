//! Generator aids shared by the C05 and C06 harness bins (`#[path = "../pwaid.rs"] mod pwaid;`).
//! Nothing here is trusted: an aid only chooses WHICH inputs are generated; the extracted ISO specification (C06) /
//! the extracted model (C05) decide what the right answer on them is.
//!
//!  * password preparation by the crate's own public route (`PasswordAlgorithm::sanitize_password`: PDFDocEncoding for
//!    revisions 2-4, SASLprep for revisions 5-6), so that the PREPARED bytes can be handed to the specification side
//!    (whose algorithms are defined on the bytes after preparation) while lopdf gets the Unicode text;
//!  * Algorithm 2.B of ISO 32000-2 written with the sha2 and aes crates, with a trace of its exit test, and a
//!    deterministic search for salts whose run ends exactly on the boundary `last byte == round - 32` (or next to it).
#![allow(dead_code)]
use aes::cipher::{generic_array::GenericArray, BlockEncrypt, KeyInit};
use lopdf::encryption::crypt_filters::{Aes256CryptFilter, CryptFilter};
use lopdf::encryption::PasswordAlgorithm;
use lopdf::{Document, EncryptionState, EncryptionVersion, Object, Permissions, StringFormat};
use sha2::{Digest, Sha256, Sha384, Sha512};
use std::collections::BTreeMap;
use std::sync::Arc;

// ---------------------------------------------------------------------------------------------------------------
// password preparation
// ---------------------------------------------------------------------------------------------------------------

/// A `PasswordAlgorithm` of revision 3 (`r6 == false`) or 5 (`r6 == true`), read back from a document lopdf itself
/// encrypted: only its `sanitize_password` is used.
#[allow(deprecated)]
pub fn prep_algorithm(r6: bool) -> Option<PasswordAlgorithm> {
    let mut doc = Document::with_version("1.7");
    let id = Object::String(b"0123456789abcdef".to_vec(), StringFormat::Literal);
    doc.trailer.set("ID", Object::Array(vec![id.clone(), id]));
    let state = if r6 {
        let mut cfs: BTreeMap<Vec<u8>, Arc<dyn CryptFilter>> = BTreeMap::new();
        cfs.insert(b"StdCF".to_vec(), Arc::new(Aes256CryptFilter));
        EncryptionState::try_from(EncryptionVersion::R5 {
            encrypt_metadata: true,
            crypt_filters: cfs,
            file_encryption_key: &[7u8; 32],
            stream_filter: b"StdCF".to_vec(),
            string_filter: b"StdCF".to_vec(),
            owner_password: "o",
            user_password: "u",
            permissions: Permissions::all(),
        })
    } else {
        EncryptionState::try_from(EncryptionVersion::V2 {
            document: &doc,
            owner_password: "o",
            user_password: "u",
            key_length: 128,
            permissions: Permissions::all(),
        })
    }
    .ok()?;
    doc.encrypt(&state).ok()?;
    PasswordAlgorithm::try_from(&doc).ok()
}

/// The bytes lopdf's own preparation makes of the UTF-8 text `raw` (None: not UTF-8, or the preparation refuses it).
pub fn prepare(alg: &PasswordAlgorithm, raw: &[u8]) -> Option<Vec<u8>> {
    let s = std::str::from_utf8(raw).ok()?;
    alg.sanitize_password(s).ok()
}

/// SASLprep by the stringprep crate directly (RFC 4013), for comparison with the crate's route.
pub fn saslprep_direct(raw: &[u8]) -> Option<Vec<u8>> {
    let s = std::str::from_utf8(raw).ok()?;
    stringprep::saslprep(s).ok().map(|c| c.as_bytes().to_vec())
}

// ---------------------------------------------------------------------------------------------------------------
// Algorithm 2.B with a trace
// ---------------------------------------------------------------------------------------------------------------

/// How the exit test of one Algorithm 2.B run went (rounds counted from 1, as "the 64th round").
#[derive(Clone, Debug)]
pub struct Trace {
    /// number of rounds executed (>= 64)
    pub rounds: u32,
    /// last byte of E in the final round (<= rounds - 32)
    pub last: u32,
    /// some earlier round >= 64 continued with last byte == round - 31 (just above the bound)
    pub above: bool,
}

impl Trace {
    /// `eq`: ends exactly on the boundary; `eq64`: ... in the 64th round; `below`: ends one below the boundary;
    /// `above`: a round just above the boundary was repeated; `r64`: ends in the 64th round; `any`
    pub fn is(&self, class: &str) -> bool {
        match class {
            "any" => true,
            "eq" => self.last == self.rounds - 32,
            "eq64" => self.rounds == 64 && self.last == 32,
            "below" => self.last + 33 == self.rounds,
            "above" => self.above,
            "r64" => self.rounds == 64,
            "long" => self.rounds >= 80,
            _ => false,
        }
    }
    pub fn classes(&self) -> Vec<&'static str> {
        ["eq", "eq64", "below", "above", "r64", "long"].into_iter().filter(|c| self.is(c)).collect()
    }
}

pub fn alg2b(pw: &[u8], salt: &[u8], udata: &[u8]) -> (Vec<u8>, Trace) {
    let mut h = Sha256::new();
    h.update(pw);
    h.update(salt);
    h.update(udata);
    let mut k: Vec<u8> = h.finalize().to_vec();
    let mut round: u32 = 0;
    let mut above = false;
    loop {
        round += 1;
        let mut k1 = Vec::with_capacity(64 * (pw.len() + k.len() + udata.len()));
        for _ in 0..64 {
            k1.extend_from_slice(pw);
            k1.extend_from_slice(&k);
            k1.extend_from_slice(udata);
        }
        let cipher = aes::Aes128::new(GenericArray::from_slice(&k[..16]));
        let mut prev = [0u8; 16];
        prev.copy_from_slice(&k[16..32]);
        for block in k1.chunks_exact_mut(16) {
            for i in 0..16 {
                block[i] ^= prev[i];
            }
            cipher.encrypt_block(GenericArray::from_mut_slice(block));
            prev.copy_from_slice(block);
        }
        let e = k1;
        // the first 16 bytes as a big-endian number modulo 3 (256 = 1 mod 3: the byte sum modulo 3)
        let m = e[..16].iter().map(|b| *b as u32).sum::<u32>() % 3;
        k = match m {
            0 => Sha256::digest(&e).to_vec(),
            1 => Sha384::digest(&e).to_vec(),
            _ => Sha512::digest(&e).to_vec(),
        };
        let last = *e.last().unwrap() as u32;
        if round >= 64 {
            if last + 32 <= round {
                k.truncate(32);
                return (k, Trace { rounds: round, last, above });
            }
            if last == round - 31 {
                above = true;
            }
        }
    }
}

fn trunc127(pw: &[u8]) -> &[u8] {
    &pw[..pw.len().min(127)]
}

/// the `n`-th candidate salt of a seeded, deterministic enumeration
fn salt_of(seed: &[u8], tag: u8, n: u32) -> [u8; 8] {
    let mut h = Sha256::new();
    h.update(seed);
    h.update([tag]);
    h.update(n.to_be_bytes());
    let d = h.finalize();
    let mut s = [0u8; 8];
    s.copy_from_slice(&d[..8]);
    s
}

/// first salt of the enumeration whose run is of class `want`
pub fn find_salt(pw: &[u8], udata: &[u8], want: &str, seed: &[u8], tag: u8) -> Option<([u8; 8], Vec<u8>, Trace)> {
    for n in 0..200_000u32 {
        let s = salt_of(seed, tag, n);
        let (h, t) = alg2b(pw, &s, udata);
        if t.is(want) {
            return Some((s, h, t));
        }
    }
    None
}

/// The 16 + 16 random bytes of Algorithms 8 and 9 (validation salt, key salt) such that the four hashes of a
/// revision 6 document -- user validation, user key, owner validation, owner key -- are of the wanted classes.
/// `user`, `owner`: the PREPARED passwords.  Returns (rnd of Algorithm 8, rnd of Algorithm 9, the four traces).
pub fn find_r6_salts(user: &[u8], owner: &[u8], want: [&str; 4], seed: &[u8]) -> Option<(Vec<u8>, Vec<u8>, Vec<Trace>)> {
    let (user, owner) = (trunc127(user), trunc127(owner));
    let (uvs, uh, t0) = find_salt(user, &[], want[0], seed, 0)?;
    let (uks, _, t1) = find_salt(user, &[], want[1], seed, 1)?;
    let mut u = uh.clone();
    u.extend_from_slice(&uvs);
    u.extend_from_slice(&uks);
    let (ovs, _, t2) = find_salt(owner, &u, want[2], seed, 2)?;
    let (oks, _, t3) = find_salt(owner, &u, want[3], seed, 3)?;
    let mut r0 = uvs.to_vec();
    r0.extend_from_slice(&uks);
    let mut r1 = ovs.to_vec();
    r1.extend_from_slice(&oks);
    Some((r0, r1, vec![t0, t1, t2, t3]))
}

/// The traces of the four hashes of an encrypted revision 6 document as the STANDARD runs them on the salts found in
/// its U and O strings (the hashes stored there may be something else when the writer is wrong).
pub fn r6_traces_of(doc: &Document, user: &[u8], owner: &[u8]) -> Option<Vec<Trace>> {
    let e = doc.get_encrypted().ok()?;
    let u = e.get(b"U").ok()?.as_str().ok()?.to_vec();
    let o = e.get(b"O").ok()?.as_str().ok()?.to_vec();
    if u.len() < 48 || o.len() < 48 {
        return None;
    }
    let (user, owner) = (trunc127(user), trunc127(owner));
    Some(vec![
        alg2b(user, &u[32..40], &[]).1,
        alg2b(user, &u[40..48], &[]).1,
        alg2b(owner, &o[32..40], &u[..48]).1,
        alg2b(owner, &o[40..48], &u[..48]).1,
    ])
}
