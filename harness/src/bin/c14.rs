//! C14: content streams.
//!  (enc (ops (op xOP operand...)...))  -> (res xENCODED <dec>)       verdict: decode(encode ops) == norm ops
//!  (dec xBYTES)                        -> (res2 <dec1> xREENC <dec2>) verdict: dec1 ok => dec2 == dec1
//!  (decv xBYTES K)                     -> as dec; the bytes come from the independent producer of props/c14.py, which wrote K
//!                                         valid operations: dec1 must be ok and hold exactly K operations
//!  (real xTEXT)                        -> (real <source real?> <overflows f32?>)  verdict: the float assumptions of
//!                                         Proofs/DecodeRtProofs.v (canon_spec) hold for this spelling on Rust's f32
//! An inline image is the operator BI with one stream operand; it is read back with a Length entry (Stream::new), so the
//! expected operand of an `enc` case is the given stream with Length = content length.  Every decoded inline image
//! (both modes) must hold exactly H rows of ceil(W * components * BPC / 8) bytes (ISO 32000-1 8.9.3: each row is
//! padded to a whole byte) -- computed here from the decoded dictionary, independently of the parser.
use lopdf::content::{Content, Operation};
use lopdf::Object;
use lvh::conv::*;
use lvh::sx::Sx;

fn ops_to_sx(ops: &[Operation]) -> Sx {
    Sx::tagged(
        "ops",
        ops.iter()
            .map(|o| {
                let mut v = vec![Sx::bytes(o.operator.as_bytes())];
                v.extend(o.operands.iter().map(obj_to_sx));
                Sx::tagged("op", v)
            })
            .collect(),
    )
}

fn dec_to_sx(r: &lopdf::Result<Content<Vec<Operation>>>) -> Sx {
    match r {
        Ok(c) => ops_to_sx(&c.operations),
        Err(_) => Sx::id("err"),
    }
}

/// equality up to "an integral real may come back as an integer of the same (f32) value"
fn same(a: &Object, b: &Object) -> bool {
    match (a, b) {
        (Object::Real(x), Object::Integer(i)) => x.fract() == 0.0 && (*i as f32) == *x,
        (Object::Real(x), Object::Real(y)) => x == y || (x.is_nan() && y.is_nan()),
        (Object::Array(x), Object::Array(y)) => x.len() == y.len() && x.iter().zip(y).all(|(p, q)| same(p, q)),
        (Object::Dictionary(x), Object::Dictionary(y)) => {
            x.len() == y.len() && x.iter().all(|(k, v)| y.get(k).map(|w| same(v, w)).unwrap_or(false))
        }
        (Object::Stream(x), Object::Stream(y)) => {
            x.content == y.content && same(&Object::Dictionary(x.dict.clone()), &Object::Dictionary(y.dict.clone()))
        }
        _ => a == b,
    }
}

/// what an operation is read back as: an inline image gains `Length` (set in place when the entry exists)
fn expected_op(o: &Operation) -> Operation {
    if let ("BI", [Object::Stream(st)]) = (o.operator.as_str(), o.operands.as_slice()) {
        let mut st = st.clone();
        st.dict.set("Length", st.content.len() as i64);
        return Operation { operator: o.operator.clone(), operands: vec![Object::Stream(st)] };
    }
    o.clone()
}

/// ISO 32000-1 8.9.3 / table 93: the number of sample bytes of an unfiltered inline image
fn image_bytes(d: &lopdf::Dictionary) -> Option<u128> {
    let get = |a: &[u8], b: &[u8]| d.get(a).or_else(|_| d.get(b)).ok();
    let w = get(b"W", b"Width")?.as_i64().ok()?;
    let h = get(b"H", b"Height")?.as_i64().ok()?;
    let bpc = get(b"BPC", b"BitsPerComponent")?.as_i64().ok()?;
    let nc: i64 = match get(b"CS", b"ColorSpace")?.as_name().ok()? {
        b"DeviceGray" | b"Gray" | b"G" => 1,
        b"DeviceRGB" | b"RGB" => 3,
        b"DeviceCMYK" | b"CMYK" | b"DeviceRGBA" | b"RGBA" => 4,
        _ => return None,
    };
    if w < 0 || h < 0 || bpc < 0 || get(b"F", b"Filter").is_some() {
        return None;
    }
    let row_bits = w as u128 * nc as u128 * bpc as u128;
    Some(h as u128 * ((row_bits + 7) / 8))
}

/// every decoded inline image holds exactly the bytes its dictionary implies
fn images_ok(ops: &[Operation]) -> Result<(), String> {
    for o in ops {
        if let ("BI", [Object::Stream(st)]) = (o.operator.as_str(), o.operands.as_slice()) {
            if let Some(n) = image_bytes(&st.dict) {
                if st.content.len() as u128 != n {
                    return Err(format!(
                        "a decoded inline image holds {} bytes of samples, its dictionary implies {} (rows padded to whole bytes)",
                        st.content.len(),
                        n
                    ));
                }
            }
        }
    }
    Ok(())
}

fn same_ops(a: &[Operation], b: &[Operation]) -> bool {
    a.len() == b.len()
        && a.iter().zip(b).all(|(p, q)| {
            p.operator == q.operator
                && p.operands.len() == q.operands.len()
                && p.operands.iter().zip(&q.operands).all(|(x, y)| same(x, y))
        })
}

/// the second sentence of the property, evaluated on the implementation: decode, encode, decode again
fn dec_case(b: &[u8], want_ops: Option<usize>) -> (Sx, String) {
    let d1 = Content::decode(b);
    match &d1 {
        Ok(c) => {
            let e = match c.encode() {
                Ok(e) => e,
                Err(_) => return (Sx::id("encode-error"), "FAIL encode of decoded content failed".into()),
            };
            let d2 = Content::decode(&e);
            let verdict = match &d2 {
                _ if want_ops.map(|k| k != c.operations.len()).unwrap_or(false) => format!(
                    "FAIL valid content of {} operations decodes to {} operations",
                    want_ops.unwrap(),
                    c.operations.len()
                ),
                _ if images_ok(&c.operations).is_err() => format!("FAIL {}", images_ok(&c.operations).unwrap_err()),
                Ok(c2) if same_ops(&c.operations, &c2.operations) => "ok".to_string(),
                Ok(_) => "FAIL re-encoded content decodes to different operations".to_string(),
                Err(_) => "FAIL re-encoded content does not decode".to_string(),
            };
            (Sx::tagged("res2", vec![dec_to_sx(&d1), Sx::bytes(&e), dec_to_sx(&d2)]), verdict)
        }
        Err(_) => (
            Sx::tagged("res2", vec![Sx::id("err")]),
            if want_ops.is_some() { "FAIL valid content does not decode".into() } else { "ok".into() },
        ),
    }
}

/// (real xTEXT): is TEXT a whole token of the real parser, does it overflow f32; and the float assumptions
/// (canon_spec): Display of the parsed f32 has the shape -?d+(.d+)? and, spelled with a point, reads back as the same f32
fn real_case(t: &[u8]) -> (Sx, String) {
    let res = |src: bool, ovf: bool| Sx::tagged("real", vec![Sx::boolean(src), Sx::boolean(ovf)]);
    if t.is_empty() || !t.iter().all(|c| b"0123456789+-.".contains(c)) {
        return (res(false, false), "skip".into());
    }
    let mut inp = t.to_vec();
    inp.extend_from_slice(b" x");
    let v = match Content::decode(&inp) {
        Ok(c) => match c.operations.as_slice() {
            [Operation { operator, operands }] if operator == "x" => match operands.as_slice() {
                [Object::Real(v)] => Some(*v),
                _ => None,
            },
            _ => None,
        },
        Err(_) => None,
    };
    let v = match v {
        Some(v) => v,
        None => return (res(false, false), "ok".into()),
    };
    if v.is_infinite() {
        return (res(true, true), "ok".into());
    }
    if v.is_nan() {
        return (res(true, false), "FAIL a source real parsed as NaN".into());
    }
    let d = format!("{}", v);
    let db = d.as_bytes();
    let digits = |s: &[u8]| !s.is_empty() && s.iter().all(|c| c.is_ascii_digit());
    let body = if db.first() == Some(&b'-') { &db[1..] } else { db };
    let shape = match body.iter().position(|c| *c == b'.') {
        None => digits(body),
        Some(i) => digits(&body[..i]) && digits(&body[i + 1..]),
    };
    if !shape {
        return (res(true, false), format!("FAIL float assumption canon_shape: Display prints {:?}", d));
    }
    let pointed = if d.contains('.') { d.clone() } else { format!("{}.0", d) };
    match pointed.parse::<f32>() {
        Ok(w) if w.to_bits() == v.to_bits() && format!("{}", w) == d => (res(true, false), "ok".into()),
        _ => (res(true, false), format!("FAIL float assumption canon_idem: {:?} does not read back as the same f32", pointed)),
    }
}

fn main() {
    lvh::drive(|x| {
        let a = x.args();
        match x.tag() {
            Some("enc") => {
                let mut ops = vec![];
                for o in a[0].args() {
                    let oa = o.args();
                    let operator = match oa.first().and_then(|b| b.as_bytes()).and_then(|b| String::from_utf8(b).ok()) {
                        Some(s) => s,
                        None => return (Sx::id("badcase"), "skip".into()),
                    };
                    let mut operands = vec![];
                    for v in &oa[1..] {
                        match obj_of_sx(v) {
                            Some(v) => operands.push(v),
                            None => return (Sx::id("badcase"), "skip".into()),
                        }
                    }
                    ops.push(Operation { operator, operands });
                }
                let wf = a.get(1).map(|t| t.is_id("wf")).unwrap_or(false);
                let enc = match (Content { operations: ops.clone() }).encode() {
                    Ok(e) => e,
                    Err(_) => return (Sx::id("encode-error"), if wf { "FAIL encode returned an error".into() } else { "ok".into() }),
                };
                let dec = Content::decode(&enc);
                let want: Vec<Operation> = ops.iter().map(expected_op).collect();
                let has_image = ops.iter().zip(&want).any(|(a, b)| a.operands != b.operands || matches!(a.operands.as_slice(), [Object::Stream(_)]));
                let verdict = if !wf {
                    "ok".to_string()
                } else {
                    match &dec {
                        Ok(c) if same_ops(&want, &c.operations) => match images_ok(&c.operations) {
                            Ok(()) => "ok".to_string(),
                            Err(e) => format!("FAIL {}", e),
                        },
                        Ok(_) if has_image => "FAIL decode(encode(ops)) differs from ops (the sequence holds an inline image)".to_string(),
                        Ok(_) => "FAIL decode(encode(ops)) differs from ops".to_string(),
                        Err(_) if has_image => "FAIL decode(encode(ops)) is an error (the sequence holds an inline image)".to_string(),
                        Err(_) => "FAIL decode(encode(ops)) is an error".to_string(),
                    }
                };
                (Sx::tagged("res", vec![Sx::bytes(&enc), dec_to_sx(&dec)]), verdict)
            }
            Some("dec") => match a[0].as_bytes() {
                Some(b) => dec_case(&b, None),
                None => (Sx::id("badcase"), "skip".into()),
            },
            Some("decv") => match (a[0].as_bytes(), a.get(1).and_then(|k| k.as_u64())) {
                (Some(b), Some(k)) => dec_case(&b, Some(k as usize)),
                _ => (Sx::id("badcase"), "skip".into()),
            },
            Some("real") => match a[0].as_bytes() {
                Some(t) => real_case(&t),
                None => (Sx::id("badcase"), "skip".into()),
            },
            _ => (Sx::id("badcase"), "skip".into()),
        }
    });
}
