//! C09: stream filters and compression.
//!
//! Normal mode (one case per line, see props/c09.py for the generator):
//!   (case stream <st> <orc> <expect> xNEWCONTENT)   Stream::{filters, decompressed_content, get_plain_content,
//!                                                    decompress, compress, set_content, set_plain_content}
//!   (case row t bpp xPREV xCUR <expect>)            lopdf::filters::png::decode_row
//!   (case frame bpp ppr xCONTENT <expect>)          lopdf::filters::png::decode_frame
//!   (case paeth lo hi)                              every (left, above, upper-left) with lo <= left < hi through
//!                                                    decode_row(Paeth), folded into a checksum
//!   (case doc <doc> (nocomp (id gen)...) <orc>)     Document::compress then Document::decompress
//!   (case lzwrt ec limit xDATA (encs xE...))      weezl's LZW decoder (early change iff ec != 0) on every stream E; the first E is the
//!                                                    output of the Gallina encoder of Spec/LzwSpec.v (echoed, the model recomputes it),
//!                                                    the others come from weezl's encoder and the Python reference; all must give DATA
//!   (case lzwdec ec xE)                             weezl's decoder on an arbitrary stream (codec correspondence only)
//!   (case zrt k xDATA (encs xE...))                 the same for flate2's zlib decoder: the spec's stored-block stream, flate2's own
//!                                                    output at levels 0/1/6/9, Python zlib's
//!   (case zdec xE)                                  flate2's zlib decoder on an arbitrary stream
//!   (case big <kind> ...)                           large, highly compressible data (deflate reaches about 1000 : 1 on runs of equal bytes, LZW
//!                                                    several hundred : 1): <kind> = stream | doc as above, or
//!                                                      zrtn <DATA> (encs xE...)      flate2's decoder on every E, all must give DATA
//!                                                      lzwrtn ec <DATA> (encs xE...) weezl's decoder, the same
//!                                                    where every byte string may be a FORM: xHEX | (rep FORM n) = n copies | (cat FORM ...);
//!                                                    forms are expanded before the case is run (model: RunC09.v bytes_form) and byte strings
//!                                                    longer than 16384 in the result are printed run by run, (rl LENGTH item ...), see `rle`;
//!                                                    <kind> = echo FORM: just that, the glue against itself
//!   a doc case may carry a fourth item (plains ((id gen) DATA) ...): after compress + decompress these objects must be streams
//!                                                    without Filter whose content is DATA
//! <expect> = (plain xHEX) | (plainonly xHEX) | (error) | (none).  <orc> is only read by the model (answers of flate2 / weezl).
//!            (error): the ASCII85 text of the stream holds a complete group of five digits that stands for more than 2^32 - 1
//!            (ISO 32000-1 7.4.3: never occurs in a correctly encoded sequence): decoding must be refused, not answered with bytes
//!
//! Oracle mode (`c09 --oracle`): one query per line, `(f xIN)` zlib-decode, `(l0 xIN)` / `(l1 xIN)` LZW decode
//! without / with early change, `(z xIN)` zlib-encode at best compression (`(z0 xIN)`, `(z1 xIN)`, `(z6 xIN)`: at level 0 / 1 / 6), `(e0 xIN)` / `(e1 xIN)` LZW encode with
//! weezl's own encoder without / with early change (a second, independent producer of LZW streams); prints `xOUT`.  IN may be a FORM.  The calls repeat the
//! call protocol of lopdf's wrappers so that partial output on damaged data is the same.  The generator uses
//! it for answers it cannot compute itself (flate2's compressed bytes, damaged streams).
use lvh::conv::*;
use lvh::sx::Sx;
use lopdf::filters::png;
use lopdf::{Error, Object, Stream};
use std::convert::TryFrom;
use std::panic::{catch_unwind, AssertUnwindSafe};

fn err_class(e: &Error) -> &'static str {
    match e {
        Error::DictKey(_) => "dictkey",
        Error::ObjectType { .. } => "type",
        Error::Unimplemented(_) => "unimpl",
        Error::Decompress(_) => "a85",
        Error::IO(io) => io_class(io),
        _ => "other",
    }
}

fn io_class(e: &std::io::Error) -> &'static str {
    match e.kind() {
        std::io::ErrorKind::UnexpectedEof => "io-eof",
        std::io::ErrorKind::InvalidData => "io-data",
        _ => "io-other",
    }
}

fn res_bytes(r: &lopdf::Result<Vec<u8>>) -> Sx {
    match r {
        Ok(b) => Sx::tagged("ok", vec![Sx::bytes(b)]),
        Err(e) => Sx::tagged("err", vec![Sx::id(err_class(e))]),
    }
}

fn st_sx(s: &Stream) -> Sx {
    obj_to_sx(&Object::Stream(s.clone()))
}

/// run one sub-operation; a panic becomes the atom `panic` (and a failing verdict)
fn guard<F: FnOnce() -> Sx>(tag: &str, fails: &mut Vec<String>, f: F) -> Sx {
    match catch_unwind(AssertUnwindSafe(f)) {
        Ok(x) => Sx::tagged(tag, vec![x]),
        Err(e) => {
            let msg = if let Some(s) = e.downcast_ref::<&str>() {
                s.to_string()
            } else if let Some(s) = e.downcast_ref::<String>() {
                s.clone()
            } else {
                "?".into()
            };
            fails.push(format!("{} panicked: {}", tag, msg.replace('\n', " ")));
            Sx::tagged(tag, vec![Sx::id("panic")])
        }
    }
}

fn length_ok(s: &Stream) -> bool {
    matches!(s.dict.get(b"Length"), Ok(Object::Integer(n)) if *n == s.content.len() as i64)
}

fn expect_of(x: Option<&Sx>) -> Option<Vec<u8>> {
    let x = x?;
    if x.tag()? == "plain" {
        x.args().first()?.as_bytes()
    } else {
        None
    }
}

fn stream_case(a: &[Sx]) -> (Sx, String) {
    let s0 = match a.first().and_then(obj_of_sx) {
        Some(Object::Stream(s)) => s,
        _ => return (Sx::id("badcase"), "skip".into()),
    };
    let expect = expect_of(a.get(2));
    // (plainonly xHEX): only get_plain_content has a reference value (empty filter list: the content itself)
    let plain_only: Option<Vec<u8>> = a.get(2).and_then(|x| {
        if x.tag()? == "plainonly" {
            x.args().first()?.as_bytes()
        } else {
            None
        }
    });
    // (error): a group above 2^32 - 1 in the ASCII85 text, no decoding exists
    let want_err = a.get(2).and_then(|x| x.tag()) == Some("error");
    let newc = a.get(3).and_then(|x| x.as_bytes()).unwrap_or_default();
    let mut fails: Vec<String> = vec![];
    let mut out = vec![];

    out.push(guard("filters", &mut fails, || match s0.filters() {
        Ok(v) => Sx::tagged("ok", v.iter().map(|n| Sx::bytes(n)).collect()),
        Err(e) => Sx::tagged("err", vec![Sx::id(err_class(&e))]),
    }));

    let mut dec: Option<lopdf::Result<Vec<u8>>> = None;
    out.push(guard("dec", &mut fails, || {
        let r = s0.decompressed_content();
        let x = res_bytes(&r);
        dec = Some(r);
        x
    }));
    let mut plain: Option<lopdf::Result<Vec<u8>>> = None;
    out.push(guard("plain", &mut fails, || {
        let r = s0.get_plain_content();
        let x = res_bytes(&r);
        plain = Some(r);
        x
    }));
    if let Some(want) = &expect {
        match &dec {
            Some(Ok(got)) if got == want => {}
            Some(Ok(got)) => fails.push(format!(
                "decompressed_content differs from the reference decoding ({} bytes, expected {}; first difference at {})",
                got.len(),
                want.len(),
                got.iter().zip(want.iter()).position(|(x, y)| x != y).unwrap_or(got.len().min(want.len()))
            )),
            // without a Filter entry decompressed_content has nothing to decode and reports the missing key
            Some(Err(Error::DictKey(_))) if !s0.dict.has(b"Filter") => {}
            Some(Err(e)) => fails.push(format!("decompressed_content fails on a legal stream: {}", err_class(e))),
            None => {}
        }
        match &plain {
            Some(Ok(got)) if got == want => {}
            Some(_) => fails.push("get_plain_content differs from the reference decoding".into()),
            None => {}
        }
    }

    if want_err {
        if let Some(Ok(got)) = &dec {
            fails.push(format!(
                "decompressed_content answers an ASCII85 group above 2^32-1 with {} bytes instead of an error",
                got.len()
            ));
        }
        if let Some(Ok(got)) = &plain {
            fails.push(format!(
                "get_plain_content answers an ASCII85 group above 2^32-1 with {} bytes instead of an error",
                got.len()
            ));
        }
    }

    if let Some(want) = &plain_only {
        match &plain {
            Some(Ok(got)) if got == want => {}
            Some(_) => fails.push("get_plain_content of a stream without filters is not its content".into()),
            None => {}
        }
    }

    // decompress (in place)
    {
        let mut s = s0.clone();
        let mut after: Option<(bool, Stream)> = None;
        out.push(guard("decompress", &mut fails, || {
            let r = s.decompress();
            let x = match &r {
                Ok(()) => Sx::tagged("ok", vec![st_sx(&s)]),
                Err(e) => Sx::tagged("err", vec![Sx::id(err_class(e))]),
            };
            after = Some((r.is_ok(), s.clone()));
            x
        }));
        if let Some((ok, s)) = after {
            if ok {
                if !length_ok(&s) {
                    fails.push("after decompress Length differs from the content length".into());
                }
                if s.dict.has(b"Filter") || s.dict.has(b"DecodeParms") {
                    fails.push("after decompress Filter/DecodeParms are still present".into());
                }
                if let Some(Ok(d)) = &dec {
                    if &s.content != d {
                        fails.push("decompress stored something else than decompressed_content".into());
                    }
                }
            } else if s.dict != s0.dict || s.content != s0.content {
                fails.push("failed decompress modified the stream".into());
            }
        }
    }

    // compress (in place), then decode again
    {
        let mut s = s0.clone();
        let mut after: Option<Stream> = None;
        out.push(guard("compress", &mut fails, || {
            let r = s.compress();
            let x = match &r {
                Ok(()) => {
                    let p = s.get_plain_content();
                    Sx::L(vec![st_sx(&s), res_bytes(&p)])
                }
                Err(e) => Sx::tagged("err", vec![Sx::id(err_class(e))]),
            };
            after = Some(s.clone());
            x
        }));
        if let Some(s) = after {
            if s.content.len() > s0.content.len() {
                fails.push(format!("compress made the content longer ({} -> {})", s0.content.len(), s.content.len()));
            }
            let changed = s.content != s0.content || s.dict != s0.dict;
            if changed && !length_ok(&s) {
                fails.push("after compress Length differs from the content length".into());
            }
            if changed {
                // lossless: decoding the compressed stream gives what the stream held before
                match (s.get_plain_content(), s0.get_plain_content()) {
                    (Ok(x), Ok(y)) if x == y => {}
                    (x, y) => fails.push(format!(
                        "compress then decode does not return the original bytes ({:?} vs {:?})",
                        x.map(|v| v.len()).map_err(|e| err_class(&e)),
                        y.map(|v| v.len()).map_err(|e| err_class(&e))
                    )),
                }
            }
        }
    }

    // set_content / set_plain_content
    {
        let mut s = s0.clone();
        let nc = newc.clone();
        let mut ok = true;
        out.push(guard("setc", &mut fails, || {
            s.set_content(nc);
            ok = length_ok(&s);
            st_sx(&s)
        }));
        if !ok {
            fails.push("after set_content Length differs from the content length".into());
        }
        let mut s = s0.clone();
        let nc = newc.clone();
        let mut ok = true;
        out.push(guard("setp", &mut fails, || {
            s.set_plain_content(nc.clone());
            ok = length_ok(&s) && matches!(s.get_plain_content(), Ok(p) if p == nc);
            st_sx(&s)
        }));
        if !ok {
            fails.push("after set_plain_content Length or plain content is wrong".into());
        }
    }
    // a panic on a damaged stream (absurd geometry) is a robustness matter (property C04), not a wrong decoding
    // (not so for (error): there the stream is an ASCII85 text whose only flaw is a group above 2^32-1, and a panic is no refusal)
    if expect.is_none() && !want_err {
        fails.retain(|f| !f.contains(" panicked: "));
    }
    let verdict = if fails.is_empty() { "ok".to_string() } else { format!("FAIL {}", fails.join("; ")) };
    (Sx::tagged("stream", out), verdict)
}

/// weezl as lopdf configures it; `None` when the decoder reports an error (lopdf would keep the partial output)
fn weezl_decode(early: bool, input: &[u8]) -> Option<Vec<u8>> {
    let mut dec = if early {
        weezl::decode::Decoder::with_tiff_size_switch(weezl::BitOrder::Msb, 8)
    } else {
        weezl::decode::Decoder::new(weezl::BitOrder::Msb, 8)
    };
    let mut o = vec![];
    let r = dec.into_stream(&mut o).decode_all(input);
    match r.status {
        Ok(()) => Some(o),
        Err(_) => None,
    }
}

fn flate2_decode(input: &[u8]) -> Option<Vec<u8>> {
    use std::io::Read;
    let mut o = Vec::new();
    let mut d = flate2::read::ZlibDecoder::new(input);
    match d.read_to_end(&mut o) {
        Ok(_) => Some(o),
        Err(_) => None,
    }
}

fn obytes(r: &Option<Vec<u8>>) -> Sx {
    match r {
        Some(b) => Sx::tagged("ok", vec![Sx::bytes(b)]),
        None => Sx::id("err"),
    }
}

/// (lzwrt | zrt): decode every given stream with the crate, all must give the data
fn codec_rt(tag: &str, data: &[u8], encs: &[Sx], decode: &dyn Fn(&[u8]) -> Option<Vec<u8>>) -> (Sx, String) {
    codec_rt_echo(tag, data, encs, decode, true)
}

fn codec_rt_echo(tag: &str, data: &[u8], encs: &[Sx], decode: &dyn Fn(&[u8]) -> Option<Vec<u8>>, echo_first: bool) -> (Sx, String) {
    let mut out = vec![];
    let mut fails = vec![];
    for (i, e) in encs.iter().enumerate() {
        let e = match e.as_bytes() {
            Some(e) => e,
            None => return (Sx::id("badcase"), "skip".into()),
        };
        if i == 0 && echo_first {
            out.push(Sx::bytes(&e));
        }
        let r = decode(&e);
        match &r {
            Some(d) if d == data => {}
            Some(d) => fails.push(format!("stream {} decodes to {} bytes that are not the data ({} bytes)", i, d.len(), data.len())),
            None => fails.push(format!("stream {} is rejected", i)),
        }
        out.push(obytes(&r));
    }
    let verdict = if fails.is_empty() { "ok".to_string() } else { format!("FAIL {}: {}", tag, fails.join("; ")) };
    (Sx::tagged(tag, out), verdict)
}


// ---- large, highly compressible data: compact forms in, run-length rendering out (see RunC09.v) ----
const BIG_ATOM: usize = 16384;
const BIG_LIMIT: usize = 1 << 28;

fn hex_atom(b: &[u8]) -> Sx {
    const H: &[u8; 16] = b"0123456789abcdef";
    let mut v = Vec::with_capacity(1 + 2 * b.len());
    v.push(b'x');
    for c in b {
        v.push(H[(c >> 4) as usize]);
        v.push(H[(c & 15) as usize]);
    }
    Sx::A(v)
}

/// FORM ::= xHEX | (rep FORM n) | (cat FORM ...)
fn form_bytes(x: &Sx) -> Option<Vec<u8>> {
    match x {
        Sx::A(_) => x.as_bytes(),
        Sx::L(_) => match x.tag()? {
            "rep" => {
                let a = x.args();
                if a.len() != 2 {
                    return None;
                }
                let p = form_bytes(&a[0])?;
                let n = a[1].as_u64()? as usize;
                if p.len().checked_mul(n)? > BIG_LIMIT {
                    return None;
                }
                Some(p.repeat(n))
            }
            "cat" => {
                let mut o = vec![];
                for y in x.args() {
                    o.extend(form_bytes(y)?);
                    if o.len() > BIG_LIMIT {
                        return None;
                    }
                }
                Some(o)
            }
            _ => None,
        },
    }
}

/// every form inside a case replaced by the byte string it denotes
fn expand(x: &Sx) -> Sx {
    match x {
        Sx::L(l) => match x.tag() {
            Some("rep") | Some("cat") => match form_bytes(x) {
                Some(b) => hex_atom(&b),
                None => x.clone(),
            },
            _ => Sx::L(l.iter().map(expand).collect()),
        },
        a => a.clone(),
    }
}

const LAGS: [usize; 6] = [1, 2, 3, 4, 6, 8];
const MINSEG: usize = 64;

/// (rl LENGTH item ...): item = xHEX literal bytes | (xPATTERN total) a stretch of `total` bytes with period |PATTERN|
/// (b[j] == b[j - p] for as long as it holds, first lag p of LAGS that gives at least MINSEG bytes); the same algorithm as
/// RunC09.v rle_sx
fn rle(b: &[u8]) -> Sx {
    let n = b.len();
    let mut out = vec![Sx::id("rl"), Sx::num(n)];
    let mut i = 0;
    let mut lit = 0;
    while i < n {
        let mut found = None;
        for &p in LAGS.iter() {
            let mut j = i + p;
            if j > n {
                continue;
            }
            while j < n && b[j] == b[j - p] {
                j += 1;
            }
            if j - i >= MINSEG {
                found = Some((p, j - i));
                break;
            }
        }
        match found {
            Some((p, total)) => {
                if lit < i {
                    out.push(hex_atom(&b[lit..i]));
                }
                out.push(Sx::L(vec![hex_atom(&b[i..i + p]), Sx::num(total)]));
                i += total;
                lit = i;
            }
            None => i += 1,
        }
    }
    if lit < n {
        out.push(hex_atom(&b[lit..n]));
    }
    Sx::L(out)
}

/// byte strings longer than BIG_ATOM printed run by run
fn digest(x: &Sx) -> Sx {
    match x {
        Sx::A(a) if a.first() == Some(&b'x') && a.len() > 1 + 2 * BIG_ATOM => match x.as_bytes() {
            Some(b) => rle(&b),
            None => x.clone(),
        },
        Sx::L(l) => Sx::L(l.iter().map(digest).collect()),
        a => a.clone(),
    }
}

fn big_case(a: &[Sx]) -> (Sx, String) {
    let kind = match a.first().and_then(|k| k.as_atom()) {
        Some(k) => String::from_utf8_lossy(k).to_string(),
        None => return (Sx::id("badcase"), "skip".into()),
    };
    let args: Vec<Sx> = a[1..].iter().map(expand).collect();
    if kind == "echo" {
        // the glue itself: a form expanded and rendered by both sides
        return match args.first().and_then(|v| v.as_bytes()) {
            Some(d) => (Sx::tagged("big", vec![Sx::tagged("echo", vec![rle(&d)])]), "ok".into()),
            None => (Sx::id("badcase"), "skip".into()),
        };
    }
    let (r, v) = match kind.as_str() {
        "stream" | "doc" => run_case(&kind, &args),
        "zrtn" => match args.first().and_then(|v| v.as_bytes()) {
            Some(data) if args.len() == 2 => {
                let encs = args[1].args().to_vec();
                codec_rt_echo("zrtn", &data, &encs, &|e| flate2_decode(e), false)
            }
            _ => (Sx::id("badcase"), "skip".into()),
        },
        "lzwrtn" => match (args.first().and_then(|v| v.as_u64()), args.get(1).and_then(|v| v.as_bytes())) {
            (Some(ec), Some(data)) if args.len() == 3 => {
                let encs = args[2].args().to_vec();
                codec_rt_echo("lzwrtn", &data, &encs, &|e| weezl_decode(ec != 0, e), false)
            }
            _ => (Sx::id("badcase"), "skip".into()),
        },
        _ => (Sx::id("badcase"), "skip".into()),
    };
    (Sx::tagged("big", vec![digest(&r)]), v)
}

fn paeth_spec(a: u8, b: u8, c: u8) -> u8 {
    // PNG 1.2, 6.6, in the usual simplified form
    let (ai, bi, ci) = (a as i32, b as i32, c as i32);
    let pa = (bi - ci).abs();
    let pb = (ai - ci).abs();
    let pc = (ai + bi - 2 * ci).abs();
    if pa <= pb && pa <= pc {
        a
    } else if pb <= pc {
        b
    } else {
        c
    }
}

fn main() {
    if std::env::args().any(|a| a == "--oracle") {
        oracle();
        return;
    }
    lvh::drive(|x| {
        let a = x.args();
        let kind = match a.first().and_then(|k| k.as_atom()) {
            Some(k) => String::from_utf8_lossy(k).to_string(),
            None => return (Sx::id("badcase"), "skip".into()),
        };
        run_case(&kind, &a[1..])
    });
}

fn run_case(kind: &str, a: &[Sx]) -> (Sx, String) {
    {
        match kind {
            "big" => big_case(a),
            // the same on the implementation only (the runner answers model-skipped; the direct verdict decides)
            "bigd" => match big_case(a) {
                (Sx::L(mut l), v) if !l.is_empty() => {
                    l[0] = Sx::id("bigd");
                    (Sx::L(l), v)
                }
                r => r,
            },
            "stream" => stream_case(a),
            "row" => {
                let (t, bpp, prev, cur) = match (
                    a.first().and_then(|v| v.as_u64()),
                    a.get(1).and_then(|v| v.as_u64()),
                    a.get(2).and_then(|v| v.as_bytes()),
                    a.get(3).and_then(|v| v.as_bytes()),
                ) {
                    (Some(t), Some(b), Some(p), Some(c)) => (t, b, p, c),
                    _ => return (Sx::id("badcase"), "skip".into()),
                };
                let ft = match png::FilterType::try_from(t as u8) {
                    Ok(f) => f,
                    Err(()) => return (Sx::id("badcase"), "skip".into()),
                };
                let expect = expect_of(a.get(4));
                let mut c = cur.clone();
                let r = catch_unwind(AssertUnwindSafe(|| png::decode_row(ft, bpp as usize, &prev, &mut c)));
                match r {
                    Ok(()) => {
                        let v = match expect {
                            Some(w) if w != c => format!(
                                "FAIL decode_row type {} bpp {} differs from the PNG reconstruction at byte {}",
                                t,
                                bpp,
                                w.iter().zip(c.iter()).position(|(x, y)| x != y).unwrap_or(0)
                            ),
                            _ => "ok".into(),
                        };
                        (Sx::tagged("row", vec![Sx::bytes(&c)]), v)
                    }
                    Err(_) => (
                        Sx::tagged("row", vec![Sx::id("panic")]),
                        if expect.is_some() { "FAIL decode_row panicked on a legal row".into() } else { "ok".into() },
                    ),
                }
            }
            "frame" => {
                let (bpp, ppr, content) = match (
                    a.first().and_then(|v| v.as_u64()),
                    a.get(1).and_then(|v| v.as_u64()),
                    a.get(2).and_then(|v| v.as_bytes()),
                ) {
                    (Some(b), Some(p), Some(c)) => (b, p, c),
                    _ => return (Sx::id("badcase"), "skip".into()),
                };
                let expect = expect_of(a.get(3));
                let r = catch_unwind(AssertUnwindSafe(|| png::decode_frame(&content, bpp as usize, ppr as usize)));
                match r {
                    Ok(Ok(d)) => {
                        let v = match expect {
                            Some(w) if w != d => "FAIL decode_frame differs from the PNG reconstruction".to_string(),
                            _ => "ok".into(),
                        };
                        (Sx::tagged("frame", vec![Sx::tagged("ok", vec![Sx::bytes(&d)])]), v)
                    }
                    Ok(Err(e)) => (
                        Sx::tagged("frame", vec![Sx::tagged("err", vec![Sx::id(io_class(&e))])]),
                        if expect.is_some() { "FAIL decode_frame fails on a legal frame".into() } else { "ok".into() },
                    ),
                    Err(_) => (
                        Sx::tagged("frame", vec![Sx::id("panic")]),
                        if expect.is_some() { "FAIL decode_frame panicked on a legal frame".into() } else { "ok".into() },
                    ),
                }
            }
            "paeth" => {
                let (lo, hi) = match (a.first().and_then(|v| v.as_u64()), a.get(1).and_then(|v| v.as_u64())) {
                    (Some(l), Some(h)) if l <= h && h <= 256 => (l, h),
                    _ => return (Sx::id("badcase"), "skip".into()),
                };
                let mut sum: u64 = 0;
                let mut bad: Option<(u8, u8, u8, u8)> = None;
                for l in lo..hi {
                    for ab in 0..256u64 {
                        for ul in 0..256u64 {
                            let (l, ab, ul) = (l as u8, ab as u8, ul as u8);
                            // row [l - ul, 0] over [ul, ab], one byte per pixel: byte 0 decodes to l, byte 1 to the
                            // predictor of (l, ab, ul)
                            let prev = [ul, ab];
                            let mut cur = [l.wrapping_sub(ul), 0];
                            png::decode_row(png::FilterType::Paeth, 1, &prev, &mut cur);
                            let p = cur[1];
                            sum = (sum * 31 + p as u64) % 4294967296;
                            if (cur[0] != l || p != paeth_spec(l, ab, ul)) && bad.is_none() {
                                bad = Some((l, ab, ul, p));
                            }
                        }
                    }
                }
                let v = match bad {
                    None => "ok".to_string(),
                    Some((l, ab, ul, p)) => format!(
                        "FAIL Paeth predictor of (left {}, above {}, upper-left {}) is {} but PNG says {}",
                        l,
                        ab,
                        ul,
                        p,
                        paeth_spec(l, ab, ul)
                    ),
                };
                (Sx::tagged("paeth", vec![Sx::num(sum)]), v)
            }
            "doc" => {
                let mut doc = match a.first().and_then(doc_of_sx) {
                    Some(d) => d,
                    None => return (Sx::id("badcase"), "skip".into()),
                };
                let nocomp: Vec<_> = a.get(1).map(|x| x.args().iter().filter_map(oid_of_sx).collect()).unwrap_or_default();
                for id in &nocomp {
                    if let Some(Object::Stream(s)) = doc.objects.get_mut(id) {
                        s.allows_compression = false;
                    }
                }
                let before = doc.clone();
                let mut fails = vec![];
                doc.compress();
                let c = doc_to_sx(&doc);
                for (id, o) in &doc.objects {
                    if let (Object::Stream(s), Some(Object::Stream(s0))) = (o, before.objects.get(id)) {
                        let changed = s.content != s0.content || s.dict != s0.dict;
                        if changed && !s0.allows_compression {
                            fails.push(format!("{:?}: compressed although compression is not allowed", id));
                        }
                        if changed && !length_ok(s) {
                            fails.push(format!("{:?}: Length wrong after Document::compress", id));
                        }
                        if s.content.len() > s0.content.len() {
                            fails.push(format!("{:?}: longer after Document::compress", id));
                        }
                        if changed {
                            match (s.get_plain_content(), s0.get_plain_content()) {
                                (Ok(x), Ok(y)) if x == y => {}
                                _ => fails.push(format!("{:?}: Document::compress is not lossless", id)),
                            }
                        }
                    }
                }
                let mid = doc.clone();
                doc.decompress();
                let d = doc_to_sx(&doc);
                for (id, o) in &doc.objects {
                    if let (Object::Stream(s), Some(Object::Stream(s0))) = (o, mid.objects.get(id)) {
                        let changed = s.content != s0.content || s.dict != s0.dict;
                        if changed && !length_ok(s) {
                            fails.push(format!("{:?}: Length wrong after Document::decompress", id));
                        }
                        if changed {
                            match s0.decompressed_content() {
                                Ok(x) if x == s.content => {}
                                _ => fails.push(format!("{:?}: Document::decompress stored other bytes", id)),
                            }
                        }
                    }
                }
                // (plains ((id gen) DATA) ...): what these objects must hold after compress + decompress
                if let Some(pl) = a.get(3) {
                    for e in pl.args() {
                        let (id, want) = match (e.as_list().and_then(|l| l.first()).and_then(oid_of_sx), e.as_list().and_then(|l| l.get(1)).and_then(|b| b.as_bytes())) {
                            (Some(i), Some(w)) => (i, w),
                            _ => return (Sx::id("badcase"), "skip".into()),
                        };
                        match doc.objects.get(&id) {
                            Some(Object::Stream(s)) => {
                                if s.dict.has(b"Filter") {
                                    fails.push(format!("{:?}: still filtered after Document::decompress (a legal stream was not decoded)", id));
                                } else if s.content != want {
                                    fails.push(format!(
                                        "{:?}: after Document::compress + decompress the content ({} bytes) is not the original ({} bytes)",
                                        id,
                                        s.content.len(),
                                        want.len()
                                    ));
                                } else if !length_ok(s) {
                                    fails.push(format!("{:?}: Length wrong after compress + decompress", id));
                                }
                            }
                            _ => fails.push(format!("{:?}: stream lost", id)),
                        }
                    }
                }
                let verdict = if fails.is_empty() { "ok".to_string() } else { format!("FAIL {}", fails.join("; ")) };
                (Sx::tagged("doc2", vec![c, d]), verdict)
            }
            "lzwrt" => {
                let (ec, data) = match (a.first().and_then(|v| v.as_u64()), a.get(2).and_then(|v| v.as_bytes())) {
                    (Some(e), Some(d)) => (e != 0, d),
                    _ => return (Sx::id("badcase"), "skip".into()),
                };
                let encs = a.get(3).map(|x| x.args().to_vec()).unwrap_or_default();
                codec_rt("lzwrt", &data, &encs, &|e| weezl_decode(ec, e))
            }
            "lzwdec" => match (a.first().and_then(|v| v.as_u64()), a.get(1).and_then(|v| v.as_bytes())) {
                (Some(e), Some(d)) => (Sx::tagged("lzwdec", vec![obytes(&weezl_decode(e != 0, &d))]), "ok".into()),
                _ => (Sx::id("badcase"), "skip".into()),
            },
            "zrt" => {
                let data = match a.get(1).and_then(|v| v.as_bytes()) {
                    Some(d) => d,
                    None => return (Sx::id("badcase"), "skip".into()),
                };
                let encs = a.get(2).map(|x| x.args().to_vec()).unwrap_or_default();
                codec_rt("zrt", &data, &encs, &|e| flate2_decode(e))
            }
            "zdec" => match a.first().and_then(|v| v.as_bytes()) {
                Some(d) => (Sx::tagged("zdec", vec![obytes(&flate2_decode(&d))]), "ok".into()),
                None => (Sx::id("badcase"), "skip".into()),
            },
            _ => (Sx::id("badcase"), "skip".into()),
        }
    }
}

fn oracle() {
    use std::io::{BufRead, Read, Write};
    let stdin = std::io::stdin();
    let stdout = std::io::stdout();
    let mut out = std::io::BufWriter::new(stdout.lock());
    for line in stdin.lock().lines() {
        let line = line.expect("stdin");
        let q = match lvh::sx::parse_one(&line) {
            Some(q) => q,
            None => {
                writeln!(out, "bad").unwrap();
                continue;
            }
        };
        let input = q.args().first().and_then(form_bytes).unwrap_or_default();
        let ans: Vec<u8> = match q.tag() {
            Some("f") => {
                let mut o = Vec::with_capacity(input.len() * 2);
                if !input.is_empty() {
                    let mut d = flate2::read::ZlibDecoder::new(input.as_slice());
                    let _ = d.read_to_end(&mut o);
                }
                o
            }
            Some(t @ "l0") | Some(t @ "l1") => {
                let mut dec = if t == "l1" {
                    weezl::decode::Decoder::with_tiff_size_switch(weezl::BitOrder::Msb, 8)
                } else {
                    weezl::decode::Decoder::new(weezl::BitOrder::Msb, 8)
                };
                let mut o = vec![];
                let _ = dec.into_stream(&mut o).decode_all(input.as_slice());
                o
            }
            Some(t @ "e0") | Some(t @ "e1") => {
                let mut enc = if t == "e1" {
                    weezl::encode::Encoder::with_tiff_size_switch(weezl::BitOrder::Msb, 8)
                } else {
                    weezl::encode::Encoder::new(weezl::BitOrder::Msb, 8)
                };
                let mut o = vec![];
                let _ = enc.into_stream(&mut o).encode_all(input.as_slice());
                o
            }
            Some(t @ "z") | Some(t @ "z0") | Some(t @ "z1") | Some(t @ "z6") => {
                let level = match t {
                    "z0" => flate2::Compression::none(),
                    "z1" => flate2::Compression::fast(),
                    "z6" => flate2::Compression::new(6),
                    _ => flate2::Compression::best(),
                };
                let mut e = flate2::write::ZlibEncoder::new(Vec::new(), level);
                e.write_all(&input).unwrap();
                e.finish().unwrap()
            }
            _ => {
                writeln!(out, "bad").unwrap();
                continue;
            }
        };
        writeln!(out, "{}", Sx::bytes(&ans).print()).unwrap();
    }
    out.flush().unwrap();
}
