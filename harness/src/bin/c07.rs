//! C07: incremental updates -- latest revision wins, history preserved.
//!
//! Case kinds
//!   (load HDR xBYTES LAYOUT REVS)
//!       one prefix of a hand-assembled revision history.  The implementation loads xBYTES; the
//!       result is the merged cross-reference table, trailer, max_id, xref type, xref_start and the
//!       objects.  REVS = (revs (rev (puts ((id gen) obj)...) (dels (id gen)...))...) is the abstract
//!       history; the direct verdict compares the loaded user objects with "latest revision wins".
//!       LAYOUT is only read by the model.
//!   (inc DOC STYLE xJUNK (steps (step OP...)...))
//!       DOC is saved by lopdf (STYLE = table|stream), prefixed with xJUNK, and then every step loads
//!       the bytes as an IncrementalDocument, applies the OPs, saves and reloads.
//!       OP = (set (id gen) obj) | (add obj) | (clone (id gen)) | (setkey (id gen) xKEY obj)
//!          | (res (id gen)) | (xobj (id gen) xNAME (id gen)) | (gs (id gen) xNAME (id gen))
//!       Direct verdict on the resource helpers (get_or_create_resources / add_xobject / add_graphics_state), evaluated
//!       on the document the update denotes (new objects over the previous view) with the nearest-ancestor rule:
//!       the call changes no object outside the page and the page's own resources (so a page that does not share
//!       them keeps its effective resources), the page keeps every entry of its effective resources, own or INHERITED
//!       (C11-inc-resources-shadow), and after save + reload the page's effective resources hold the new
//!       name, every page shows what the update denoted.
//!   (incraw HDR xBYTES LAYOUT (steps ...))
//!       the same on top of a hand-assembled file.
use lopdf::xref::{XrefEntry, XrefType};
use lopdf::{Dictionary, Document, IncrementalDocument, Object, ObjectId};
use lvh::conv::*;
use lvh::sx::Sx;
use std::collections::{BTreeMap, BTreeSet};

fn err_class(e: &lopdf::Error) -> &'static str {
    // lopdf::error is private: classify by the Debug form of the variant
    let d = format!("{:?}", e);
    match d.as_str() {
        "Xref(Start)" => "xref-start",
        "Xref(PrevStart)" => "prev-start",
        "Xref(StreamStart)" => "stream-start",
        "Parse(InvalidTrailer)" => "invalid-trailer",
        "Parse(InvalidXref)" => "invalid-xref",
        "Parse(InvalidFileHeader)" => "header",
        _ => "other",
    }
}

fn ent_to_sx(e: &XrefEntry) -> Sx {
    match e {
        XrefEntry::Free => Sx::L(vec![Sx::id("free")]),
        XrefEntry::UnusableFree => Sx::L(vec![Sx::id("ufree")]),
        XrefEntry::Normal { offset, generation } => Sx::tagged("n", vec![Sx::num(offset), Sx::num(generation)]),
        XrefEntry::Compressed { container, index } => Sx::tagged("c", vec![Sx::num(container), Sx::num(index)]),
    }
}

fn sorted_dict_sx(d: &Dictionary) -> Sx {
    let mut es: Vec<(&Vec<u8>, &Object)> = d.iter().collect();
    es.sort_by(|a, b| a.0.cmp(b.0));
    Sx::tagged("d", es.into_iter().map(|(k, v)| Sx::L(vec![Sx::bytes(k), obj_to_sx(v)])).collect())
}

fn objs_sx(m: &BTreeMap<ObjectId, Object>) -> Sx {
    Sx::tagged("objs", m.iter().map(|(id, o)| Sx::L(vec![oid_to_sx(*id), obj_to_sx(o)])).collect())
}

fn is_stream_type(d: &Document) -> bool {
    matches!(d.reference_table.cross_reference_type, XrefType::CrossReferenceStream)
}

fn loaded_sx(d: &Document) -> Sx {
    Sx::tagged(
        "loaded",
        vec![
            Sx::tagged(
                "xref",
                d.reference_table.entries.iter().map(|(id, e)| Sx::L(vec![Sx::num(id), ent_to_sx(e)])).collect(),
            ),
            sorted_dict_sx(&d.trailer),
            Sx::num(d.max_id),
            Sx::boolean(is_stream_type(d)),
            Sx::num(d.xref_start),
            objs_sx(&d.objects),
        ],
    )
}

/// "latest revision wins": overlay of the revisions, oldest first
fn overlay(revs: &Sx) -> Option<BTreeMap<ObjectId, Object>> {
    let mut m = BTreeMap::new();
    for r in revs.args() {
        let a = r.args();
        for p in a.first()?.args() {
            let io = p.as_list()?;
            let id = oid_of_sx(&io[0])?;
            // a new generation of an object number replaces the older generations
            let old: Vec<ObjectId> = m.keys().filter(|k: &&ObjectId| k.0 == id.0).cloned().collect();
            for k in old {
                m.remove(&k);
            }
            m.insert(id, obj_of_sx(&io[1])?);
        }
        for dl in a.get(1)?.args() {
            let id = oid_of_sx(dl)?;
            let old: Vec<ObjectId> = m.keys().filter(|k: &&ObjectId| k.0 == id.0).cloned().collect();
            for k in old {
                m.remove(&k);
            }
        }
    }
    Some(m)
}

fn is_infra(o: &Object) -> bool {
    match o {
        Object::Stream(s) => s.dict.has_type(b"ObjStm") || s.dict.has_type(b"XRef"),
        _ => false,
    }
}

fn same_obj(a: &Object, b: &Object) -> bool {
    obj_to_sx(a).print() == obj_to_sx(b).print()
}

/// None = equal on user objects; Some(reason) otherwise
fn diff_user(loaded: &BTreeMap<ObjectId, Object>, want: &BTreeMap<ObjectId, Object>) -> Option<String> {
    for (id, o) in want {
        match loaded.get(id) {
            None => return Some(format!("object {} {} of the latest revision is missing", id.0, id.1)),
            Some(l) if !same_obj(l, o) => {
                return Some(format!("object {} {} is not the one of the latest revision defining it", id.0, id.1))
            }
            _ => {}
        }
    }
    for (id, o) in loaded {
        if !want.contains_key(id) && !is_infra(o) {
            return Some(format!("object {} {} is loaded but no live revision defines it", id.0, id.1));
        }
    }
    None
}

// ---------------------------------------------------------------- effective resources of the denoted document
type View = BTreeMap<ObjectId, Object>;

/// the document an update denotes at this moment: the new objects over the previous view
fn view_of(inc: &IncrementalDocument) -> View {
    let mut v = inc.get_prev_documents().objects.clone();
    for (id, o) in &inc.new_document.objects {
        v.insert(*id, o.clone());
    }
    v
}

/// follow references (at most 64); every object id passed is pushed on `trail`
fn vderef<'a>(v: &'a View, mut o: &'a Object, trail: &mut Vec<ObjectId>) -> Option<&'a Object> {
    for _ in 0..64 {
        match o {
            Object::Reference(id) => {
                trail.push(*id);
                o = v.get(id)?;
            }
            _ => return Some(o),
        }
    }
    None
}

fn vnode<'a>(v: &'a View, id: ObjectId, trail: &mut Vec<ObjectId>) -> Option<&'a Dictionary> {
    trail.push(id);
    match vderef(v, v.get(&id)?, trail)? {
        Object::Dictionary(d) => Some(d),
        _ => None,
    }
}

/// canonical text of a resource dictionary: (category, name, value) sorted; a category that is not a dictionary
/// is one entry
fn flatten_resources(v: &View, r: &Dictionary, trail: &mut Vec<ObjectId>) -> String {
    let mut rows = vec![];
    for (cat, val) in r.iter() {
        match vderef(v, val, trail) {
            Some(Object::Dictionary(cd)) => {
                rows.push(format!("{}/", Sx::bytes(cat).print()));
                for (n, x) in cd.iter() {
                    rows.push(format!("{}/{}={}", Sx::bytes(cat).print(), Sx::bytes(n).print(), obj_to_sx(x).print()));
                }
            }
            Some(o) => rows.push(format!("{}={}", Sx::bytes(cat).print(), obj_to_sx(o).print())),
            None => rows.push(format!("{}=?", Sx::bytes(cat).print())),
        }
    }
    rows.sort();
    rows.join(";")
}

/// effective resources of a page-tree node (nearest ancestor that has the entry), and the ids it was read from
fn effective_resources(v: &View, id: ObjectId) -> (String, BTreeSet<ObjectId>) {
    let mut trail = vec![];
    let mut node = id;
    let mut text = "(none)".to_string();
    for _ in 0..=v.len() {
        let d = match vnode(v, node, &mut trail) {
            Some(d) => d,
            None => {
                text = "(undefined)".into();
                break;
            }
        };
        if let Ok(r) = d.get(b"Resources") {
            text = match vderef(v, r, &mut trail) {
                Some(Object::Dictionary(rd)) => flatten_resources(v, rd, &mut trail),
                Some(o) => format!("(not a dictionary {})", obj_to_sx(o).print()),
                None => "(dangling)".into(),
            };
            break;
        }
        match d.get(b"Parent").and_then(Object::as_reference) {
            Ok(p) => node = p,
            Err(_) => break,
        }
    }
    (text, trail.into_iter().collect())
}

fn is_tree_node(v: &View, id: ObjectId) -> bool {
    matches!(v.get(&id), Some(Object::Dictionary(d)) if d.has_type(b"Page") || d.has_type(b"Pages"))
}

fn all_effective(v: &View) -> BTreeMap<ObjectId, (String, BTreeSet<ObjectId>)> {
    v.keys().filter(|id| is_tree_node(v, **id)).map(|id| (*id, effective_resources(v, *id))).collect()
}

/// what a resource helper called for `page` may rewrite: the page object and the objects its OWN Resources entry
/// (and the category entry in it) is read from.  Second component: the call is in the domain where `ok` means "the
/// entry was added" (page a dictionary, Resources absent or leading to a dictionary, the category absent or -- for
/// XObject through references, for ExtGState directly -- a dictionary; no bare reference object of the update on the way:
/// the helpers resolve those inside the update only and then do nothing)
fn helper_scope(inc: &IncrementalDocument, v: &View, page: ObjectId, cat: Option<&[u8]>) -> (BTreeSet<ObjectId>, bool) {
    let mut trail = vec![];
    let mut dom = true;
    'walk: {
        let pd = match vnode(v, page, &mut trail) {
            Some(d) => d,
            None => {
                dom = false;
                break 'walk;
            }
        };
        let rd = match pd.get(b"Resources") {
            Err(_) => break 'walk,
            Ok(r) => match vderef(v, r, &mut trail) {
                Some(Object::Dictionary(rd)) => rd,
                _ => {
                    dom = false;
                    break 'walk;
                }
            },
        };
        if let Some(cat) = cat {
            if let Ok(c) = rd.get(cat) {
                if cat == b"ExtGState" && !matches!(c, Object::Dictionary(_)) {
                    dom = false;
                }
                if !matches!(vderef(v, c, &mut trail), Some(Object::Dictionary(_))) {
                    dom = false;
                }
            }
        }
    }
    if trail.iter().any(|id| matches!(inc.new_document.objects.get(id), Some(Object::Reference(_)))) {
        dom = false;
    }
    (trail.into_iter().collect(), dom)
}

/// does the node's effective resource dictionary hold  /cat << /name x 0 R >>  ?
fn has_resource(v: &View, page: ObjectId, cat: &[u8], name: &[u8], x: ObjectId) -> bool {
    let want = format!("{}/{}={}", Sx::bytes(cat).print(), Sx::bytes(name).print(), obj_to_sx(&Object::Reference(x)).print());
    effective_resources(v, page).0.split(';').any(|row| row == want)
}

/// does `opt_clone_object_to_new_document(id)` keep what `id` names in this update?  The copy is what the id leads to INSIDE
/// the previous documents; when the object there is a bare reference object whose target the update has redefined, the
/// copy is not what the id names now (a quirk of the copy; the verdict on kept resources does not speak about such calls)
fn clone_faithful(inc: &IncrementalDocument, v: &View, id: ObjectId) -> bool {
    if inc.new_document.objects.contains_key(&id) {
        return true;
    }
    match inc.get_prev_documents().objects.get(&id) {
        Some(o @ Object::Reference(_)) => match (inc.get_prev_documents().get_object(id), vderef(v, o, &mut vec![])) {
            (Ok(a), Some(b)) => same_obj(a, b),
            (Ok(_), None) => false,
            (Err(_), _) => true, // the copy fails: nothing is written
        },
        _ => true,
    }
}

/// "/Font /F1" for the row key "x466f6e74/x4631"
fn pretty_key(key: &str) -> String {
    key.split('/')
        .filter(|p| !p.is_empty())
        .map(|p| {
            let hex = p.trim_start_matches('x');
            let bytes: Vec<u8> = (0..hex.len() / 2).filter_map(|i| u8::from_str_radix(&hex[2 * i..2 * i + 2], 16).ok()).collect();
            format!("/{}", String::from_utf8_lossy(&bytes))
        })
        .collect::<Vec<_>>()
        .join(" ")
}

/// C11's clause for the helpers of an update (finding C11-inc-resources-shadow): every entry of the effective resources the page
/// had in the denoted document before the call -- own or INHERITED -- is there after it, with its value; only the name the call
/// itself sets (`set_key` = "cat/name") may get a new value.  None = kept.
fn kept_resources(inc_before_faithful: bool, before: &View, after: &View, page: ObjectId, set_key: Option<&str>, what: &str) -> Option<String> {
    let (tb, _) = effective_resources(before, page);
    if tb.starts_with('(') || !inc_before_faithful {
        return None; // the page had no (well-formed) resources before, or the copy quirk applies
    }
    let (ta, _) = effective_resources(after, page);
    let rows_after: BTreeSet<&str> = ta.split(';').collect();
    let keys_after: BTreeSet<&str> = ta.split(';').map(|r| r.split('=').next().unwrap_or(r)).collect();
    for row in tb.split(';').filter(|r| !r.is_empty()) {
        if rows_after.contains(row) {
            continue;
        }
        let key = row.split('=').next().unwrap_or(row);
        if Some(key) == set_key && keys_after.contains(key) {
            continue;
        }
        return Some(format!(
            "{} took away the resource {} that page {} {} could use before (own or inherited)",
            what,
            pretty_key(key),
            page.0,
            page.1
        ));
    }
    None
}

struct Pending {
    page: ObjectId,
    cat: &'static [u8],
    name: Vec<u8>,
    x: ObjectId,
    what: String,
}

/// the frame of one helper call on the denoted document
fn helper_frame(before: &View, after: &View, scope: &BTreeSet<ObjectId>, page: ObjectId, what: &str) -> Option<String> {
    for id in before.keys().chain(after.keys()) {
        let same = match (before.get(id), after.get(id)) {
            (Some(a), Some(b)) => same_obj(a, b),
            _ => false,
        };
        if !same && !scope.contains(id) {
            return Some(format!(
                "{} rewrote object {} {}, which is neither the page nor part of the resources the page has in this update",
                what, id.0, id.1
            ));
        }
    }
    let eb = all_effective(before);
    let ea = all_effective(after);
    for (q, (text, support)) in &eb {
        if *q == page {
            continue;
        }
        let now = ea.get(q).map(|e| e.0.as_str());
        if now != Some(text.as_str()) && support.is_disjoint(scope) {
            return Some(format!("{} changed the effective resources of the other page {} {}", what, q.0, q.1));
        }
    }
    None
}

fn run_load(a: &[Sx]) -> (Sx, String) {
    let bytes = match a.get(1).and_then(|b| b.as_bytes()) {
        Some(b) => b,
        None => return (Sx::id("badcase"), "skip".into()),
    };
    let want = a.get(3).and_then(overlay);
    let wsx = match &want {
        Some(w) => Sx::tagged("expect", w.iter().map(|(id, o)| Sx::L(vec![oid_to_sx(*id), obj_to_sx(o)])).collect()),
        None => Sx::id("noexpect"),
    };
    // watchdog: a Prev cycle must not hang the reader
    let (tx, rx) = std::sync::mpsc::channel();
    let b2 = bytes.clone();
    std::thread::spawn(move || {
        let _ = tx.send(Document::load_mem(&b2));
    });
    let loaded = match rx.recv_timeout(std::time::Duration::from_secs(20)) {
        Ok(r) => r,
        Err(_) => return (Sx::L(vec![Sx::tagged("timeout", vec![]), wsx]), "FAIL the reader did not terminate within 20 s".into()),
    };
    match loaded {
        Err(e) => (
            Sx::L(vec![Sx::tagged("err", vec![Sx::id(err_class(&e))]), wsx]),
            if want.is_some() { format!("FAIL history does not load: {}", e) } else { "ok".into() },
        ),
        Ok(d) => {
            let verdict = match &want {
                None => "ok".to_string(),
                Some(w) => match diff_user(&d.objects, w) {
                    None => "ok".to_string(),
                    Some(r) => format!("FAIL {}", r),
                },
            };
            (Sx::L(vec![loaded_sx(&d), wsx]), verdict)
        }
    }
}

fn count_sub(h: &[u8], n: &[u8]) -> usize {
    if n.is_empty() || h.len() < n.len() {
        return 0;
    }
    h.windows(n.len()).filter(|w| *w == n).count()
}

fn apply_op(inc: &mut IncrementalDocument, op: &Sx) -> Option<Sx> {
    let a = op.args();
    Some(match op.tag()? {
        "set" => {
            inc.new_document.set_object(oid_of_sx(&a[0])?, obj_of_sx(&a[1])?);
            Sx::id("ok")
        }
        "add" => {
            let id = inc.new_document.add_object(obj_of_sx(&a[0])?);
            oid_to_sx(id)
        }
        "clone" => match inc.opt_clone_object_to_new_document(oid_of_sx(&a[0])?) {
            Ok(()) => Sx::id("ok"),
            Err(_) => Sx::id("err"),
        },
        "setkey" => {
            let id = oid_of_sx(&a[0])?;
            match inc.opt_clone_object_to_new_document(id) {
                Err(_) => Sx::id("err"),
                Ok(()) => match inc.new_document.get_object_mut(id).and_then(Object::as_dict_mut) {
                    Ok(d) => {
                        d.set(a[1].as_bytes()?, obj_of_sx(&a[2])?);
                        Sx::id("ok")
                    }
                    Err(_) => Sx::id("err"),
                },
            }
        }
        "res" => match inc.get_or_create_resources(oid_of_sx(&a[0])?) {
            Ok(o) => Sx::tagged("ok", vec![obj_to_sx(o)]),
            Err(_) => Sx::id("err"),
        },
        "xobj" => match inc.add_xobject(oid_of_sx(&a[0])?, a[1].as_bytes()?, oid_of_sx(&a[2])?) {
            Ok(()) => Sx::id("ok"),
            Err(_) => Sx::id("err"),
        },
        "gs" => match inc.add_graphics_state(oid_of_sx(&a[0])?, a[1].as_bytes()?, oid_of_sx(&a[2])?) {
            Ok(()) => Sx::id("ok"),
            Err(_) => Sx::id("err"),
        },
        _ => return None,
    })
}

/// replay the steps on top of `bytes`; returns (result items, verdict)
fn run_steps(mut bytes: Vec<u8>, steps: &Sx, out: &mut Vec<Sx>) -> String {
    let mut verdict = "ok".to_string();
    let fail = |v: &mut String, s: String| {
        if v == "ok" {
            *v = format!("FAIL {}", s);
        }
    };
    for (k, st) in steps.args().iter().enumerate() {
        let mut inc: IncrementalDocument = match IncrementalDocument::load_from(&bytes[..]) {
            Ok(i) => i,
            Err(e) => {
                out.push(Sx::tagged("loaderr", vec![Sx::id(err_class(&e))]));
                fail(&mut verdict, format!("step {}: the previous save does not load for a further update: {}", k, e));
                return verdict;
            }
        };
        let prev_before = doc_to_sx(inc.get_prev_documents()).print();
        let prev_start = inc.get_prev_documents().xref_start;
        let prev_objects = inc.get_prev_documents().objects.clone();
        let mut rs = vec![];
        let mut pending: Vec<Pending> = vec![];
        for (j, op) in st.args().iter().enumerate() {
            // resource helpers: what the call may touch, judged on the document the update denotes before the call
            let helper = match op.tag() {
                Some("res") => Some(None),
                Some("xobj") => Some(Some(&b"XObject"[..])),
                Some("gs") => Some(Some(&b"ExtGState"[..])),
                _ => None,
            };
            let before = if helper.is_some() || !pending.is_empty() { Some(view_of(&inc)) } else { None };
            // the copies the helper will make (the page, the object its own Resources entry names) keep what these ids name
            let faithful = match (&helper, &before, op.args().first().and_then(oid_of_sx)) {
                (Some(_), Some(v), Some(page)) => {
                    let own = vnode(v, page, &mut vec![]).and_then(|d| d.get(b"Resources").and_then(Object::as_reference).ok());
                    clone_faithful(&inc, v, page) && own.map_or(true, |rid| clone_faithful(&inc, v, rid))
                }
                _ => false,
            };
            let r = match apply_op(&mut inc, op) {
                Some(r) => r,
                None => {
                    out.push(Sx::id("badop"));
                    return "skip".into();
                }
            };
            if let Some(before) = before {
                let after = view_of(&inc);
                // an entry a later edit of this update replaces is no longer expected
                pending.retain(|p| !(has_resource(&before, p.page, p.cat, &p.name, p.x) && !has_resource(&after, p.page, p.cat, &p.name, p.x)));
                if let (Some(cat), Some(page)) = (helper, op.args().first().and_then(oid_of_sx)) {
                    let what = format!("step {} edit {}: {}", k, j, op.print());
                    let (scope, dom) = helper_scope(&inc, &before, page, cat);
                    if let Some(why) = helper_frame(&before, &after, &scope, page, &what) {
                        fail(&mut verdict, why);
                    }
                    let set_key = match (cat, op.args().get(1).and_then(|n| n.as_bytes())) {
                        (Some(c), Some(n)) => Some(format!("{}/{}", Sx::bytes(c).print(), Sx::bytes(&n).print())),
                        _ => None,
                    };
                    if let Some(why) = kept_resources(faithful, &before, &after, page, set_key.as_deref(), &what) {
                        fail(&mut verdict, why);
                    }
                    if let (Some(cat), true, true) = (cat, dom, r.is_id("ok")) {
                        let a = op.args();
                        if let (Some(name), Some(x)) = (a.get(1).and_then(|n| n.as_bytes()), a.get(2).and_then(oid_of_sx)) {
                            let cat: &'static [u8] = if cat == b"XObject" { b"XObject" } else { b"ExtGState" };
                            pending.push(Pending { page, cat, name, x, what });
                        }
                    }
                }
            }
            rs.push(r);
        }
        let final_view = view_of(&inc);
        let new_objects = inc.new_document.objects.clone();
        let mut next = Vec::new();
        if let Err(e) = inc.save_to(&mut next) {
            out.push(Sx::tagged("saveerr", vec![]));
            fail(&mut verdict, format!("step {}: save_to failed: {}", k, e));
            return verdict;
        }
        let prefix_ok = next.len() >= bytes.len() && next[..bytes.len()] == bytes[..];
        let suffix: &[u8] = if prefix_ok { &next[bytes.len()..] } else { &next[..] };
        out.push(Sx::tagged(
            "step",
            vec![Sx::tagged("ops", rs), objs_sx(&new_objects), Sx::boolean(prefix_ok), Sx::bytes(suffix)],
        ));
        if !prefix_ok {
            fail(&mut verdict, format!("step {}: the previous bytes are not a prefix of the incremental save", k));
        }
        if doc_to_sx(inc.get_prev_documents()).print() != prev_before {
            fail(&mut verdict, format!("step {}: the view of the previous revisions changed", k));
        }
        // only the new objects, one cross-reference section, Prev = previous xref start
        let is_stream = is_stream_type(inc.get_prev_documents());
        let written = new_objects.values().filter(|o| !matches!(o.type_name(), Ok(b"ObjStm") | Ok(b"XRef") | Ok(b"Linearized"))).count();
        let n_endobj = count_sub(suffix, b"\nendobj\n");
        // a stream body may contain the marker; only flag when no stream object is involved
        let has_stream = new_objects.values().any(|o| matches!(o, Object::Stream(_)));
        if !has_stream && n_endobj != written + usize::from(is_stream) {
            fail(&mut verdict, format!("step {}: the appended part holds {} objects, {} are new", k, n_endobj, written));
        }
        if count_sub(suffix, b"startxref\n") != 1 {
            fail(&mut verdict, format!("step {}: not exactly one startxref in the appended part", k));
        }
        if count_sub(suffix, format!("/Prev {}", prev_start).as_bytes()) < 1 {
            fail(&mut verdict, format!("step {}: Prev does not name the previous cross-reference section", k));
        }
        // reload: overlay of previous view and the new objects
        match Document::load_mem(&next) {
            Err(e) => {
                out.push(Sx::tagged("reloaderr", vec![Sx::id(err_class(&e))]));
                fail(&mut verdict, format!("step {}: the incremental save does not load: {}", k, e));
                return verdict;
            }
            Ok(d) => {
                let mut want = prev_objects.clone();
                for (id, o) in &new_objects {
                    if !matches!(o.type_name(), Ok(b"ObjStm") | Ok(b"XRef") | Ok(b"Linearized")) {
                        want.insert(*id, o.clone());
                    }
                }
                if let Some(r) = diff_user(&d.objects, &want) {
                    fail(&mut verdict, format!("step {}: after reload {}", k, r));
                }
                // the replayed resource edits: the page can use the new name, every page shows what the update denoted
                for p in &pending {
                    if !has_resource(&d.objects, p.page, p.cat, &p.name, p.x) {
                        fail(
                            &mut verdict,
                            format!(
                                "{} returned ok but after save and reload the effective resources of page {} {} do not hold /{} /{} -> {} {} R",
                                p.what,
                                p.page.0,
                                p.page.1,
                                String::from_utf8_lossy(p.cat),
                                String::from_utf8_lossy(&p.name),
                                p.x.0,
                                p.x.1
                            ),
                        );
                    }
                }
                if !pending.is_empty() {
                    let er = all_effective(&d.objects);
                    for (q, (text, _)) in all_effective(&final_view) {
                        if er.get(&q).map(|e| e.0.as_str()) != Some(text.as_str()) {
                            fail(&mut verdict, format!("step {}: after reload page {} {} has other effective resources than the update denoted", k, q.0, q.1));
                        }
                    }
                }
                out.push(Sx::tagged("reload", vec![sorted_dict_sx(&d.trailer), Sx::num(d.max_id), Sx::num(d.xref_start), objs_sx(&d.objects)]));
            }
        }
        bytes = next;
    }
    verdict
}

fn run_inc(a: &[Sx]) -> (Sx, String) {
    let mut doc = match a.first().and_then(doc_of_sx) {
        Some(d) => d,
        None => return (Sx::id("badcase"), "skip".into()),
    };
    let stream = a.get(1).map(|s| s.is_id("stream")).unwrap_or(false);
    doc.reference_table.cross_reference_type =
        if stream { XrefType::CrossReferenceStream } else { XrefType::CrossReferenceTable };
    let junk = a.get(2).and_then(|j| j.as_bytes()).unwrap_or_default();
    let mut base = junk.clone();
    if doc.save_to(&mut base).is_err() {
        return (Sx::tagged("inc", vec![Sx::id("basesaveerr")]), "skip".into());
    }
    let mut out = vec![Sx::bytes(&base[junk.len()..])];
    let steps = match a.get(3) {
        Some(s) => s,
        None => return (Sx::id("badcase"), "skip".into()),
    };
    let v = run_steps(base, steps, &mut out);
    (Sx::tagged("inc", out), v)
}

fn run_incraw(a: &[Sx]) -> (Sx, String) {
    let bytes = match a.get(1).and_then(|b| b.as_bytes()) {
        Some(b) => b,
        None => return (Sx::id("badcase"), "skip".into()),
    };
    let steps = match a.get(3) {
        Some(s) => s,
        None => return (Sx::id("badcase"), "skip".into()),
    };
    let mut out = vec![];
    let v = run_steps(bytes, steps, &mut out);
    (Sx::tagged("incraw", out), v)
}

fn main() {
    lvh::drive(|x| {
        let a = x.args();
        match x.tag() {
            Some("load") => run_load(a),
            Some("inc") => run_inc(a),
            Some("incraw") => run_incraw(a),
            _ => (Sx::id("badcase"), "skip".into()),
        }
    });
}
