//! C07: incremental updates -- latest revision wins, history preserved.
//!
//! Case kinds
//!   (load HDR xBYTES LAYOUT REVS)
//!       one prefix of a hand-assembled revision history.  The implementation loads xBYTES; the
//!       result is the merged cross-reference table, trailer, max_id, xref type, xref_start and the
//!       objects.  REVS = (revs (rev (puts ((id gen) obj)...) (dels (id gen)...))...) is the abstract
//!       history; the direct verdict compares the loaded user objects with "latest revision wins".
//!       LAYOUT is only read by the model.
//!   (inc DOC STYLE xJUNK (steps (step OP...)...))
//!       DOC is saved by lopdf (STYLE = table|stream), prefixed with xJUNK, and then every step loads
//!       the bytes as an IncrementalDocument, applies the OPs, saves and reloads.
//!       OP = (set (id gen) obj) | (add obj) | (clone (id gen)) | (setkey (id gen) xKEY obj)
//!          | (res (id gen)) | (xobj (id gen) xNAME (id gen))
//!   (incraw HDR xBYTES LAYOUT (steps ...))
//!       the same on top of a hand-assembled file.
use lopdf::xref::{XrefEntry, XrefType};
use lopdf::{Dictionary, Document, IncrementalDocument, Object, ObjectId};
use lvh::conv::*;
use lvh::sx::Sx;
use std::collections::BTreeMap;

fn err_class(e: &lopdf::Error) -> &'static str {
    // lopdf::error is private: classify by the Debug form of the variant
    let d = format!("{:?}", e);
    match d.as_str() {
        "Xref(Start)" => "xref-start",
        "Xref(PrevStart)" => "prev-start",
        "Xref(StreamStart)" => "stream-start",
        "Parse(InvalidTrailer)" => "invalid-trailer",
        "Parse(InvalidXref)" => "invalid-xref",
        "Parse(InvalidFileHeader)" => "header",
        _ => "other",
    }
}

fn ent_to_sx(e: &XrefEntry) -> Sx {
    match e {
        XrefEntry::Free => Sx::L(vec![Sx::id("free")]),
        XrefEntry::UnusableFree => Sx::L(vec![Sx::id("ufree")]),
        XrefEntry::Normal { offset, generation } => Sx::tagged("n", vec![Sx::num(offset), Sx::num(generation)]),
        XrefEntry::Compressed { container, index } => Sx::tagged("c", vec![Sx::num(container), Sx::num(index)]),
    }
}

fn sorted_dict_sx(d: &Dictionary) -> Sx {
    let mut es: Vec<(&Vec<u8>, &Object)> = d.iter().collect();
    es.sort_by(|a, b| a.0.cmp(b.0));
    Sx::tagged("d", es.into_iter().map(|(k, v)| Sx::L(vec![Sx::bytes(k), obj_to_sx(v)])).collect())
}

fn objs_sx(m: &BTreeMap<ObjectId, Object>) -> Sx {
    Sx::tagged("objs", m.iter().map(|(id, o)| Sx::L(vec![oid_to_sx(*id), obj_to_sx(o)])).collect())
}

fn is_stream_type(d: &Document) -> bool {
    matches!(d.reference_table.cross_reference_type, XrefType::CrossReferenceStream)
}

fn loaded_sx(d: &Document) -> Sx {
    Sx::tagged(
        "loaded",
        vec![
            Sx::tagged(
                "xref",
                d.reference_table.entries.iter().map(|(id, e)| Sx::L(vec![Sx::num(id), ent_to_sx(e)])).collect(),
            ),
            sorted_dict_sx(&d.trailer),
            Sx::num(d.max_id),
            Sx::boolean(is_stream_type(d)),
            Sx::num(d.xref_start),
            objs_sx(&d.objects),
        ],
    )
}

/// "latest revision wins": overlay of the revisions, oldest first
fn overlay(revs: &Sx) -> Option<BTreeMap<ObjectId, Object>> {
    let mut m = BTreeMap::new();
    for r in revs.args() {
        let a = r.args();
        for p in a.first()?.args() {
            let io = p.as_list()?;
            let id = oid_of_sx(&io[0])?;
            // a new generation of an object number replaces the older generations
            let old: Vec<ObjectId> = m.keys().filter(|k: &&ObjectId| k.0 == id.0).cloned().collect();
            for k in old {
                m.remove(&k);
            }
            m.insert(id, obj_of_sx(&io[1])?);
        }
        for dl in a.get(1)?.args() {
            let id = oid_of_sx(dl)?;
            let old: Vec<ObjectId> = m.keys().filter(|k: &&ObjectId| k.0 == id.0).cloned().collect();
            for k in old {
                m.remove(&k);
            }
        }
    }
    Some(m)
}

fn is_infra(o: &Object) -> bool {
    match o {
        Object::Stream(s) => s.dict.has_type(b"ObjStm") || s.dict.has_type(b"XRef"),
        _ => false,
    }
}

fn same_obj(a: &Object, b: &Object) -> bool {
    obj_to_sx(a).print() == obj_to_sx(b).print()
}

/// None = equal on user objects; Some(reason) otherwise
fn diff_user(loaded: &BTreeMap<ObjectId, Object>, want: &BTreeMap<ObjectId, Object>) -> Option<String> {
    for (id, o) in want {
        match loaded.get(id) {
            None => return Some(format!("object {} {} of the latest revision is missing", id.0, id.1)),
            Some(l) if !same_obj(l, o) => {
                return Some(format!("object {} {} is not the one of the latest revision defining it", id.0, id.1))
            }
            _ => {}
        }
    }
    for (id, o) in loaded {
        if !want.contains_key(id) && !is_infra(o) {
            return Some(format!("object {} {} is loaded but no live revision defines it", id.0, id.1));
        }
    }
    None
}

fn run_load(a: &[Sx]) -> (Sx, String) {
    let bytes = match a.get(1).and_then(|b| b.as_bytes()) {
        Some(b) => b,
        None => return (Sx::id("badcase"), "skip".into()),
    };
    let want = a.get(3).and_then(overlay);
    let wsx = match &want {
        Some(w) => Sx::tagged("expect", w.iter().map(|(id, o)| Sx::L(vec![oid_to_sx(*id), obj_to_sx(o)])).collect()),
        None => Sx::id("noexpect"),
    };
    // watchdog: a Prev cycle must not hang the reader
    let (tx, rx) = std::sync::mpsc::channel();
    let b2 = bytes.clone();
    std::thread::spawn(move || {
        let _ = tx.send(Document::load_mem(&b2));
    });
    let loaded = match rx.recv_timeout(std::time::Duration::from_secs(20)) {
        Ok(r) => r,
        Err(_) => return (Sx::L(vec![Sx::tagged("timeout", vec![]), wsx]), "FAIL the reader did not terminate within 20 s".into()),
    };
    match loaded {
        Err(e) => (
            Sx::L(vec![Sx::tagged("err", vec![Sx::id(err_class(&e))]), wsx]),
            if want.is_some() { format!("FAIL history does not load: {}", e) } else { "ok".into() },
        ),
        Ok(d) => {
            let verdict = match &want {
                None => "ok".to_string(),
                Some(w) => match diff_user(&d.objects, w) {
                    None => "ok".to_string(),
                    Some(r) => format!("FAIL {}", r),
                },
            };
            (Sx::L(vec![loaded_sx(&d), wsx]), verdict)
        }
    }
}

fn count_sub(h: &[u8], n: &[u8]) -> usize {
    if n.is_empty() || h.len() < n.len() {
        return 0;
    }
    h.windows(n.len()).filter(|w| *w == n).count()
}

fn apply_op(inc: &mut IncrementalDocument, op: &Sx) -> Option<Sx> {
    let a = op.args();
    Some(match op.tag()? {
        "set" => {
            inc.new_document.set_object(oid_of_sx(&a[0])?, obj_of_sx(&a[1])?);
            Sx::id("ok")
        }
        "add" => {
            let id = inc.new_document.add_object(obj_of_sx(&a[0])?);
            oid_to_sx(id)
        }
        "clone" => match inc.opt_clone_object_to_new_document(oid_of_sx(&a[0])?) {
            Ok(()) => Sx::id("ok"),
            Err(_) => Sx::id("err"),
        },
        "setkey" => {
            let id = oid_of_sx(&a[0])?;
            match inc.opt_clone_object_to_new_document(id) {
                Err(_) => Sx::id("err"),
                Ok(()) => match inc.new_document.get_object_mut(id).and_then(Object::as_dict_mut) {
                    Ok(d) => {
                        d.set(a[1].as_bytes()?, obj_of_sx(&a[2])?);
                        Sx::id("ok")
                    }
                    Err(_) => Sx::id("err"),
                },
            }
        }
        "res" => match inc.get_or_create_resources(oid_of_sx(&a[0])?) {
            Ok(o) => Sx::tagged("ok", vec![obj_to_sx(o)]),
            Err(_) => Sx::id("err"),
        },
        "xobj" => match inc.add_xobject(oid_of_sx(&a[0])?, a[1].as_bytes()?, oid_of_sx(&a[2])?) {
            Ok(()) => Sx::id("ok"),
            Err(_) => Sx::id("err"),
        },
        _ => return None,
    })
}

/// replay the steps on top of `bytes`; returns (result items, verdict)
fn run_steps(mut bytes: Vec<u8>, steps: &Sx, out: &mut Vec<Sx>) -> String {
    let mut verdict = "ok".to_string();
    let fail = |v: &mut String, s: String| {
        if v == "ok" {
            *v = format!("FAIL {}", s);
        }
    };
    for (k, st) in steps.args().iter().enumerate() {
        let mut inc: IncrementalDocument = match IncrementalDocument::load_from(&bytes[..]) {
            Ok(i) => i,
            Err(e) => {
                out.push(Sx::tagged("loaderr", vec![Sx::id(err_class(&e))]));
                fail(&mut verdict, format!("step {}: the previous save does not load for a further update: {}", k, e));
                return verdict;
            }
        };
        let prev_before = doc_to_sx(inc.get_prev_documents()).print();
        let prev_start = inc.get_prev_documents().xref_start;
        let prev_objects = inc.get_prev_documents().objects.clone();
        let mut rs = vec![];
        for op in st.args() {
            match apply_op(&mut inc, op) {
                Some(r) => rs.push(r),
                None => {
                    out.push(Sx::id("badop"));
                    return "skip".into();
                }
            }
        }
        let new_objects = inc.new_document.objects.clone();
        let mut next = Vec::new();
        if let Err(e) = inc.save_to(&mut next) {
            out.push(Sx::tagged("saveerr", vec![]));
            fail(&mut verdict, format!("step {}: save_to failed: {}", k, e));
            return verdict;
        }
        let prefix_ok = next.len() >= bytes.len() && next[..bytes.len()] == bytes[..];
        let suffix: &[u8] = if prefix_ok { &next[bytes.len()..] } else { &next[..] };
        out.push(Sx::tagged(
            "step",
            vec![Sx::tagged("ops", rs), objs_sx(&new_objects), Sx::boolean(prefix_ok), Sx::bytes(suffix)],
        ));
        if !prefix_ok {
            fail(&mut verdict, format!("step {}: the previous bytes are not a prefix of the incremental save", k));
        }
        if doc_to_sx(inc.get_prev_documents()).print() != prev_before {
            fail(&mut verdict, format!("step {}: the view of the previous revisions changed", k));
        }
        // only the new objects, one cross-reference section, Prev = previous xref start
        let is_stream = is_stream_type(inc.get_prev_documents());
        let written = new_objects.values().filter(|o| !matches!(o.type_name(), Ok(b"ObjStm") | Ok(b"XRef") | Ok(b"Linearized"))).count();
        let n_endobj = count_sub(suffix, b"\nendobj\n");
        // a stream body may contain the marker; only flag when no stream object is involved
        let has_stream = new_objects.values().any(|o| matches!(o, Object::Stream(_)));
        if !has_stream && n_endobj != written + usize::from(is_stream) {
            fail(&mut verdict, format!("step {}: the appended part holds {} objects, {} are new", k, n_endobj, written));
        }
        if count_sub(suffix, b"startxref\n") != 1 {
            fail(&mut verdict, format!("step {}: not exactly one startxref in the appended part", k));
        }
        if count_sub(suffix, format!("/Prev {}", prev_start).as_bytes()) < 1 {
            fail(&mut verdict, format!("step {}: Prev does not name the previous cross-reference section", k));
        }
        // reload: overlay of previous view and the new objects
        match Document::load_mem(&next) {
            Err(e) => {
                out.push(Sx::tagged("reloaderr", vec![Sx::id(err_class(&e))]));
                fail(&mut verdict, format!("step {}: the incremental save does not load: {}", k, e));
                return verdict;
            }
            Ok(d) => {
                let mut want = prev_objects.clone();
                for (id, o) in &new_objects {
                    if !matches!(o.type_name(), Ok(b"ObjStm") | Ok(b"XRef") | Ok(b"Linearized")) {
                        want.insert(*id, o.clone());
                    }
                }
                if let Some(r) = diff_user(&d.objects, &want) {
                    fail(&mut verdict, format!("step {}: after reload {}", k, r));
                }
                out.push(Sx::tagged("reload", vec![sorted_dict_sx(&d.trailer), Sx::num(d.max_id), Sx::num(d.xref_start), objs_sx(&d.objects)]));
            }
        }
        bytes = next;
    }
    verdict
}

fn run_inc(a: &[Sx]) -> (Sx, String) {
    let mut doc = match a.first().and_then(doc_of_sx) {
        Some(d) => d,
        None => return (Sx::id("badcase"), "skip".into()),
    };
    let stream = a.get(1).map(|s| s.is_id("stream")).unwrap_or(false);
    doc.reference_table.cross_reference_type =
        if stream { XrefType::CrossReferenceStream } else { XrefType::CrossReferenceTable };
    let junk = a.get(2).and_then(|j| j.as_bytes()).unwrap_or_default();
    let mut base = junk.clone();
    if doc.save_to(&mut base).is_err() {
        return (Sx::tagged("inc", vec![Sx::id("basesaveerr")]), "skip".into());
    }
    let mut out = vec![Sx::bytes(&base[junk.len()..])];
    let steps = match a.get(3) {
        Some(s) => s,
        None => return (Sx::id("badcase"), "skip".into()),
    };
    let v = run_steps(base, steps, &mut out);
    (Sx::tagged("inc", out), v)
}

fn run_incraw(a: &[Sx]) -> (Sx, String) {
    let bytes = match a.get(1).and_then(|b| b.as_bytes()) {
        Some(b) => b,
        None => return (Sx::id("badcase"), "skip".into()),
    };
    let steps = match a.get(3) {
        Some(s) => s,
        None => return (Sx::id("badcase"), "skip".into()),
    };
    let mut out = vec![];
    let v = run_steps(bytes, steps, &mut out);
    (Sx::tagged("incraw", out), v)
}

fn main() {
    lvh::drive(|x| {
        let a = x.args();
        match x.tag() {
            Some("load") => run_load(a),
            Some("inc") => run_inc(a),
            Some("incraw") => run_incraw(a),
            _ => (Sx::id("badcase"), "skip".into()),
        }
    });
}
