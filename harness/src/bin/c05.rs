//! C05: encrypt then decrypt restores every string and stream.
//!
//! (enc <doc> <ver> (rnd ..) (ivs ..))      encrypt <doc> under <ver> with lopdf (own randomness; the
//!                                          rnd / ivs lists are for the model) -> (encdoc <doc'>) | (err C)
//! (case <doc> <ver> <encdoc> (pws xPW ..) (flags [alldiff] [noverdict] [noreenc]))
//!     result : (res (reenc 1) (dec r ..)),  r = decrypt(pw) on <encdoc>: (ok <doc''> xKEY) | (err C) | (panic)
//!     verdict: the property evaluated directly on the implementation, independently of <encdoc>:
//!       encrypt <doc> afresh; decrypting with the user and with the owner password -- in memory and after
//!       save_to + load_mem -- returns Ok, restores every string and stream of <doc>, removes /Encrypt and the
//!       encryption dictionary; every other password of <pws> is rejected with Err and leaves the document
//!       unchanged; with `alldiff`, no string (outside stream dictionaries) or stream of >= 16 bytes keeps its
//!       plaintext.
//!
//! Passwords.  The model's algorithms work on the password bytes AFTER preparation (PDFDocEncoding for revisions 2-4,
//! SASLprep + UTF-8 for 5-6); lopdf's API takes the Unicode text.  In a `case` line <ver> and `pws` hold the PREPARED
//! bytes; an optional sixth element (raw xOWNERTEXT xUSERTEXT (xTEXT ..)) holds the UTF-8 texts handed to lopdf (absent:
//! the same bytes, printable ASCII).  The harness re-prepares every text by the crate's own route
//! (PasswordAlgorithm::sanitize_password) and answers (badprep) where the line's prepared bytes are not what lopdf makes
//! of the text.  In an `enc` line given to this harness <ver> holds the texts.
//!   (prep 4|6 xTEXT ..) -> (prepared xBYTES|(err) ..)      the crate's preparation (generator aid, src/pwaid.rs)
use lopdf::encryption::crypt_filters::*;
use lopdf::{Document, EncryptionState, EncryptionVersion, Object, ObjectId, Permissions};
use lvh::conv::*;
use lvh::sx::Sx;
use std::collections::BTreeMap;
use std::panic::{catch_unwind, AssertUnwindSafe};
use std::sync::Arc;

#[path = "../pwaid.rs"]
mod pwaid;

struct Ver {
    tag: String,
    em: bool,
    cfs: BTreeMap<Vec<u8>, Arc<dyn CryptFilter>>,
    fek: Vec<u8>,
    stmf: Vec<u8>,
    strf: Vec<u8>,
    owner: Vec<u8>,
    user: Vec<u8>,
    /// the UTF-8 texts lopdf gets (owner / user above: the prepared bytes)
    owner_text: Vec<u8>,
    user_text: Vec<u8>,
    key_length: usize,
    perms: Permissions,
}

fn cfs_of_sx(x: &Sx) -> Option<BTreeMap<Vec<u8>, Arc<dyn CryptFilter>>> {
    let mut m: BTreeMap<Vec<u8>, Arc<dyn CryptFilter>> = BTreeMap::new();
    for e in x.args() {
        let l = e.as_list()?;
        let f: Arc<dyn CryptFilter> = match std::str::from_utf8(l.get(1)?.as_atom()?).ok()? {
            "id" => Arc::new(IdentityCryptFilter),
            "rc4" => Arc::new(Rc4CryptFilter),
            "aesv2" => Arc::new(Aes128CryptFilter),
            "aesv3" => Arc::new(Aes256CryptFilter),
            _ => return None,
        };
        m.insert(l.first()?.as_bytes()?, f);
    }
    Some(m)
}

fn ver_of_sx(x: &Sx) -> Option<Ver> {
    let tag = x.tag()?.to_string();
    let a = x.args();
    let perms = |s: &Sx| Some(Permissions::from_bits_truncate(s.as_u64()?));
    let mut v = Ver {
        tag: tag.clone(),
        em: true,
        cfs: BTreeMap::new(),
        fek: vec![],
        stmf: vec![],
        strf: vec![],
        owner: vec![],
        user: vec![],
        owner_text: vec![],
        user_text: vec![],
        key_length: 40,
        perms: Permissions::all(),
    };
    match (tag.as_str(), a.len()) {
        ("v1", 3) => {
            v.owner = a[0].as_bytes()?;
            v.user = a[1].as_bytes()?;
            v.perms = perms(&a[2])?;
        }
        ("v2", 4) => {
            v.owner = a[0].as_bytes()?;
            v.user = a[1].as_bytes()?;
            v.key_length = a[2].as_u64()? as usize;
            v.perms = perms(&a[3])?;
        }
        ("v4", 7) => {
            v.em = a[0].as_bool()?;
            v.cfs = cfs_of_sx(&a[1])?;
            v.stmf = a[2].as_bytes()?;
            v.strf = a[3].as_bytes()?;
            v.owner = a[4].as_bytes()?;
            v.user = a[5].as_bytes()?;
            v.perms = perms(&a[6])?;
        }
        ("r5", 8) | ("v5", 8) => {
            v.em = a[0].as_bool()?;
            v.cfs = cfs_of_sx(&a[1])?;
            v.fek = a[2].as_bytes()?;
            v.stmf = a[3].as_bytes()?;
            v.strf = a[4].as_bytes()?;
            v.owner = a[5].as_bytes()?;
            v.user = a[6].as_bytes()?;
            v.perms = perms(&a[7])?;
        }
        _ => return None,
    }
    v.owner_text = v.owner.clone();
    v.user_text = v.user.clone();
    Some(v)
}

fn err_class(e: &lopdf::Error) -> String {
    let s = match e {
        lopdf::Error::Decryption(d) => format!("{:?}", d),
        other => format!("{:?}", other),
    };
    s.chars().take_while(|c| c.is_ascii_alphanumeric() || *c == '_').collect()
}

fn sx_err(e: &lopdf::Error) -> Sx {
    Sx::tagged("err", vec![Sx::id(&err_class(e))])
}

#[allow(deprecated)]
fn make_state(v: &Ver, doc: &Document) -> Result<EncryptionState, lopdf::Error> {
    // the UTF-8 texts; lopdf prepares them itself
    let owner = String::from_utf8_lossy(&v.owner_text).to_string();
    let user = String::from_utf8_lossy(&v.user_text).to_string();
    let version = match v.tag.as_str() {
        "v1" => EncryptionVersion::V1 { document: doc, owner_password: &owner, user_password: &user, permissions: v.perms },
        "v2" => EncryptionVersion::V2 {
            document: doc,
            owner_password: &owner,
            user_password: &user,
            key_length: v.key_length,
            permissions: v.perms,
        },
        "v4" => EncryptionVersion::V4 {
            document: doc,
            encrypt_metadata: v.em,
            crypt_filters: v.cfs.clone(),
            stream_filter: v.stmf.clone(),
            string_filter: v.strf.clone(),
            owner_password: &owner,
            user_password: &user,
            permissions: v.perms,
        },
        "r5" => EncryptionVersion::R5 {
            encrypt_metadata: v.em,
            crypt_filters: v.cfs.clone(),
            file_encryption_key: &v.fek,
            stream_filter: v.stmf.clone(),
            string_filter: v.strf.clone(),
            owner_password: &owner,
            user_password: &user,
            permissions: v.perms,
        },
        _ => EncryptionVersion::V5 {
            encrypt_metadata: v.em,
            crypt_filters: v.cfs.clone(),
            file_encryption_key: &v.fek,
            stream_filter: v.stmf.clone(),
            string_filter: v.strf.clone(),
            owner_password: &owner,
            user_password: &user,
            permissions: v.perms,
        },
    };
    EncryptionState::try_from(version)
}

fn decrypt_with(d: &mut Document, pw: &[u8]) -> Result<(), lopdf::Error> {
    match std::str::from_utf8(pw) {
        Ok(s) => d.decrypt(s),
        Err(_) => d.decrypt_raw(pw),
    }
}

/// every string (path-indexed, strings inside stream dictionaries included) and every stream content
fn payload(o: &Object, path: &mut Vec<usize>, in_stream_dict: bool, out: &mut Vec<(Vec<usize>, bool, bool, Vec<u8>)>) {
    match o {
        Object::String(s, _) => out.push((path.clone(), false, in_stream_dict, s.clone())),
        Object::Array(a) => {
            for (i, x) in a.iter().enumerate() {
                path.push(i);
                payload(x, path, in_stream_dict, out);
                path.pop();
            }
        }
        Object::Dictionary(d) => {
            for (i, (_, x)) in d.iter().enumerate() {
                path.push(i);
                payload(x, path, in_stream_dict, out);
                path.pop();
            }
        }
        Object::Stream(s) => {
            out.push((path.clone(), true, false, s.content.clone()));
            for (i, (k, x)) in s.dict.iter().enumerate() {
                if k == b"Length" {
                    continue;
                }
                path.push(1000 + i);
                payload(x, path, true, out);
                path.pop();
            }
        }
        _ => {}
    }
}

fn payload_by_key(o: &Object) -> Vec<(Vec<u8>, Vec<u8>)> {
    // order-insensitive variant for the save/load comparison: (key path, bytes)
    fn go(o: &Object, path: &mut Vec<u8>, out: &mut Vec<(Vec<u8>, Vec<u8>)>) {
        match o {
            Object::String(s, _) => out.push((path.clone(), s.clone())),
            Object::Array(a) => {
                for (i, x) in a.iter().enumerate() {
                    let n = path.len();
                    path.extend_from_slice(format!("[{}]", i).as_bytes());
                    go(x, path, out);
                    path.truncate(n);
                }
            }
            Object::Dictionary(d) => {
                for (k, x) in d.iter() {
                    let n = path.len();
                    path.push(b'/');
                    path.extend_from_slice(k);
                    go(x, path, out);
                    path.truncate(n);
                }
            }
            Object::Stream(s) => {
                out.push((path.clone(), s.content.clone()));
                for (k, x) in s.dict.iter() {
                    if k == b"Length" {
                        continue;
                    }
                    let n = path.len();
                    path.extend_from_slice(b"/<sd>");
                    path.extend_from_slice(k);
                    go(x, path, out);
                    path.truncate(n);
                }
            }
            _ => {}
        }
    }
    let mut out = vec![];
    go(o, &mut vec![], &mut out);
    out.sort();
    out
}

/// every string / stream content of `orig` that `keep` also holds (same object, same path, same bytes) must be in `d`
fn restored(orig: &Document, d: &Document, what: &str, keep: &Document) -> Result<(), String> {
    if d.trailer.get(b"Encrypt").is_ok() {
        return Err(format!("{}: trailer still has /Encrypt", what));
    }
    for (id, o) in &orig.objects {
        let Some(k) = keep.objects.get(id) else { continue };
        let kept = payload_by_key(k);
        let want: Vec<_> = payload_by_key(o).into_iter().filter(|it| kept.contains(it)).collect();
        if want.is_empty() {
            continue;
        }
        let Some(o2) = d.objects.get(id) else {
            return Err(format!("{}: object {:?} disappeared", what, id));
        };
        let got = payload_by_key(o2);
        for it in &want {
            if !got.contains(it) {
                let other = got.iter().find(|g| g.0 == it.0).map(|g| hex(&g.1)).unwrap_or_else(|| "nothing".into());
                return Err(format!("{}: object {:?} at '{}': want x{} got x{}", what, id,
                                   String::from_utf8_lossy(&it.0), hex(&it.1), other));
            }
        }
        if std::ptr::eq(orig, keep) && got.len() != want.len() {
            return Err(format!("{}: object {:?} has {} strings/streams, the original {}", what, id, got.len(), want.len()));
        }
    }
    Ok(())
}

/// decrypt_raw ends with a pass over the streams of Type ObjStm (ObjectStream::new: decompress in place, parse the
/// members, add them under the numbers still free -- since repo 959d50f: free under every generation; the documents of
/// this harness have no Compressed cross-reference entries, so no member is "named").  The members the plain
/// document's object streams hold, first occurrence first -- computed on a copy of the PLAIN document, so that the
/// verdict can say which objects may appear.
fn objstm_members(doc0: &Document) -> Vec<(ObjectId, Object)> {
    let mut out: Vec<(ObjectId, Object)> = vec![];
    for (_, o) in &doc0.objects {
        let Ok(s) = o.as_stream() else { continue };
        if !s.dict.has_type(b"ObjStm") {
            continue;
        }
        let mut c = s.clone();
        if let Ok(os) = lopdf::ObjectStream::new(&mut c) {
            for (id, m) in os.objects {
                if !out.iter().any(|(i, _)| *i == id) {
                    out.push((id, m));
                }
            }
        }
    }
    out
}

/// a stream of Type ObjStm with a Filter entry: ObjectStream::new decompresses it in place (the model has no filter
/// model: such a case is answered "unmodelled" by both sides)
fn filtered_objstm(d: &Document) -> bool {
    d.objects.values().any(|o| o.as_stream().map(|s| s.dict.has_type(b"ObjStm") && s.dict.has(b"Filter")).unwrap_or(false))
}

/// `pws`: (prepared bytes, text)
fn direct_verdict(doc0: &Document, v: &Ver, pws: &[(Vec<u8>, Vec<u8>)], alldiff: bool) -> String {
    let st = match make_state(v, doc0) {
        Ok(s) => s,
        Err(e) => return format!("FAIL EncryptionState::try_from: {}", err_class(&e)),
    };
    let mut enc = doc0.clone();
    if let Err(e) = enc.encrypt(&st) {
        return format!("FAIL encrypt: {}", err_class(&e));
    }
    if alldiff {
        for (id, o) in &doc0.objects {
            let (mut a, mut b) = (vec![], vec![]);
            payload(o, &mut vec![], false, &mut a);
            payload(&enc.objects[id], &mut vec![], false, &mut b);
            for (x, y) in a.iter().zip(b.iter()) {
                if x.3.len() >= 16 && x.3 == y.3 {
                    return format!("FAIL {} of {} bytes in object {:?} keeps its plaintext after encryption",
                                   if x.1 { "stream" } else { "string" }, x.3.len(), id);
                }
                // the crypt filter this string / stream is subject to: StrF / StmF looked up in CF (a name that CF does not
                // define falls back to RC4, whose ciphertext has the length of the plaintext)
                let is_aes = v.cfs.get(if x.1 { &v.stmf } else { &v.strf }).map(|f| f.method().starts_with(b"AES")).unwrap_or(false);
                if !x.2 && is_aes && v.tag != "v1" && v.tag != "v2" && x.3.len() == y.3.len() {
                    return format!("FAIL AES ciphertext as long as its plaintext in object {:?}", id);
                }
            }
        }
    }
    let baseline: Option<Document> = {
        let mut bytes = vec![];
        let mut p = doc0.clone();
        match p.save_to(&mut bytes) {
            Ok(()) => Document::load_mem(&bytes).ok(),
            Err(_) => None,
        }
    };
    let trunc = |p: &[u8]| -> Vec<u8> {
        let n = if v.tag == "r5" || v.tag == "v5" { 127 } else { 32 };
        p[..p.len().min(n)].to_vec()
    };
    for (who, pw, prepared) in [("user", &v.user_text, &v.user), ("owner", &v.owner_text, &v.owner)] {
        // revisions 2-4: an empty owner password means that the document has no owner password (the O entry
        // is then computed from the user password, ISO 32000 Algorithm 3 step a); nothing to open with
        if who == "owner" && prepared.is_empty() && !v.user.is_empty() && matches!(v.tag.as_str(), "v1" | "v2" | "v4") {
            continue;
        }
        // in memory
        let mut d = enc.clone();
        match decrypt_with(&mut d, pw) {
            Err(e) => return format!("FAIL decrypt with the {} password: {}", who, err_class(&e)),
            Ok(()) => {}
        }
        if let Err(m) = restored(doc0, &d, &format!("in memory, {} password", who), doc0) {
            return format!("FAIL {}", m);
        }
        // besides the objects of the plain document only members of its object streams may be there, each under a
        // number that was free under every generation (the number of the encryption dictionary is not: add_object
        // took it), with the value the object stream gives it; every such member must be there
        let enc_id = enc.trailer.get(b"Encrypt").and_then(Object::as_reference).ok();
        let mut expect = doc0.objects.len();
        for (id, m) in objstm_members(doc0) {
            if doc0.objects.keys().any(|k| k.0 == id.0) || enc_id.map(|e| e.0) == Some(id.0) {
                continue;
            }
            expect += 1;
            match d.objects.get(&id) {
                Some(o) if obj_to_sx(o).print() == obj_to_sx(&m).print() => {}
                Some(_) => return format!("FAIL in memory, {} password: object stream member {:?} differs", who, id),
                None => return format!("FAIL in memory, {} password: object stream member {:?} not added", who, id),
            }
        }
        if d.objects.len() != expect {
            return format!("FAIL in memory, {} password: {} objects, expected {} (encryption dictionary object not removed?)",
                           who, d.objects.len(), expect);
        }
        // after save + load
        let mut bytes = vec![];
        let mut e2 = enc.clone();
        if e2.save_to(&mut bytes).is_err() {
            return "FAIL save_to of the encrypted document failed".into();
        }
        let mut d = match Document::load_mem(&bytes) {
            Ok(d) => d,
            Err(e) => return format!("FAIL load_mem of the saved encrypted document: {}", err_class(&e)),
        };
        if d.is_encrypted() {
            if let Err(e) = decrypt_with(&mut d, pw) {
                return format!("FAIL after save/load, decrypt with the {} password: {}", who, err_class(&e));
            }
        }
        // what a save + load of the PLAIN document preserves is property C01's business: compare with that
        if let Some(base) = &baseline {
            if let Err(m) = restored(doc0, &d, &format!("after save/load, {} password", who), base) {
                return format!("FAIL {}", m);
            }
        }
    }
    for (prepared, pw) in pws {
        if trunc(prepared) == trunc(&v.user) || trunc(prepared) == trunc(&v.owner) {
            continue;
        }
        let mut d = enc.clone();
        let before = doc_to_sx(&d).print();
        match decrypt_with(&mut d, pw) {
            Ok(()) => return format!("FAIL wrong password x{} accepted", hex(pw)),
            Err(_) => {
                if doc_to_sx(&d).print() != before {
                    return format!("FAIL wrong password x{} rejected but the document changed", hex(pw));
                }
            }
        }
    }
    "ok".into()
}

fn hex(b: &[u8]) -> String {
    b.iter().map(|c| format!("{:02x}", c)).collect()
}

fn main() {
    lvh::drive(|x| {
        let a = x.args();
        let bad = (Sx::id("badcase"), "skip".to_string());
        let Some(tag) = x.tag() else { return bad };
        if tag == "prep" && !a.is_empty() {
            let r6 = a[0].as_u64().map(|r| r >= 5).unwrap_or(false);
            let alg = catch_unwind(|| pwaid::prep_algorithm(r6)).ok().flatten();
            let out = a[1..].iter().map(|t| {
                let p = match (&alg, t.as_bytes()) {
                    (Some(alg), Some(raw)) => catch_unwind(AssertUnwindSafe(|| pwaid::prepare(alg, &raw))).ok().flatten(),
                    _ => None,
                };
                p.map(|b| Sx::bytes(&b)).unwrap_or_else(|| Sx::L(vec![Sx::id("err")]))
            }).collect();
            return (Sx::tagged("prepared", out), "skip".into());
        }
        if a.len() < 4 {
            return bad;
        }
        let (Some(doc0), Some(mut v)) = (doc_of_sx(&a[0]), ver_of_sx(&a[1])) else { return bad };
        if tag == "enc" {
            // unsupported parameters (V2 with a key length below 8 bits) make Rc4::new assert: reported as (panic)
            let r = catch_unwind(AssertUnwindSafe(|| {
                let st = make_state(&v, &doc0)?;
                let mut d = doc0.clone();
                d.encrypt(&st).map(|_| d)
            }));
            return match r {
                Err(_) => (Sx::L(vec![Sx::id("panic")]), "skip".into()),
                Ok(Ok(d)) => (Sx::tagged("encdoc", vec![doc_to_sx(&d)]), "skip".into()),
                Ok(Err(e)) => (sx_err(&e), "skip".into()),
            };
        }
        if tag != "case" {
            return bad;
        }
        let Some(encd) = doc_of_sx(&a[2]) else { return bad };
        let prepared: Vec<Vec<u8>> = a[3].args().iter().filter_map(|p| p.as_bytes()).collect();
        // (raw xOWNERTEXT xUSERTEXT (xTEXT ..)): the texts lopdf gets; every one must prepare to the line's bytes
        let mut texts = prepared.clone();
        let alg = catch_unwind(|| pwaid::prep_algorithm(v.tag == "r5" || v.tag == "v5")).ok().flatten();
        let prep_ok = |text: &[u8], want: &[u8]| -> bool {
            alg.as_ref().and_then(|alg| catch_unwind(AssertUnwindSafe(|| pwaid::prepare(alg, text))).ok().flatten()).as_deref() == Some(want)
        };
        if let Some(raw) = a.get(5).filter(|y| y.tag() == Some("raw")) {
            let r = raw.args();
            let (Some(ot), Some(ut)) = (r.first().and_then(|t| t.as_bytes()), r.get(1).and_then(|t| t.as_bytes())) else { return bad };
            let ts: Vec<Vec<u8>> = r.get(2).map(|l| l.as_list().unwrap_or(&[]).iter().filter_map(|t| t.as_bytes()).collect()).unwrap_or_default();
            if ts.len() != prepared.len() {
                return bad;
            }
            if !prep_ok(&ot, &v.owner) || !prep_ok(&ut, &v.user) {
                return (Sx::L(vec![Sx::id("badprep")]), "skip".into());
            }
            v.owner_text = ot;
            v.user_text = ut;
            texts = ts;
        }
        let pws: Vec<(Vec<u8>, Vec<u8>)> = prepared.into_iter().zip(texts).collect();
        let flag = |name: &str| a.get(4).map(|f| f.args().iter().any(|y| y.is_id(name)) || f.tag() == Some(name)).unwrap_or(false);
        let alldiff = flag("alldiff");
        let mut dec = vec![];
        let unmodelled = filtered_objstm(&encd);
        for (prepared, pw) in &pws {
            if !prep_ok(pw, prepared) {
                dec.push(Sx::L(vec![Sx::id("badprep")]));
                continue;
            }
            let mut d = encd.clone();
            let r = catch_unwind(AssertUnwindSafe(|| decrypt_with(&mut d, pw)));
            dec.push(match r {
                Err(_) => Sx::L(vec![Sx::id("panic")]),
                Ok(Err(e)) => sx_err(&e),
                Ok(Ok(())) if unmodelled => Sx::L(vec![Sx::id("unmodelled")]),
                Ok(Ok(())) => {
                    let key = d.encryption_state.as_ref().map(|s| s.file_encryption_key().to_vec()).unwrap_or_default();
                    Sx::tagged("ok", vec![doc_to_sx(&d), Sx::bytes(&key)])
                }
            });
        }
        let res = Sx::tagged(
            "res",
            vec![
                Sx::tagged("reenc", vec![if flag("noreenc") { Sx::id("skipped") } else { Sx::boolean(true) }]),
                Sx::tagged("dec", dec),
            ],
        );
        let verdict = if flag("noverdict") {
            "skip".to_string()
        } else {
            direct_verdict(&doc0, &v, &pws, alldiff)
        };
        (res, verdict)
    });
}

#[allow(dead_code)]
fn _unused(_: ObjectId) {}
