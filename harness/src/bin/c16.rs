//! C16: text strings, one-byte encodings, text extraction.  Same case kinds as coq/Run/RunC16.v:
//!   (ts (u ..)) (dts <obj>) (u8 (u ..)) (u16 (u ..)) (table <fontdict>) (font <fontdict> xBYTES (u ..))
//!   (rt <fontdict> (u ..)) (rtall <fontdict>)
//!   (extract (pages (page (fonts (xNAME <dict>)..) (ops (xOPERATOR <obj>..)..))..) (nums n..) [(expect (u ..))])
//! Only lopdf's public API is used.  The verdict is the direct evaluation of the property on the
//! implementation (round trips, "decoding never fails", re-encoding stability, shown text is
//! returned, the same after save_to + load_mem).
use lopdf::content::{Content, Operation};
use lopdf::{Dictionary, Document, Encoding, Error, Object, Stream, StringFormat};
use lvh::conv::*;
use lvh::sx::Sx;

fn ustr(s: &str) -> Sx {
    Sx::tagged("u", s.chars().map(|c| Sx::num(c as u32)).collect())
}

fn string_of_sx(x: &Sx) -> Option<String> {
    if x.tag()? != "u" {
        return None;
    }
    let mut s = String::new();
    for a in x.args() {
        s.push(char::from_u32(u32::try_from(a.as_u64()?).ok()?)?);
    }
    Some(s)
}

fn err_class(e: &Error) -> String {
    match e {
        Error::ObjectType { .. } => "ObjectType".into(),
        Error::DictType { .. } => "DictType".into(),
        Error::DictKey(_) => "DictKey".into(),
        Error::TextStringDecode => "TextStringDecode".into(),
        Error::CharacterEncoding => "CharacterEncoding".into(),
        Error::Syntax(_) => "Syntax".into(),
        Error::PageNumberNotFound(_) => "PageNumberNotFound".into(),
        other => format!("Other:{}", format!("{:?}", other).split(|c: char| !c.is_alphanumeric()).next().unwrap_or("?")),
    }
}

fn res_sx<T>(r: &Result<T, Error>, f: impl Fn(&T) -> Sx) -> Sx {
    match r {
        Ok(v) => Sx::tagged("ok", vec![f(v)]),
        Err(e) => Sx::tagged("err", vec![Sx::id(&err_class(e))]),
    }
}

fn enc_sx(e: &Result<Encoding, Error>) -> Sx {
    match e {
        Ok(Encoding::OneByteEncoding(_)) => Sx::tagged("onebyte", vec![]),
        Ok(Encoding::SimpleEncoding(n)) => Sx::tagged("simple", vec![Sx::bytes(n)]),
        Ok(Encoding::UnicodeMapEncoding(_)) => Sx::tagged("cmap", vec![]),
        Err(e) => Sx::tagged("err", vec![Sx::id(&err_class(e))]),
    }
}

fn bad() -> (Sx, String) {
    (Sx::id("badcase"), "skip".into())
}

/// The document the extraction cases describe: one Pages node, one Page per (page ..) with its own
/// Resources dictionary (fonts alternately direct dictionaries and references) and one content
/// stream holding Content::encode of the operations.
fn build_doc(pages: &[Sx]) -> Option<Document> {
    let mut doc = Document::with_version("1.5");
    let pages_id = doc.new_object_id();
    let mut kids = vec![];
    for p in pages {
        if p.tag()? != "page" {
            return None;
        }
        let a = p.args();
        let fonts = a.first()?.args();
        let ops = a.get(1)?.args();
        let mut font_dict = Dictionary::new();
        for (k, f) in fonts.iter().enumerate() {
            let kv = f.as_list()?;
            let name = kv.first()?.as_bytes()?;
            let d = dict_of_entries(kv.get(1)?.args())?;
            if k % 2 == 0 {
                let id = doc.add_object(Object::Dictionary(d));
                font_dict.set(name, Object::Reference(id));
            } else {
                font_dict.set(name, Object::Dictionary(d));
            }
        }
        let mut operations = vec![];
        for o in ops {
            let l = o.as_list()?;
            let operator = String::from_utf8(l.first()?.as_bytes()?).ok()?;
            let operands = l[1..].iter().map(obj_of_sx).collect::<Option<Vec<_>>>()?;
            operations.push(Operation::new(&operator, operands));
        }
        let content = Content { operations }.encode().ok()?;
        let content_id = doc.add_object(Stream::new(Dictionary::new(), content));
        let mut resources = Dictionary::new();
        resources.set("Font", Object::Dictionary(font_dict));
        let mut page = Dictionary::new();
        page.set("Type", Object::Name(b"Page".to_vec()));
        page.set("Parent", Object::Reference(pages_id));
        page.set("Contents", Object::Reference(content_id));
        page.set("Resources", Object::Dictionary(resources));
        page.set(
            "MediaBox",
            Object::Array(vec![0.into(), 0.into(), 612.into(), 792.into()]),
        );
        kids.push(Object::Reference(doc.add_object(Object::Dictionary(page))));
    }
    let mut pages_dict = Dictionary::new();
    pages_dict.set("Type", Object::Name(b"Pages".to_vec()));
    pages_dict.set("Count", Object::Integer(kids.len() as i64));
    pages_dict.set("Kids", Object::Array(kids));
    doc.objects.insert(pages_id, Object::Dictionary(pages_dict));
    let mut catalog = Dictionary::new();
    catalog.set("Type", Object::Name(b"Catalog".to_vec()));
    catalog.set("Pages", Object::Reference(pages_id));
    let cat_id = doc.add_object(Object::Dictionary(catalog));
    doc.trailer.set("Root", Object::Reference(cat_id));
    Some(doc)
}

fn chunks_sx(cs: &[Result<String, Error>]) -> Sx {
    Sx::tagged("ok", vec![Sx::L(cs.iter().map(|c| res_sx(c, |s| ustr(s))).collect())])
}

fn main() {
    lvh::drive(|x| {
        let tag = match x.tag() {
            Some(t) => t.to_string(),
            None => return bad(),
        };
        let a = x.args();
        match tag.as_str() {
            "ts" => {
                let s = match a.first().and_then(string_of_sx) {
                    Some(s) => s,
                    None => return bad(),
                };
                let o = lopdf::text_string(&s);
                let d = lopdf::decode_text_string(&o);
                let mut verdict = "ok".to_string();
                match &d {
                    Ok(t) if *t == s => {}
                    Ok(t) => verdict = format!("FAIL text_string({:?}) decodes to {:?}", s, t),
                    Err(e) => verdict = format!("FAIL text_string({:?}) does not decode: {}", s, err_class(e)),
                }
                if let Object::String(bytes, fmt) = &o {
                    if s.bytes().all(|b| (0x20..=0x7e).contains(&b)) {
                        if bytes.as_slice() != s.as_bytes() || *fmt != StringFormat::Literal {
                            verdict = "FAIL printable ASCII is not kept as a PDFDocEncoding literal".into();
                        }
                    } else if !s.is_ascii() {
                        let mut want = vec![0xfe, 0xff];
                        for u in s.encode_utf16() {
                            want.extend_from_slice(&u.to_be_bytes());
                        }
                        if *bytes != want {
                            verdict = "FAIL non-ASCII text is not UTF-16BE with a byte-order mark".into();
                        }
                    }
                } else {
                    verdict = "FAIL text_string did not return a string object".into();
                }
                (Sx::tagged("ts", vec![obj_to_sx(&o), res_sx(&d, |t| ustr(t))]), verdict)
            }
            "dts" => {
                let o = match a.first().and_then(obj_of_sx) {
                    Some(o) => o,
                    None => return bad(),
                };
                let d = lopdf::decode_text_string(&o);
                let mut verdict = "ok".to_string();
                if let Object::String(b, _) = &o {
                    // marked, well-formed input must decode to the marked text (std decoders as oracle)
                    if b.starts_with(&[0xfe, 0xff]) && b.len() % 2 == 0 {
                        let units: Vec<u16> = b[2..].chunks(2).map(|c| u16::from_be_bytes([c[0], c[1]])).collect();
                        if let Ok(want) = String::from_utf16(&units) {
                            if d.as_ref().ok() != Some(&want) {
                                verdict = "FAIL well-formed UTF-16BE text string does not decode to its text".into();
                            }
                        }
                    } else if b.starts_with(&[0xef, 0xbb, 0xbf]) {
                        if let Ok(want) = std::str::from_utf8(&b[3..]) {
                            if d.as_ref().ok().map(|s| s.as_str()) != Some(want) {
                                verdict = "FAIL well-formed marked UTF-8 text string does not decode to its text".into();
                            }
                        }
                    }
                }
                (Sx::tagged("dts", vec![res_sx(&d, |t| ustr(t))]), verdict)
            }
            "u8" | "u16" => {
                let s = match a.first().and_then(string_of_sx) {
                    Some(s) => s,
                    None => return bad(),
                };
                let (b, fmt) = if tag == "u8" {
                    (lopdf::encode_utf8(&s), StringFormat::Literal)
                } else {
                    (lopdf::encode_utf16_be(&s), StringFormat::Hexadecimal)
                };
                let d = lopdf::decode_text_string(&Object::String(b.clone(), fmt));
                let verdict = match &d {
                    Ok(t) if *t == s => "ok".to_string(),
                    Ok(t) => format!("FAIL encode_{}({:?}) decodes to {:?}", if tag == "u8" { "utf8" } else { "utf16_be" }, s, t),
                    Err(e) => format!("FAIL encoded text does not decode: {}", err_class(e)),
                };
                (Sx::tagged(&tag, vec![Sx::bytes(&b), res_sx(&d, |t| ustr(t))]), verdict)
            }
            "table" => {
                let d = match a.first().and_then(|d| dict_of_entries(d.args())) {
                    Some(d) => d,
                    None => return bad(),
                };
                let doc = Document::new();
                let e = d.get_font_encoding(&doc);
                match &e {
                    Ok(Encoding::OneByteEncoding(t)) => {
                        let mut verdict = "ok".to_string();
                        for (i, c) in t.iter().enumerate() {
                            if let Some(u) = c {
                                if (0xd800..=0xdfff).contains(u) {
                                    verdict = format!("FAIL cell {} is the surrogate {:#x}", i, u);
                                }
                            }
                        }
                        (
                            Sx::tagged(
                                "table",
                                t.iter().map(|c| match c { Some(u) => Sx::num(u), None => Sx::id("-") }).collect(),
                            ),
                            verdict,
                        )
                    }
                    _ => (enc_sx(&e), "ok".into()),
                }
            }
            "font" => {
                let d = a.first().and_then(|d| dict_of_entries(d.args()));
                let b = a.get(1).and_then(|b| b.as_bytes());
                let s = a.get(2).and_then(string_of_sx);
                let (d, b, s) = match (d, b, s) {
                    (Some(d), Some(b), Some(s)) => (d, b, s),
                    _ => return bad(),
                };
                let doc = Document::new();
                let e = d.get_font_encoding(&doc);
                let enc = match &e {
                    Ok(enc) => enc,
                    Err(_) => return (Sx::tagged("font", vec![enc_sx(&e)]), "ok".into()),
                };
                let onebyte = matches!(enc, Encoding::OneByteEncoding(_));
                let dec = Document::decode_text(enc, &b);
                let re: Result<Vec<u8>, Error> = match &dec {
                    Ok(t) => Ok(Document::encode_text(enc, t)),
                    Err(e0) => Err(clone_err(e0)),
                };
                let dec2 = match &re {
                    Ok(bytes) => Document::decode_text(enc, bytes),
                    Err(e0) => Err(clone_err(e0)),
                };
                let enc_s = Document::encode_text(enc, &s);
                let mut verdict = "ok".to_string();
                if onebyte {
                    match (&dec, &dec2) {
                        (Ok(t1), Ok(t2)) if t1 == t2 => {}
                        (Ok(t1), Ok(t2)) => verdict = format!("FAIL re-encoded text decodes to {:?}, not {:?}", t2, t1),
                        _ => verdict = "FAIL decoding with a one-byte encoding failed".into(),
                    }
                }
                (
                    Sx::tagged(
                        "font",
                        vec![
                            enc_sx(&e),
                            res_sx(&dec, |t| ustr(t)),
                            res_sx(&re, |v| Sx::bytes(v)),
                            res_sx(&dec2, |t| ustr(t)),
                            Sx::tagged("ok", vec![Sx::bytes(&enc_s)]),
                        ],
                    ),
                    verdict,
                )
            }
            "rt" => {
                // encode_text then decode_text: text over the table's repertoire comes back unchanged, characters the
                // table does not hold are dropped and nothing else happens to the rest
                let d = a.first().and_then(|d| dict_of_entries(d.args()));
                let s = a.get(1).and_then(string_of_sx);
                let (d, s) = match (d, s) {
                    (Some(d), Some(s)) => (d, s),
                    _ => return bad(),
                };
                let doc = Document::new();
                let e = d.get_font_encoding(&doc);
                let enc = match &e {
                    Ok(enc) => enc,
                    Err(_) => return (Sx::tagged("rt", vec![enc_sx(&e)]), "ok".into()),
                };
                let en = Document::encode_text(enc, &s);
                let de = Document::decode_text(enc, &en);
                let mut verdict = "ok".to_string();
                if let Encoding::OneByteEncoding(t) = enc {
                    let want: String = s
                        .chars()
                        .filter(|c| (*c as u32) < 0x10000 && t.iter().any(|cell| *cell == Some(*c as u32 as u16)))
                        .collect();
                    let in_rep = want == s;
                    match &de {
                        Ok(got) if *got == want => {}
                        Ok(got) if in_rep => verdict = format!("FAIL text {:?} over the repertoire is encoded as {:02x?} and decodes to {:?}", s, en, got),
                        Ok(got) => verdict = format!("FAIL {:?} is encoded as {:02x?} and decodes to {:?}, expected {:?}", s, en, got, want),
                        Err(e) => verdict = format!("FAIL decoding encoded text failed: {}", err_class(e)),
                    }
                    if en.len() != want.chars().count() {
                        verdict = format!("FAIL {:?} is encoded in {} bytes for {} characters of the repertoire", s, en.len(), want.chars().count());
                    }
                }
                (
                    Sx::tagged("rt", vec![enc_sx(&e), Sx::tagged("ok", vec![Sx::bytes(&en)]), res_sx(&de, |t| ustr(t))]),
                    verdict,
                )
            }
            "rtall" => {
                let d = match a.first().and_then(|d| dict_of_entries(d.args())) {
                    Some(d) => d,
                    None => return bad(),
                };
                let doc = Document::new();
                let e = d.get_font_encoding(&doc);
                match &e {
                    Ok(enc @ Encoding::OneByteEncoding(t)) => {
                        // every defined cell, in code order (no cell is a surrogate: checked by the table case)
                        let units: Vec<u16> = t.iter().filter_map(|c| *c).collect();
                        let s = String::from_utf16_lossy(&units);
                        let en = Document::encode_text(enc, &s);
                        let de = Document::decode_text(enc, &en);
                        let mut verdict = "ok".to_string();
                        if de.as_ref().ok() != Some(&s) {
                            verdict = "FAIL the repertoire of the table does not survive encode_text + decode_text".into();
                        }
                        // character by character: the code chosen for a character decodes to that character
                        for c in s.chars() {
                            let one = c.to_string();
                            let b = Document::encode_text(enc, &one);
                            let back = Document::decode_text(enc, &b);
                            if b.len() != 1 || back.as_ref().ok() != Some(&one) {
                                verdict = format!("FAIL {:?} is encoded as {:02x?} which decodes to {:?}", one, b, back.as_ref().map_err(err_class));
                            }
                        }
                        (
                            Sx::tagged("rtall", vec![enc_sx(&e), ustr(&s), Sx::bytes(&en), res_sx(&de, |t| ustr(t))]),
                            verdict,
                        )
                    }
                    _ => (Sx::tagged("rtall", vec![enc_sx(&e)]), "ok".into()),
                }
            }
            "extract" => {
                let pages = match a.first() {
                    Some(p) if p.tag() == Some("pages") => p.args(),
                    _ => return bad(),
                };
                let nums: Vec<u32> = match a.get(1) {
                    Some(n) if n.tag() == Some("nums") => match n.args().iter().map(|v| v.as_u64().and_then(|v| u32::try_from(v).ok())).collect() {
                        Some(v) => v,
                        None => return bad(),
                    },
                    _ => return bad(),
                };
                let expect = a.get(2).filter(|e| e.tag() == Some("expect")).and_then(|e| e.args().first()).and_then(string_of_sx);
                let mut doc = match build_doc(pages) {
                    Some(d) => d,
                    None => return bad(),
                };
                let chunks = doc.extract_text_chunks(&nums);
                let text = doc.extract_text(&nums);
                let res = Sx::tagged("extract", vec![chunks_sx(&chunks), res_sx(&text, |t| ustr(t))]);
                let mut verdict = "ok".to_string();
                if let Some(want) = &expect {
                    if text.as_ref().ok() != Some(want) {
                        verdict = format!("FAIL shown text {:?} is extracted as {:?}", want, text.as_ref().map_err(err_class));
                    }
                }
                // the same after save_to + load_mem: as saved, and with the streams compressed before saving.
                // When the case carries the expected text, the reloaded document is held against it directly.
                for compressed in [false, true] {
                    let how = if compressed { "compress + save and reload" } else { "save and reload" };
                    if compressed {
                        doc.compress();
                    }
                    let mut buf = Vec::new();
                    match doc.save_to(&mut buf) {
                        Err(e) => verdict = format!("FAIL save_to failed: {}", e),
                        Ok(()) => match Document::load_mem(&buf) {
                            Err(e) => verdict = format!("FAIL load_mem of the saved document failed: {}", err_class(&e)),
                            Ok(doc2) => {
                                let text2 = doc2.extract_text(&nums);
                                let chunks2 = doc2.extract_text_chunks(&nums);
                                if let Some(want) = &expect {
                                    if text2.as_ref().ok() != Some(want) {
                                        verdict = format!(
                                            "FAIL after {} shown text {:?} is extracted as {:?}",
                                            how,
                                            want,
                                            text2.as_ref().map_err(err_class)
                                        );
                                    }
                                }
                                let same = res_sx(&text, |t| ustr(t)) == res_sx(&text2, |t| ustr(t)) && chunks_sx(&chunks) == chunks_sx(&chunks2);
                                if !same && verdict == "ok" {
                                    verdict = format!(
                                        "FAIL extraction differs after {}: {:?} vs {:?}",
                                        how,
                                        text.as_ref().map_err(err_class),
                                        text2.as_ref().map_err(err_class)
                                    );
                                }
                            }
                        },
                    }
                }
                (res, verdict)
            }
            _ => bad(),
        }
    });
}

/// lopdf::Error is not Clone; only the class is observed, so rebuild an error of the same class.
fn clone_err(e: &Error) -> Error {
    match e {
        Error::CharacterEncoding => Error::CharacterEncoding,
        Error::TextStringDecode => Error::TextStringDecode,
        Error::ObjectType { expected, found } => Error::ObjectType { expected, found },
        Error::DictKey(k) => Error::DictKey(k.clone()),
        Error::Syntax(s) => Error::Syntax(s.clone()),
        Error::PageNumberNotFound(n) => Error::PageNumberNotFound(*n),
        _ => Error::Unimplemented("other"),
    }
}
