//! C03: saved files are valid PDF for a strict third-party reader.
//!
//! The harness only PRODUCES files with the real crate; the strict reference reader is the Coq
//! specification coq/Spec/StrictReader.v, extracted, and run on these very bytes by props/c03.py.
//!
//!  (plain <fmt> <doc> (sops <sop>...))                       fmt ::= table | stream
//!  (inc   <fmt> <doc> (sops <sop>...) (rev <edit>...) ...)   plain save, then one incremental
//!                                                            update per (rev ...): load the bytes
//!                                                            produced so far as IncrementalDocument,
//!                                                            edit new_document, save_to
//!  <sop>  ::= ((id gen) <op>...)       stream operations through the public API
//!  <op>   ::= new | compress | decompress | (setc xHEX) | (setp xHEX)
//!  <edit> ::= (set (id gen) <obj>) | (add <obj>) | (clone (id gen)) | (sop (id gen) <op>...)
//!
//! Output: (saved (rev xFILE <document before the save> <trailer after the save> (sinks <sink>...)) ...)
//! one (rev ..) per produced file, each file being the complete output of its save; or (save-error k <class>).
//! Every save is REPEATED, on a clone of the document as it was before the save, into sinks that accept fewer
//! bytes than offered (`io::Write::write` returning a short count, or `Interrupted`): 7 bytes per call, 1 byte
//! per call, Interrupted on every 4th call, a pipe-like sink (a 64-byte buffer that accepts what is free and is
//! drained when full), ragged (pseudo-random short counts mixed with Interrupted).  A healthy sink of any of
//! these kinds must receive exactly the bytes a Vec receives:
//!  <sink> ::= (same NAME)                the bytes delivered are identical to xFILE
//!           | (sinkdiff NAME xBYTES)     they differ: props/c03.py runs the strict reader on THESE bytes too
//!           | (sinkerr NAME <class>)     save_to answered an error although the sink never fails
//! Verdict here is only `ok` / `skip`; the property verdict is computed from the strict reader.
use lopdf::xref::XrefType;
use lopdf::{Document, IncrementalDocument, Object, ObjectId, Stream};
use lvh::conv::*;
use lvh::sx::Sx;
use std::io::{self, Write};

// ---------- sinks that accept fewer bytes than offered (never fail for good) ----------
#[derive(Clone, Copy)]
enum SinkKind {
    Chunk(usize),
    Interrupt4,
    Pipe(usize),
    Ragged,
}

struct ShortSink {
    kind: SinkKind,
    out: Vec<u8>,
    calls: usize,
    fill: usize,
    state: u32,
}

impl ShortSink {
    fn new(kind: SinkKind) -> ShortSink {
        ShortSink { kind, out: Vec::new(), calls: 0, fill: 0, state: 0x2545_f491 }
    }
    fn take(&mut self, buf: &[u8], n: usize) -> io::Result<usize> {
        let n = n.min(buf.len());
        self.out.extend_from_slice(&buf[..n]);
        Ok(n)
    }
}

impl Write for ShortSink {
    // only `write` and `flush`: write_all / write_fmt are the std defaults, as for a caller's own sink
    fn write(&mut self, buf: &[u8]) -> io::Result<usize> {
        self.calls += 1;
        if buf.is_empty() {
            return Ok(0);
        }
        match self.kind {
            SinkKind::Chunk(k) => self.take(buf, k),
            SinkKind::Interrupt4 => {
                if self.calls % 4 == 0 {
                    Err(io::Error::new(io::ErrorKind::Interrupted, "interrupted"))
                } else {
                    self.take(buf, buf.len())
                }
            }
            SinkKind::Pipe(cap) => {
                // a pipe whose reader empties the buffer whenever it is full: accepts what is free
                if self.fill == cap {
                    self.fill = 0;
                }
                let n = buf.len().min(cap - self.fill);
                self.fill += n;
                self.take(buf, n)
            }
            SinkKind::Ragged => {
                self.state = self.state.wrapping_mul(1664525).wrapping_add(1013904223);
                let r = (self.state >> 16) as usize;
                if r % 5 == 0 {
                    Err(io::Error::new(io::ErrorKind::Interrupted, "interrupted"))
                } else {
                    self.take(buf, 1 + r % 23)
                }
            }
        }
    }
    fn flush(&mut self) -> io::Result<()> {
        Ok(())
    }
}

const SINKS: [(&str, SinkKind); 5] = [
    ("chunk7", SinkKind::Chunk(7)),
    ("chunk1", SinkKind::Chunk(1)),
    ("interrupt4", SinkKind::Interrupt4),
    ("pipe64", SinkKind::Pipe(64)),
    ("ragged", SinkKind::Ragged),
];

/// the same save (`save` gets a fresh clone of the document each time) into every short sink, against the Vec output
fn sinks_sx<F: FnMut(&mut ShortSink) -> io::Result<()>>(vec_out: &[u8], mut save: F) -> Sx {
    let mut parts = vec![];
    for (name, kind) in SINKS {
        let mut sink = ShortSink::new(kind);
        parts.push(match save(&mut sink) {
            Err(e) => Sx::tagged("sinkerr", vec![Sx::id(name), Sx::id(&format!("{:?}", e.kind()))]),
            Ok(()) if sink.out == vec_out => Sx::tagged("same", vec![Sx::id(name)]),
            Ok(()) => Sx::tagged("sinkdiff", vec![Sx::id(name), Sx::bytes(&sink.out)]),
        });
    }
    Sx::tagged("sinks", parts)
}

fn stream_op(o: &mut Object, op: &Sx) -> Option<()> {
    let s = match o {
        Object::Stream(s) => s,
        _ => return None,
    };
    if op.is_id("new") {
        let dict = s.dict.clone();
        let content = s.content.clone();
        *s = Stream::new(dict, content);
    } else if op.is_id("compress") {
        let _ = s.compress();
    } else if op.is_id("decompress") {
        let _ = s.decompress();
    } else if op.tag() == Some("setc") {
        s.set_content(op.args().first()?.as_bytes()?);
    } else if op.tag() == Some("setp") {
        s.set_plain_content(op.args().first()?.as_bytes()?);
    } else {
        return None;
    }
    Some(())
}

fn apply_sops(doc: &mut Document, sops: &Sx) -> Option<()> {
    for sop in sops.args() {
        let l = sop.as_list()?;
        let id: ObjectId = oid_of_sx(l.first()?)?;
        if let Some(o) = doc.objects.get_mut(&id) {
            for op in &l[1..] {
                stream_op(o, op)?;
            }
        }
    }
    Some(())
}

fn apply_edit(inc: &mut IncrementalDocument, e: &Sx) -> Option<()> {
    let a = e.args();
    match e.tag()? {
        "set" => {
            let id = oid_of_sx(a.first()?)?;
            inc.new_document.set_object(id, obj_of_sx(a.get(1)?)?);
        }
        "add" => {
            inc.new_document.add_object(obj_of_sx(a.first()?)?);
        }
        "clone" => {
            let id = oid_of_sx(a.first()?)?;
            let _ = inc.opt_clone_object_to_new_document(id);
        }
        "sop" => {
            let id = oid_of_sx(a.first()?)?;
            if let Some(o) = inc.new_document.objects.get_mut(&id) {
                for op in &a[1..] {
                    stream_op(o, op)?;
                }
            }
        }
        _ => return None,
    }
    Some(())
}

fn rev_sx(file: &[u8], before: Sx, doc_after: &Document, sinks: Sx) -> Sx {
    Sx::tagged("rev", vec![Sx::bytes(file), before, dict_to_sx(&doc_after.trailer), sinks])
}

fn main() {
    lvh::drive(|x| {
        let a = x.args();
        let tag = x.tag().unwrap_or("");
        if (tag != "plain" && tag != "inc") || a.len() < 3 {
            return (Sx::id("badcase"), "skip".into());
        }
        let stream = a[0].is_id("stream");
        let mut doc = match doc_of_sx(&a[1]) {
            Some(d) => d,
            None => return (Sx::id("badcase"), "skip".into()),
        };
        if apply_sops(&mut doc, &a[2]).is_none() {
            return (Sx::id("badcase"), "skip".into());
        }
        doc.reference_table.cross_reference_type =
            if stream { XrefType::CrossReferenceStream } else { XrefType::CrossReferenceTable };
        let before = doc_to_sx(&doc);
        let pristine = doc.clone();
        let mut bytes: Vec<u8> = Vec::new();
        if let Err(e) = doc.save_to(&mut bytes) {
            return (
                Sx::tagged("save-error", vec![Sx::num(0), Sx::id(&format!("{:?}", e.kind()))]),
                "skip".into(),
            );
        }
        let sinks = sinks_sx(&bytes, |sink| pristine.clone().save_to(sink));
        let mut revs = vec![rev_sx(&bytes, before, &doc, sinks)];
        if tag == "inc" {
            for (k, r) in a[3..].iter().enumerate() {
                let mut inc = match IncrementalDocument::load_from(&bytes[..]) {
                    Ok(i) => i,
                    Err(e) => {
                        // the crate cannot re-open its own output: reported, the files so far are still checked
                        revs.push(Sx::tagged("reload-error", vec![Sx::num(k + 1), Sx::id(&format!("{:?}", e).replace(|c: char| !c.is_ascii_alphanumeric(), "-"))]));
                        return (Sx::tagged("saved", revs), "FAIL the crate cannot load the file it saved".into());
                    }
                };
                for e in r.args() {
                    if apply_edit(&mut inc, e).is_none() {
                        return (Sx::id("badcase"), "skip".into());
                    }
                }
                let before = doc_to_sx(&inc.new_document);
                let pristine = inc.clone();
                let mut out: Vec<u8> = Vec::new();
                if let Err(e) = inc.save_to(&mut out) {
                    return (
                        Sx::tagged("save-error", vec![Sx::num(k + 1), Sx::id(&format!("{:?}", e.kind()))]),
                        "skip".into(),
                    );
                }
                let sinks = sinks_sx(&out, |sink| pristine.clone().save_to(sink));
                revs.push(rev_sx(&out, before, &inc.new_document, sinks));
                bytes = out;
            }
        }
        (Sx::tagged("saved", revs), "ok".into())
    });
}
