//! C03: saved files are valid PDF for a strict third-party reader.
//!
//! The harness only PRODUCES files with the real crate; the strict reference reader is the Coq
//! specification coq/Spec/StrictReader.v, extracted, and run on these very bytes by props/c03.py.
//!
//!  (plain <fmt> <doc> (sops <sop>...))                       fmt ::= table | stream
//!  (inc   <fmt> <doc> (sops <sop>...) (rev <edit>...) ...)   plain save, then one incremental
//!                                                            update per (rev ...): load the bytes
//!                                                            produced so far as IncrementalDocument,
//!                                                            edit new_document, save_to
//!  <sop>  ::= ((id gen) <op>...)       stream operations through the public API
//!  <op>   ::= new | compress | decompress | (setc xHEX) | (setp xHEX)
//!  <edit> ::= (set (id gen) <obj>) | (add <obj>) | (clone (id gen)) | (sop (id gen) <op>...)
//!
//! Output: (saved (rev xFILE <document before the save> <trailer after the save>) ...)  one (rev ..)
//! per produced file, each file being the complete output of its save; or (save-error k <class>).
//! Verdict here is only `ok` / `skip`; the property verdict is computed from the strict reader.
use lopdf::xref::XrefType;
use lopdf::{Document, IncrementalDocument, Object, ObjectId, Stream};
use lvh::conv::*;
use lvh::sx::Sx;

fn stream_op(o: &mut Object, op: &Sx) -> Option<()> {
    let s = match o {
        Object::Stream(s) => s,
        _ => return None,
    };
    if op.is_id("new") {
        let dict = s.dict.clone();
        let content = s.content.clone();
        *s = Stream::new(dict, content);
    } else if op.is_id("compress") {
        let _ = s.compress();
    } else if op.is_id("decompress") {
        let _ = s.decompress();
    } else if op.tag() == Some("setc") {
        s.set_content(op.args().first()?.as_bytes()?);
    } else if op.tag() == Some("setp") {
        s.set_plain_content(op.args().first()?.as_bytes()?);
    } else {
        return None;
    }
    Some(())
}

fn apply_sops(doc: &mut Document, sops: &Sx) -> Option<()> {
    for sop in sops.args() {
        let l = sop.as_list()?;
        let id: ObjectId = oid_of_sx(l.first()?)?;
        if let Some(o) = doc.objects.get_mut(&id) {
            for op in &l[1..] {
                stream_op(o, op)?;
            }
        }
    }
    Some(())
}

fn apply_edit(inc: &mut IncrementalDocument, e: &Sx) -> Option<()> {
    let a = e.args();
    match e.tag()? {
        "set" => {
            let id = oid_of_sx(a.first()?)?;
            inc.new_document.set_object(id, obj_of_sx(a.get(1)?)?);
        }
        "add" => {
            inc.new_document.add_object(obj_of_sx(a.first()?)?);
        }
        "clone" => {
            let id = oid_of_sx(a.first()?)?;
            let _ = inc.opt_clone_object_to_new_document(id);
        }
        "sop" => {
            let id = oid_of_sx(a.first()?)?;
            if let Some(o) = inc.new_document.objects.get_mut(&id) {
                for op in &a[1..] {
                    stream_op(o, op)?;
                }
            }
        }
        _ => return None,
    }
    Some(())
}

fn rev_sx(file: &[u8], before: Sx, doc_after: &Document) -> Sx {
    Sx::tagged("rev", vec![Sx::bytes(file), before, dict_to_sx(&doc_after.trailer)])
}

fn main() {
    lvh::drive(|x| {
        let a = x.args();
        let tag = x.tag().unwrap_or("");
        if (tag != "plain" && tag != "inc") || a.len() < 3 {
            return (Sx::id("badcase"), "skip".into());
        }
        let stream = a[0].is_id("stream");
        let mut doc = match doc_of_sx(&a[1]) {
            Some(d) => d,
            None => return (Sx::id("badcase"), "skip".into()),
        };
        if apply_sops(&mut doc, &a[2]).is_none() {
            return (Sx::id("badcase"), "skip".into());
        }
        doc.reference_table.cross_reference_type =
            if stream { XrefType::CrossReferenceStream } else { XrefType::CrossReferenceTable };
        let before = doc_to_sx(&doc);
        let mut bytes: Vec<u8> = Vec::new();
        if let Err(e) = doc.save_to(&mut bytes) {
            return (
                Sx::tagged("save-error", vec![Sx::num(0), Sx::id(&format!("{:?}", e.kind()))]),
                "skip".into(),
            );
        }
        let mut revs = vec![rev_sx(&bytes, before, &doc)];
        if tag == "inc" {
            for (k, r) in a[3..].iter().enumerate() {
                let mut inc = match IncrementalDocument::load_from(&bytes[..]) {
                    Ok(i) => i,
                    Err(e) => {
                        // the crate cannot re-open its own output: reported, the files so far are still checked
                        revs.push(Sx::tagged("reload-error", vec![Sx::num(k + 1), Sx::id(&format!("{:?}", e).replace(|c: char| !c.is_ascii_alphanumeric(), "-"))]));
                        return (Sx::tagged("saved", revs), "FAIL the crate cannot load the file it saved".into());
                    }
                };
                for e in r.args() {
                    if apply_edit(&mut inc, e).is_none() {
                        return (Sx::id("badcase"), "skip".into());
                    }
                }
                let before = doc_to_sx(&inc.new_document);
                let mut out: Vec<u8> = Vec::new();
                if let Err(e) = inc.save_to(&mut out) {
                    return (
                        Sx::tagged("save-error", vec![Sx::num(k + 1), Sx::id(&format!("{:?}", e.kind()))]),
                        "skip".into(),
                    );
                }
                revs.push(rev_sx(&out, before, &inc.new_document));
                bytes = out;
            }
        }
        (Sx::tagged("saved", revs), "ok".into())
    });
}
