//! C15: ToUnicode CMaps decode text as the CMap defines.
//! Case: (case <enc> <cmap> (texts <bytes>...) (probes (<code> <len>)...) <expect>)
//!   enc    = none | x<hex name>       value of the font's /Encoding (none = key absent)
//!   cmap   = x<hex>                   plain content of the ToUnicode stream
//!   expect = (expect (gets <g>...) (texts <t>...))  the generator's own reading of the mapping table
//!            it rendered (g = none | (some u...) | any ; t = (cp...) | any ; any = unchecked), or (malformed) -- then only
//!            the outcome class is compared with the model and a panic is the only FAIL.
//! The head `render` (the CMap text was written by the extracted renderer of coq/Spec/CMapRender.v; the layout and the
//! section list follow the expectation and are read by the model only) is treated like `case`.
//! Result: (res cmap (gets <g>...) (texts (ok cp...)|(err)...)) | (res (err parse|range|other)) | (res notcmap)
//! Only public API: Dictionary::get_font_encoding on a font whose ToUnicode is an indirect stream,
//! Document::decode_text, and ToUnicodeCMap::get through the public Encoding::UnicodeMapEncoding field.
use lopdf::{Dictionary, Document, Encoding, Object, Stream};
use lvh::sx::Sx;

fn cps(s: &str) -> Vec<Sx> {
    s.chars().map(|c| Sx::num(c as u32)).collect()
}

fn main() {
    lvh::drive(|x| {
        let a = x.args();
        if a.len() < 4 {
            return (Sx::id("badcase"), "skip".into());
        }
        let cmap = match a[1].as_bytes() {
            Some(b) => b,
            None => return (Sx::id("badcase"), "skip".into()),
        };
        let texts: Vec<Vec<u8>> = a[2].args().iter().filter_map(|t| t.as_bytes()).collect();
        let probes: Vec<(u32, u8)> = a[3]
            .args()
            .iter()
            .filter_map(|p| {
                let l = p.as_list()?;
                Some((l.first()?.as_u64()? as u32, l.get(1)?.as_u64()? as u8))
            })
            .collect();
        let mut doc = Document::with_version("1.5");
        let sid = doc.add_object(Object::Stream(Stream {
            dict: Dictionary::new(),
            content: cmap,
            allows_compression: false,
            start_position: None,
        }));
        let mut font = Dictionary::new();
        font.set("Type", Object::Name(b"Font".to_vec()));
        font.set("Subtype", Object::Name(b"Type0".to_vec()));
        if !a[0].is_id("none") {
            if let Some(n) = a[0].as_bytes() {
                font.set("Encoding", Object::Name(n));
            }
        }
        font.set("ToUnicode", Object::Reference(sid));
        // a CMap the generator rendered from a table must be accepted and used
        let wf = a.get(4).map(|e| e.tag() == Some("expect")).unwrap_or(false);
        let reject = |what: &str| if wf { format!("FAIL well-formed CMap {}", what) } else { "ok".to_string() };
        let enc = match font.get_font_encoding(&doc) {
            Ok(e) => e,
            Err(lopdf::Error::ToUnicodeCMap(e)) => {
                let m = format!("{}", e);
                let cls = if m.starts_with("invalid code range") { "range" } else { "parse" };
                return (Sx::tagged("res", vec![Sx::tagged("err", vec![Sx::id(cls)])]), reject("rejected"));
            }
            Err(_) => return (Sx::tagged("res", vec![Sx::tagged("err", vec![Sx::id("other")])]), reject("rejected")),
        };
        let mut gets = vec![];
        let mut got_units: Vec<Option<Vec<u16>>> = vec![];
        if let Encoding::UnicodeMapEncoding(cm) = &enc {
            for (code, len) in &probes {
                let g = cm.get(*code, *len);
                gets.push(match &g {
                    None => Sx::id("none"),
                    Some(v) => Sx::tagged("some", v.iter().map(Sx::num).collect()),
                });
                got_units.push(g);
            }
        } else {
            let v = if wf && !a[0].is_id("none") && !matches!(a[0].as_bytes().as_deref(), Some(b"Identity-H") | Some(b"Identity-V")) {
                "ok".to_string() // an /Encoding other than Identity-H/V is not this property's domain
            } else {
                reject("not used as the font's encoding")
            };
            return (Sx::tagged("res", vec![Sx::id("notcmap")]), v);
        }
        let mut outs = vec![];
        let mut out_cps: Vec<Option<Vec<u32>>> = vec![];
        for t in &texts {
            match Document::decode_text(&enc, t) {
                Ok(s) => {
                    outs.push(Sx::tagged("ok", cps(&s)));
                    out_cps.push(Some(s.chars().map(|c| c as u32).collect()));
                }
                Err(_) => {
                    outs.push(Sx::tagged("err", vec![]));
                    out_cps.push(None);
                }
            }
        }
        let res = Sx::tagged("res", vec![Sx::id("cmap"), Sx::tagged("gets", gets), Sx::tagged("texts", outs)]);
        // direct evaluation of the property against the generator's table
        let mut verdict = "ok".to_string();
        if let Some(exp) = a.get(4) {
            if exp.tag() == Some("expect") {
                let e = exp.args();
                let eg = e.first().map(|g| g.args()).unwrap_or(&[]);
                let et = e.get(1).map(|g| g.args()).unwrap_or(&[]);
                if eg.len() != got_units.len() || et.len() != out_cps.len() {
                    verdict = "FAIL expectation arity".into();
                }
                for (i, g) in eg.iter().enumerate() {
                    if g.is_id("any") {
                        continue;
                    }
                    let want: Option<Vec<u16>> = if g.is_id("none") {
                        None
                    } else {
                        Some(g.args().iter().filter_map(|u| u.as_u64()).map(|u| u as u16).collect())
                    };
                    if got_units.get(i) != Some(&want) && verdict == "ok" {
                        verdict = format!(
                            "FAIL get({:#x},{}) = {:x?}, the CMap defines {:x?}",
                            probes[i].0, probes[i].1, got_units.get(i), want
                        );
                    }
                }
                for (i, t) in et.iter().enumerate() {
                    if t.is_id("any") {
                        continue;
                    }
                    let want: Vec<u32> = t.as_list().unwrap_or(&[]).iter().filter_map(|u| u.as_u64()).map(|u| u as u32).collect();
                    if out_cps.get(i) != Some(&Some(want.clone())) && verdict == "ok" {
                        verdict = format!(
                            "FAIL text {} decodes to {:x?}, the CMap defines {:x?}",
                            Sx::bytes(&texts[i]).print(),
                            out_cps.get(i),
                            want
                        );
                    }
                }
            }
        }
        (res, verdict)
    });
}
