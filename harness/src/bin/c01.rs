//! C01: save then load returns the same document.
//!  (save <fmt> <doc>)   -> <saveres>                         fmt ::= table | stream
//!  (rt <fmt> <doc>)     -> (rt <saveres> <loadres> <saveres2> <loadres2>)   (later parts only while ok)
//!  (load xBYTES)        -> <loadres>
//!  (enc-prep <kind> xUSER xOWNER <doc>) -> (encdoc <doc'>) | (err C)     generator aid: Document::encrypt under
//!                          kind ::= v1 | v2 | v4 | r5 (RC4 40, RC4 128, AESV2, AESV3 with revision 5; own randomness)
//!  (rt-enc <fmt> <plain doc> <encrypted doc> xPW) -> (rt-enc <saveres> <loadres> <decres>)
//!                          the encrypted document saved and loaded (load_mem tries the empty password and decrypts when it
//!                          opens the file, else returns the document still encrypted); <decres> = Document::decrypt(PW) on
//!                          what came back when that still has an Encrypt entry: (dec <doc>) | (dec-err C) | (dec-panic),
//!                          else (nodec).
//!                          Verdict: the loaded document is the plain document in the property's sense -- after the load
//!                          itself when the empty password opens the file, after decrypt(PW) otherwise; when nothing was
//!                          decrypted on load, what came back is the ENCRYPTED document in the property's sense.
//!  (hist-prep <fmt> <doc> (rev <edit>...) ...) -> (histfile xBYTES) | (err C)   generator aid: the document saved, then one
//!                          incremental update per (rev ..): IncrementalDocument::load_from the bytes so far, edit
//!                          new_document (<edit> ::= (set (id gen) <obj>) | (add <obj>)), IncrementalDocument::save_to
//!  (rt-hist <fmt> xFILE)   -> (rt-hist <loadres> <saveres> <loadres> <saveres2> <loadres2>)
//!                          the property on a document OBTAINED BY LOADING: FILE has several cross-reference sections
//!                          (incremental updates written by lopdf, or revisions appended by hand); it is loaded, and the
//!                          loaded document goes through the same save -> load -> compare -> second cycle as an `rt` case.
//!                          Verdict: `savable` on the loaded document's user objects (its own cross-reference streams apart,
//!                          and whatever the loader left under Prev is NOT an excuse: it is part of the document under test).
//!  <saveres> ::= (saved xBYTES <doc-after-save>) | (invalid-mark xBYTES) | (save-panic xBYTES)
//!  <loadres> ::= (loaded <doc> table|stream) | (err <class>) | (load-panic)
//! Verdict (save / rt): the direct evaluation of the property on the implementation for documents in
//! the property's domain (`savable`, mirrored from coq/Spec/SaveSpec.v), `skip` outside of it.
use lopdf::encryption::crypt_filters::*;
use lopdf::xref::XrefType;
use lopdf::{Dictionary, Document, EncryptionState, EncryptionVersion, IncrementalDocument, Object, Permissions};
use std::collections::BTreeMap;
use std::sync::Arc;
use lvh::conv::*;
use lvh::sx::Sx;
use std::collections::BTreeSet;
use std::panic::{catch_unwind, AssertUnwindSafe};

const BOOKKEEPING: [&[u8]; 7] = [b"Type", b"Size", b"W", b"Index", b"Length", b"Prev", b"Filter"];
const SKIP_TYPES: [&[u8]; 3] = [b"ObjStm", b"XRef", b"Linearized"];

enum SaveRes {
    Saved(Vec<u8>),
    InvalidMark(Vec<u8>),
    Panic(Vec<u8>),
}

fn save(doc: &mut Document, stream: bool) -> SaveRes {
    doc.reference_table.cross_reference_type =
        if stream { XrefType::CrossReferenceStream } else { XrefType::CrossReferenceTable };
    let mut buf = Vec::new();
    match catch_unwind(AssertUnwindSafe(|| doc.save_to(&mut buf))) {
        Ok(Ok(())) => SaveRes::Saved(buf),
        Ok(Err(_)) => SaveRes::InvalidMark(buf),
        Err(_) => SaveRes::Panic(buf),
    }
}

fn saveres_to_sx(r: &SaveRes, doc: &Document) -> Sx {
    match r {
        SaveRes::Saved(b) => Sx::tagged("saved", vec![Sx::bytes(b), doc_to_sx(doc)]),
        SaveRes::InvalidMark(b) => Sx::tagged("invalid-mark", vec![Sx::bytes(b)]),
        SaveRes::Panic(b) => Sx::tagged("save-panic", vec![Sx::bytes(b)]),
    }
}

fn err_class(e: &lopdf::Error) -> String {
    use lopdf::Error::*;
    match e {
        Parse(p) => format!("parse-{:?}", p),
        Xref(x) => format!("xref-{:?}", x),
        IndirectObject { .. } => "indirect-object".into(),
        ObjectIdMismatch => "id-mismatch".into(),
        InvalidOffset(_) => "invalid-offset".into(),
        other => {
            let d = format!("{:?}", other);
            let name: String = d.chars().take_while(|c| c.is_ascii_alphanumeric()).collect();
            format!("other-{}", name)
        }
    }
}

fn load(bytes: &[u8]) -> Result<lopdf::Result<Document>, ()> {
    catch_unwind(|| Document::load_mem(bytes)).map_err(|_| ())
}

fn loadres_to_sx(r: &Result<lopdf::Result<Document>, ()>) -> Sx {
    match r {
        Ok(Ok(d)) => Sx::tagged(
            "loaded",
            vec![
                doc_to_sx(d),
                Sx::id(match d.reference_table.cross_reference_type {
                    XrefType::CrossReferenceStream => "stream",
                    XrefType::CrossReferenceTable => "table",
                }),
            ],
        ),
        Ok(Err(e)) => Sx::tagged("err", vec![Sx::id(&err_class(e))]),
        Err(()) => Sx::tagged("load-panic", vec![]),
    }
}

// ---------- the property's domain ----------
fn has_stream(o: &Object) -> bool {
    match o {
        Object::Stream(_) => true,
        Object::Array(a) => a.iter().any(has_stream),
        Object::Dictionary(d) => d.iter().any(|(_, v)| has_stream(v)),
        _ => false,
    }
}
fn reals_finite(o: &Object) -> bool {
    match o {
        Object::Real(f) => f.is_finite(),
        Object::Array(a) => a.iter().all(reals_finite),
        Object::Dictionary(d) => d.iter().all(|(_, v)| reals_finite(v)),
        Object::Stream(s) => s.dict.iter().all(|(_, v)| reals_finite(v)),
        _ => true,
    }
}
fn skip_typed(o: &Object) -> bool {
    o.type_name().map(|n| SKIP_TYPES.contains(&n)).unwrap_or(false)
}

/// max_id as save sees it: raised to the largest object number (first statement of save_internal)
fn raised_max_id(doc: &Document) -> u32 {
    doc.objects.keys().map(|id| id.0).max().map_or(doc.max_id, |m| m.max(doc.max_id))
}

fn savable(doc: &Document) -> Result<(), String> {
    if raised_max_id(doc) >= u32::MAX - 1 {
        return Err("max_id + 2 overflows u32".into());
    }
    if !doc.binary_mark.iter().all(|&b| b >= 128) {
        return Err("binary mark byte < 128".into());
    }
    if doc.version.bytes().any(|b| b == b'\r' || b == b'\n') {
        return Err("version with CR/LF".into());
    }
    if doc.trailer.has(b"Prev") || doc.trailer.has(b"Encrypt") {
        return Err("trailer has Prev/Encrypt".into());
    }
    if doc.trailer.iter().any(|(_, v)| has_stream(v) || !reals_finite(v)) {
        return Err("trailer value not direct / not finite".into());
    }
    let mut nums = BTreeSet::new();
    for (&(id, _gen), o) in &doc.objects {
        // (an object number above max_id is in the domain: save raises max_id)
        if id == 0 {
            return Err("object number 0".into());
        }
        if !nums.insert(id) {
            return Err("two generations of one object number".into());
        }
        if skip_typed(o) {
            return Err("object typed ObjStm/XRef/Linearized".into());
        }
        if !reals_finite(o) {
            return Err("non-finite real".into());
        }
        match o {
            Object::Stream(s) => {
                if s.dict.iter().any(|(_, v)| has_stream(v)) {
                    return Err("nested stream".into());
                }
                match s.dict.get(b"Length") {
                    Ok(Object::Integer(n)) if *n == s.content.len() as i64 => {}
                    _ => return Err("stream Length is not the content length".into()),
                }
            }
            other => {
                if has_stream(other) {
                    return Err("nested stream".into());
                }
            }
        }
    }
    Ok(())
}

// ---------- comparison ----------
/// equality up to "a real with an integral value may come back as the integer of the same value"
fn same(a: &Object, b: &Object) -> bool {
    match (a, b) {
        (Object::Real(x), Object::Integer(i)) => x.fract() == 0.0 && (*i as f32) == *x,
        (Object::Real(x), Object::Real(y)) => x == y,
        (Object::Array(x), Object::Array(y)) => x.len() == y.len() && x.iter().zip(y).all(|(p, q)| same(p, q)),
        (Object::Dictionary(x), Object::Dictionary(y)) => same_dict(x, y, &[]),
        (Object::Stream(x), Object::Stream(y)) => x.content == y.content && same_dict(&x.dict, &y.dict, &[]),
        _ => a == b,
    }
}
fn same_dict(x: &Dictionary, y: &Dictionary, ignore: &[&[u8]]) -> bool {
    let keep = |d: &Dictionary| d.iter().filter(|(k, _)| !ignore.contains(&k.as_slice())).count();
    keep(x) == keep(y)
        && x.iter()
            .filter(|(k, _)| !ignore.contains(&k.as_slice()))
            .all(|(k, v)| y.get(k).map(|w| same(v, w)).unwrap_or(false))
}
fn is_xref_stream(o: &Object) -> bool {
    matches!(o, Object::Stream(s) if s.dict.has_type(b"XRef"))
}

/// `b` is `a` saved and loaded: version, identifiers, objects, trailer
fn reloaded_same(a: &Document, b: &Document, what: &str) -> Result<(), String> {
    if a.version != b.version {
        return Err(format!("{}: version differs", what));
    }
    let ids_a: Vec<_> = a.objects.iter().filter(|(_, o)| !is_xref_stream(o)).map(|(id, _)| *id).collect();
    let ids_b: Vec<_> = b.objects.iter().filter(|(_, o)| !is_xref_stream(o)).map(|(id, _)| *id).collect();
    if ids_a != ids_b {
        return Err(format!("{}: object identifiers differ: {:?} became {:?}", what, ids_a, ids_b));
    }
    for id in &ids_a {
        if !same(&a.objects[id], &b.objects[id]) {
            return Err(format!("{}: object {} {} differs", what, id.0, id.1));
        }
    }
    if !same_dict(&a.trailer, &b.trailer, &BOOKKEEPING) {
        return Err(format!("{}: trailer differs", what));
    }
    Ok(())
}

struct Cycle {
    save1: SaveRes,
    after1: Document,
    load1: Option<Result<lopdf::Result<Document>, ()>>,
    save2: Option<(SaveRes, Document)>,
    load2: Option<Result<lopdf::Result<Document>, ()>>,
}

fn cycle(doc: &Document, stream: bool) -> Cycle {
    let mut d1 = doc.clone();
    let save1 = save(&mut d1, stream);
    let mut c = Cycle { save1, after1: d1, load1: None, save2: None, load2: None };
    if let SaveRes::Saved(b1) = &c.save1 {
        let l1 = load(b1);
        if let Ok(Ok(ld1)) = &l1 {
            // the second cycle keeps the cross-reference format the loader recorded
            let mut d2 = ld1.clone();
            let is_stream = matches!(d2.reference_table.cross_reference_type, XrefType::CrossReferenceStream);
            let s2 = save(&mut d2, is_stream);
            if let SaveRes::Saved(b2) = &s2 {
                c.load2 = Some(load(b2));
            }
            c.save2 = Some((s2, d2));
        }
        c.load1 = Some(l1);
    }
    c
}

fn verdict(doc: &Document, stream: bool, c: &Cycle) -> String {
    if let Err(why) = savable(doc) {
        return format!("skip {}", why);
    }
    verdict_in_domain(doc, stream, c)
}

/// the domain for a document that came out of load_mem: its cross-reference streams are bookkeeping (the writer drops
/// them, `reloaded_same` leaves them out on both sides), and a Prev entry the loader left behind is not a reason to skip
fn savable_loaded(doc: &Document) -> Result<(), String> {
    let mut d = doc.clone();
    d.trailer.remove(b"Prev");
    d.objects.retain(|_, o| !is_xref_stream(o));
    savable(&d)
}

fn verdict_in_domain(doc: &Document, stream: bool, c: &Cycle) -> String {
    if !matches!(c.save1, SaveRes::Saved(_)) {
        return "FAIL save of a savable document did not succeed".into();
    }
    let ld1 = match &c.load1 {
        Some(Ok(Ok(d))) => d,
        Some(Ok(Err(e))) => return format!("FAIL load of the saved bytes: {}", err_class(e)),
        _ => return "FAIL load of the saved bytes panicked".into(),
    };
    if let Err(e) = reloaded_same(doc, ld1, "first cycle") {
        return format!("FAIL {}", e);
    }
    let loaded_stream = matches!(ld1.reference_table.cross_reference_type, XrefType::CrossReferenceStream);
    if loaded_stream != stream {
        return "FAIL the loaded document does not remember the cross-reference format".into();
    }
    // every stream-format cycle uses a fresh object number for its cross-reference stream (cycles_fit)
    if stream && raised_max_id(doc) >= u32::MAX - 2 {
        return "ok".into();
    }
    match &c.save2 {
        Some((SaveRes::Saved(_), _)) => {}
        _ => return "FAIL second save did not succeed".into(),
    }
    let ld2 = match &c.load2 {
        Some(Ok(Ok(d))) => d,
        _ => return "FAIL second load did not succeed".into(),
    };
    if let Err(e) = reloaded_same(ld1, ld2, "second cycle") {
        return format!("FAIL {}", e);
    }
    if let Err(e) = reloaded_same(doc, ld2, "after two cycles") {
        return format!("FAIL {}", e);
    }
    "ok".into()
}

// ---------- encrypted documents ----------
#[allow(deprecated)]
fn encrypt_doc(doc: &mut Document, kind: &str, user: &str, owner: &str) -> Result<(), lopdf::Error> {
    let fek = [7u8; 32];
    let state = {
        let version = match kind {
            "v1" => EncryptionVersion::V1 { document: doc, owner_password: owner, user_password: user, permissions: Permissions::all() },
            "v2" => EncryptionVersion::V2 {
                document: doc,
                owner_password: owner,
                user_password: user,
                key_length: 128,
                permissions: Permissions::all(),
            },
            "v4" => {
                let mut cfs: BTreeMap<Vec<u8>, Arc<dyn CryptFilter>> = BTreeMap::new();
                cfs.insert(b"StdCF".to_vec(), Arc::new(Aes128CryptFilter));
                EncryptionVersion::V4 {
                    document: doc,
                    encrypt_metadata: true,
                    crypt_filters: cfs,
                    stream_filter: b"StdCF".to_vec(),
                    string_filter: b"StdCF".to_vec(),
                    owner_password: owner,
                    user_password: user,
                    permissions: Permissions::all(),
                }
            }
            // revision 6 (AES-256, Algorithm 2.B): one case in the thorough tier (a 2.B hash costs seconds in the extracted model)
            "v5" => {
                let mut cfs: BTreeMap<Vec<u8>, Arc<dyn CryptFilter>> = BTreeMap::new();
                cfs.insert(b"StdCF".to_vec(), Arc::new(Aes256CryptFilter));
                EncryptionVersion::V5 {
                    encrypt_metadata: true,
                    crypt_filters: cfs,
                    file_encryption_key: &fek,
                    stream_filter: b"StdCF".to_vec(),
                    string_filter: b"StdCF".to_vec(),
                    owner_password: owner,
                    user_password: user,
                    permissions: Permissions::all(),
                }
            }
            _ => {
                let mut cfs: BTreeMap<Vec<u8>, Arc<dyn CryptFilter>> = BTreeMap::new();
                cfs.insert(b"StdCF".to_vec(), Arc::new(Aes256CryptFilter));
                EncryptionVersion::R5 {
                    encrypt_metadata: true,
                    crypt_filters: cfs,
                    file_encryption_key: &fek,
                    stream_filter: b"StdCF".to_vec(),
                    string_filter: b"StdCF".to_vec(),
                    owner_password: owner,
                    user_password: user,
                    permissions: Permissions::all(),
                }
            }
        };
        EncryptionState::try_from(version)?
    };
    doc.encrypt(&state)
}

/// the domain without "no Encrypt entry" (coq/Spec/SaveSpec.v savable_enc)
fn savable_enc(doc: &Document) -> Result<(), String> {
    let mut d = doc.clone();
    d.trailer.remove(b"Encrypt");
    savable(&d)
}

fn rt_enc(plain: &Document, enc: &Document, stream: bool, pw: &[u8]) -> (Sx, String) {
    let mut d1 = enc.clone();
    let s1 = save(&mut d1, stream);
    let mut parts = vec![saveres_to_sx(&s1, &d1)];
    let mut v = String::from("skip");
    // C05's domain of Document::encrypt: no object number above max_id (add_object would overwrite it)
    let ids_ok = if plain.objects.keys().all(|id| id.0 <= plain.max_id) { Ok(()) } else { Err("object number above max_id".to_string()) };
    let in_domain = savable(plain).and(savable_enc(enc)).and(ids_ok);
    if let SaveRes::Saved(b1) = &s1 {
        let l1 = load(b1);
        parts.push(loadres_to_sx(&l1));
        match &l1 {
            Ok(Ok(ld)) => {
                let mut fin = ld.clone();
                let mut dec_ok = true;
                if ld.trailer.has(b"Encrypt") {
                    let r = catch_unwind(AssertUnwindSafe(|| match std::str::from_utf8(pw) {
                        Ok(s) => fin.decrypt(s),
                        Err(_) => fin.decrypt_raw(pw),
                    }));
                    match r {
                        Ok(Ok(())) => parts.push(Sx::tagged("dec", vec![doc_to_sx(&fin)])),
                        Ok(Err(e)) => {
                            dec_ok = false;
                            parts.push(Sx::tagged("dec-err", vec![Sx::id(&err_class(&e))]))
                        }
                        Err(_) => {
                            dec_ok = false;
                            parts.push(Sx::tagged("dec-panic", vec![]))
                        }
                    }
                } else {
                    parts.push(Sx::tagged("nodec", vec![]));
                }
                v = match &in_domain {
                    Err(why) => format!("skip {}", why),
                    Ok(()) => {
                        let kept = if ld.trailer.has(b"Encrypt") { reloaded_same(enc, ld, "encrypted document, first cycle") } else { Ok(()) };
                        if let Err(e) = kept {
                            format!("FAIL {}", e)
                        } else if !dec_ok {
                            "FAIL decrypt of the reloaded document did not succeed".into()
                        } else if fin.trailer.has(b"Encrypt") {
                            "FAIL Encrypt entry left after decryption".into()
                        } else if let Err(e) = reloaded_same(plain, &fin, "encrypt, save, load, decrypt") {
                            format!("FAIL {}", e)
                        } else {
                            "ok".into()
                        }
                    }
                };
            }
            Ok(Err(e)) => {
                if in_domain.is_ok() {
                    v = format!("FAIL load of the saved encrypted document: {}", err_class(e));
                }
            }
            Err(()) => {
                if in_domain.is_ok() {
                    v = "FAIL load of the saved encrypted document panicked".into();
                }
            }
        }
    } else if in_domain.is_ok() {
        v = "FAIL save of a savable encrypted document did not succeed".into();
    }
    (Sx::tagged("rt-enc", parts), v)
}

// ---------- documents obtained by loading a file with several revisions ----------
fn hist_prep(doc: &Document, stream: bool, revs: &[Sx]) -> Result<Vec<u8>, String> {
    let mut d = doc.clone();
    let mut bytes = match save(&mut d, stream) {
        SaveRes::Saved(b) => b,
        _ => return Err("save".into()),
    };
    for r in revs {
        let mut inc = IncrementalDocument::load_from(&bytes[..]).map_err(|e| err_class(&e))?;
        for e in r.args() {
            let a = e.args();
            match e.tag() {
                Some("set") => {
                    let id = a.first().and_then(oid_of_sx).ok_or("badcase")?;
                    inc.new_document.set_object(id, a.get(1).and_then(obj_of_sx).ok_or("badcase")?);
                }
                Some("add") => {
                    inc.new_document.add_object(a.first().and_then(obj_of_sx).ok_or("badcase")?);
                }
                _ => return Err("badcase".into()),
            }
        }
        let mut out = Vec::new();
        inc.save_to(&mut out).map_err(|_| "inc-save".to_string())?;
        bytes = out;
    }
    Ok(bytes)
}

fn cycle_parts(c: &Cycle) -> Vec<Sx> {
    let mut parts = vec![saveres_to_sx(&c.save1, &c.after1)];
    if let Some(l1) = &c.load1 {
        parts.push(loadres_to_sx(l1));
    }
    if let Some((s2, d2)) = &c.save2 {
        parts.push(saveres_to_sx(s2, d2));
    }
    if let Some(l2) = &c.load2 {
        parts.push(loadres_to_sx(l2));
    }
    parts
}

fn main() {
    lvh::drive(|x| {
        let a = x.args();
        match x.tag() {
            Some("hist-prep") => {
                if a.len() < 2 {
                    return (Sx::id("badcase"), "skip".into());
                }
                let stream = a[0].is_id("stream");
                let doc = match doc_of_sx(&a[1]) {
                    Some(d) => d,
                    None => return (Sx::id("badcase"), "skip".into()),
                };
                match hist_prep(&doc, stream, &a[2..]) {
                    Ok(b) => (Sx::tagged("histfile", vec![Sx::bytes(&b)]), "ok".into()),
                    Err(e) => (Sx::tagged("err", vec![Sx::id(&e)]), "ok".into()),
                }
            }
            Some("rt-hist") => {
                if a.len() != 2 {
                    return (Sx::id("badcase"), "skip".into());
                }
                let stream = if a[0].is_id("stream") {
                    true
                } else if a[0].is_id("table") {
                    false
                } else {
                    return (Sx::id("badcase"), "skip".into());
                };
                let file = match a[1].as_bytes() {
                    Some(b) => b,
                    None => return (Sx::id("badcase"), "skip".into()),
                };
                let l0 = load(&file);
                let mut parts = vec![loadres_to_sx(&l0)];
                let v = match &l0 {
                    Ok(Ok(d0)) => {
                        let c = cycle(d0, stream);
                        parts.extend(cycle_parts(&c));
                        match savable_loaded(d0) {
                            Err(why) => format!("skip loaded document: {}", why),
                            Ok(()) => verdict_in_domain(d0, stream, &c),
                        }
                    }
                    // the property starts from an in-memory document: a file that does not load gives none
                    _ => "skip the file does not load".into(),
                };
                (Sx::tagged("rt-hist", parts), v)
            }
            Some("enc-prep") => {
                if a.len() != 4 {
                    return (Sx::id("badcase"), "skip".into());
                }
                let kind = match a[0].as_atom().and_then(|k| std::str::from_utf8(k).ok()) {
                    Some(k) => k.to_string(),
                    None => return (Sx::id("badcase"), "skip".into()),
                };
                let (user, owner) = match (a[1].as_bytes(), a[2].as_bytes()) {
                    (Some(u), Some(o)) => (String::from_utf8_lossy(&u).to_string(), String::from_utf8_lossy(&o).to_string()),
                    _ => return (Sx::id("badcase"), "skip".into()),
                };
                let mut doc = match doc_of_sx(&a[3]) {
                    Some(d) => d,
                    None => return (Sx::id("badcase"), "skip".into()),
                };
                match encrypt_doc(&mut doc, &kind, &user, &owner) {
                    Ok(()) => (Sx::tagged("encdoc", vec![doc_to_sx(&doc)]), "ok".into()),
                    Err(e) => (Sx::tagged("err", vec![Sx::id(&err_class(&e))]), "ok".into()),
                }
            }
            Some("rt-enc") => {
                if a.len() != 4 {
                    return (Sx::id("badcase"), "skip".into());
                }
                let stream = if a[0].is_id("stream") {
                    true
                } else if a[0].is_id("table") {
                    false
                } else {
                    return (Sx::id("badcase"), "skip".into());
                };
                match (doc_of_sx(&a[1]), doc_of_sx(&a[2]), a[3].as_bytes()) {
                    (Some(plain), Some(enc), Some(pw)) => rt_enc(&plain, &enc, stream, &pw),
                    // a damaged encrypted document (no plain document given): correspondence only
                    (None, Some(enc), Some(pw)) => (rt_enc(&enc, &enc, stream, &pw).0, "skip damaged encrypted document".into()),
                    _ => (Sx::id("badcase"), "skip".into()),
                }
            }
            Some(t @ ("save" | "rt")) => {
                if a.len() != 2 {
                    return (Sx::id("badcase"), "skip".into());
                }
                let stream = if a[0].is_id("stream") {
                    true
                } else if a[0].is_id("table") {
                    false
                } else {
                    return (Sx::id("badcase"), "skip".into());
                };
                let doc = match doc_of_sx(&a[1]) {
                    Some(d) => d,
                    None => return (Sx::id("badcase"), "skip".into()),
                };
                let c = cycle(&doc, stream);
                let v = verdict(&doc, stream, &c);
                if t == "save" {
                    return (saveres_to_sx(&c.save1, &c.after1), v);
                }
                (Sx::tagged("rt", cycle_parts(&c)), v)
            }
            Some("load") => {
                let b = match a.first().and_then(|b| b.as_bytes()) {
                    Some(b) => b,
                    None => return (Sx::id("badcase"), "skip".into()),
                };
                let r = load(&b);
                // C01 says nothing about arbitrary bytes (panics are C04's subject): correspondence only
                (loadres_to_sx(&r), "ok".to_string())
            }
            _ => (Sx::id("badcase"), "skip".into()),
        }
    });
}
