//! C04: parsing untrusted bytes never panics, aborts or hangs.
//!
//! Every case runs in an ISOLATED CHILD PROCESS (the same binary started with `--worker`): a stack
//! overflow, an allocation abort or a hang kills or blocks the child only.  The parent feeds one case at a
//! time, waits with a timeout, classifies the outcome and restarts the child when it died.
//!
//! Resource limits inside the child:
//!   * memory: a counting `GlobalAlloc` refuses a request when it alone, or the live total with it, exceeds
//!     `C04_MEM_CAP` (default 1 GiB) -- Rust then aborts with "memory allocation of N bytes failed", exactly as
//!     with a real allocator failure.  The allocator also records the largest single request made while the entry
//!     point runs: that is the `max_alloc_request` the theorems bound, measured on the implementation.
//!   * stack: the entry point runs on a thread with `C04_STACK` bytes of stack (default 2 MiB = Rust's default for
//!     spawned threads, which is also what lopdf's own rayon workers get).
//!   * time: `C04_TIMEOUT_MS` per case (default 5000), enforced by the parent.
//!
//! Cases (L = number of input bytes the bound is measured against):
//!   (case a85 xDATA)                                 Stream /Filter /ASCII85Decode . decompressed_content
//!   (case frame BPP PPR xDATA)                       filters::png::decode_frame
//!   (case pred PREDICTOR COLUMNS COLORS BITS xDATA)  DATA deflated here, then /FlateDecode + /DecodeParms
//!   (case stream <st obj>)                           Stream::decompressed_content on any dictionary
//!   (case content xDATA)                             Content::decode
//!   (case objstm <d dict> xCONTENT)                  ObjectStream::new
//!   (case xrefstm <d dict> xCONTENT)                 xref::decode_xref_stream
//!   (case cmap xCMAP xTEXT)                          get_font_encoding (ToUnicode) + Document::decode_text
//!   (case textstr xBYTES)                            decode_text_string
//!   (case load xFILE) | (case incload xFILE)         Document::load_mem | IncrementalDocument::load_from
//!   (case loadm xFILE) | (case incloadm xFILE)       the same two entry points; the model runner answers these with c01's
//!                                                    Model/LoaderExt.v (load_plain) instead of `any` (Prev-chain shapes)
//!   (case loadtext xFILE)                            Document::load_mem, then extract_text + extract_text_chunks of every page
//! Result:  (r <class> (m MAXREQ LEN))   class = (ok N) | (err) | (panic) | (timeout) | (abort alloc|stack|sigN)
//!   N = size of the result (decoded bytes, operations, objects, xref entries, characters).
//! Verdict: ok | FAIL <class> ... | FAIL alloc ...  (the direct evaluation of the property).
use lopdf::content::Content;
use lopdf::{Dictionary, Document, Encoding, IncrementalDocument, Object, ObjectStream, Stream, StringFormat};
use lvh::conv;
use lvh::sx::{self, Sx};
use std::alloc::{GlobalAlloc, Layout, System};
use std::io::{BufRead, BufReader, Write};
use std::process::{Child, ChildStdin, Command, Stdio};
use std::sync::atomic::{AtomicUsize, Ordering};
use std::sync::mpsc::{channel, Receiver, RecvTimeoutError};
use std::sync::{Arc, Mutex};
use std::time::Duration;

// ------------------------------------------------------------------------------------------------
// counting allocator
// ------------------------------------------------------------------------------------------------
struct Counting;
static LIVE: AtomicUsize = AtomicUsize::new(0);
static MAXREQ: AtomicUsize = AtomicUsize::new(0);
static CAP: AtomicUsize = AtomicUsize::new(usize::MAX);

#[inline]
fn admit(size: usize) -> bool {
    MAXREQ.fetch_max(size, Ordering::Relaxed);
    let cap = CAP.load(Ordering::Relaxed);
    size <= cap && LIVE.load(Ordering::Relaxed).saturating_add(size) <= cap
}

unsafe impl GlobalAlloc for Counting {
    unsafe fn alloc(&self, l: Layout) -> *mut u8 {
        if !admit(l.size()) {
            return std::ptr::null_mut();
        }
        let p = System.alloc(l);
        if !p.is_null() {
            LIVE.fetch_add(l.size(), Ordering::Relaxed);
        }
        p
    }
    unsafe fn alloc_zeroed(&self, l: Layout) -> *mut u8 {
        if !admit(l.size()) {
            return std::ptr::null_mut();
        }
        let p = System.alloc_zeroed(l);
        if !p.is_null() {
            LIVE.fetch_add(l.size(), Ordering::Relaxed);
        }
        p
    }
    unsafe fn dealloc(&self, p: *mut u8, l: Layout) {
        System.dealloc(p, l);
        LIVE.fetch_sub(l.size(), Ordering::Relaxed);
    }
    unsafe fn realloc(&self, p: *mut u8, l: Layout, new_size: usize) -> *mut u8 {
        if new_size > l.size() && !admit(new_size) {
            return std::ptr::null_mut();
        }
        let q = System.realloc(p, l, new_size);
        if !q.is_null() {
            if new_size >= l.size() {
                LIVE.fetch_add(new_size - l.size(), Ordering::Relaxed);
            } else {
                LIVE.fetch_sub(l.size() - new_size, Ordering::Relaxed);
            }
        }
        q
    }
}

#[global_allocator]
static GLOBAL: Counting = Counting;

fn env_usize(name: &str, default: usize) -> usize {
    std::env::var(name).ok().and_then(|v| v.parse().ok()).unwrap_or(default)
}

// ------------------------------------------------------------------------------------------------
// the entry points (worker side)
// ------------------------------------------------------------------------------------------------
enum Out {
    Ok(usize),
    Err,
    Bad,
}

fn name(s: &str) -> Object {
    Object::Name(s.as_bytes().to_vec())
}

fn raw_stream(dict: Dictionary, content: Vec<u8>) -> Stream {
    Stream { dict, content, allows_compression: true, start_position: None }
}

/// returns (outcome, input length L); MAXREQ is reset by `go` right before the entry point is called
fn run_case(x: &Sx, go: &dyn Fn()) -> (Out, usize) {
    let a = x.args();
    let kind = match a.first().and_then(|k| k.as_atom()) {
        Some(k) => String::from_utf8_lossy(k).to_string(),
        None => return (Out::Bad, 0),
    };
    // a bytes argument is one atom xHEX or a list of such atoms (chunks, concatenated)
    let bytes = |i: usize| {
        a.get(i).and_then(|b| match b {
            Sx::L(chunks) => {
                let mut v = Vec::new();
                for c in chunks {
                    v.extend(c.as_bytes()?);
                }
                Some(v)
            }
            _ => b.as_bytes(),
        })
    };
    let int = |i: usize| a.get(i).and_then(|b| b.as_i64());
    macro_rules! need {
        ($e:expr) => {
            match $e {
                Some(v) => v,
                None => return (Out::Bad, 0),
            }
        };
    }
    match kind.as_str() {
        "a85" => {
            let data = need!(bytes(1));
            let l = data.len();
            let mut d = Dictionary::new();
            d.set("Filter", name("ASCII85Decode"));
            let s = raw_stream(d, data);
            go();
            (match s.decompressed_content() { Ok(v) => Out::Ok(v.len()), Err(_) => Out::Err }, l)
        }
        "frame" => {
            let bpp = need!(a.get(1).and_then(|b| b.as_u64())) as usize;
            let ppr = need!(a.get(2).and_then(|b| b.as_u64())) as usize;
            let data = need!(bytes(3));
            let l = data.len();
            go();
            (match lopdf::filters::png::decode_frame(&data, bpp, ppr) { Ok(v) => Out::Ok(v.len()), Err(_) => Out::Err }, l)
        }
        "pred" => {
            let (p, cols, colors, bits) = (need!(int(1)), need!(int(2)), need!(int(3)), need!(int(4)));
            let data = need!(bytes(5));
            let l = data.len();
            let mut enc = flate2::write::ZlibEncoder::new(Vec::new(), flate2::Compression::fast());
            enc.write_all(&data).unwrap();
            let z = enc.finish().unwrap();
            let mut parms = Dictionary::new();
            parms.set("Predictor", Object::Integer(p));
            parms.set("Columns", Object::Integer(cols));
            parms.set("Colors", Object::Integer(colors));
            parms.set("BitsPerComponent", Object::Integer(bits));
            let mut d = Dictionary::new();
            d.set("Filter", name("FlateDecode"));
            d.set("DecodeParms", Object::Dictionary(parms));
            let s = raw_stream(d, z);
            go();
            (match s.decompressed_content() { Ok(v) => Out::Ok(v.len()), Err(_) => Out::Err }, l)
        }
        "stream" => {
            let s = match a.get(1).and_then(conv::obj_of_sx) {
                Some(Object::Stream(s)) => s,
                _ => return (Out::Bad, 0),
            };
            let l = s.content.len();
            go();
            (match s.decompressed_content() { Ok(v) => Out::Ok(v.len()), Err(_) => Out::Err }, l)
        }
        "content" => {
            let data = need!(bytes(1));
            let l = data.len();
            go();
            (match Content::decode(&data) { Ok(c) => Out::Ok(c.operations.len()), Err(_) => Out::Err }, l)
        }
        "objstm" => {
            let d = need!(a.get(1).and_then(|d| conv::dict_of_entries(d.args())));
            let c = need!(bytes(2));
            let l = c.len();
            let mut s = raw_stream(d, c);
            go();
            (match ObjectStream::new(&mut s) { Ok(o) => Out::Ok(o.objects.len()), Err(_) => Out::Err }, l)
        }
        "xrefstm" => {
            let d = need!(a.get(1).and_then(|d| conv::dict_of_entries(d.args())));
            let c = need!(bytes(2));
            let l = c.len();
            let s = raw_stream(d, c);
            go();
            (match lopdf::xref::decode_xref_stream(s) { Ok((x, _)) => Out::Ok(x.entries.len()), Err(_) => Out::Err }, l)
        }
        "cmap" => {
            let cmap = need!(bytes(1));
            let text = need!(bytes(2));
            let l = cmap.len() + text.len();
            let mut doc = Document::with_version("1.5");
            let sid = doc.add_object(Object::Stream(Stream {
                dict: Dictionary::new(),
                content: cmap,
                allows_compression: false,
                start_position: None,
            }));
            let mut font = Dictionary::new();
            font.set("Type", name("Font"));
            font.set("Subtype", name("Type0"));
            font.set("ToUnicode", Object::Reference(sid));
            go();
            let enc = match font.get_font_encoding(&doc) {
                Ok(e) => e,
                Err(_) => return (Out::Err, l),
            };
            if !matches!(enc, Encoding::UnicodeMapEncoding(_)) {
                return (Out::Bad, l);
            }
            (match Document::decode_text(&enc, &text) { Ok(s) => Out::Ok(s.encode_utf16().count()), Err(_) => Out::Err }, l)
        }
        "textstr" => {
            let b = need!(bytes(1));
            let l = b.len();
            let o = Object::String(b, StringFormat::Literal);
            go();
            (match lopdf::decode_text_string(&o) { Ok(s) => Out::Ok(s.chars().count()), Err(_) => Out::Err }, l)
        }
        "load" | "loadm" => {
            let b = need!(bytes(1));
            let l = b.len();
            go();
            (match Document::load_mem(&b) { Ok(d) => Out::Ok(d.objects.len()), Err(_) => Out::Err }, l)
        }
        "loadtext" => {
            // load, then the text of every page (get_font_encoding + decode_text through the page's fonts)
            let b = need!(bytes(1));
            let l = b.len();
            go();
            let d = match Document::load_mem(&b) {
                Ok(d) => d,
                Err(_) => return (Out::Err, l),
            };
            let pages: Vec<u32> = d.get_pages().keys().cloned().collect();
            let mut n = 0;
            let mut failed = false;
            for p in pages {
                match d.extract_text(&[p]) {
                    Ok(t) => n += t.encode_utf16().count(),
                    Err(_) => failed = true,
                }
                for chunk in d.extract_text_chunks(&[p]) {
                    if let Ok(t) = chunk {
                        n += t.encode_utf16().count();
                    }
                }
            }
            (if failed { Out::Err } else { Out::Ok(n) }, l)
        }
        "incload" | "incloadm" => {
            let b = need!(bytes(1));
            let l = b.len();
            go();
            (match IncrementalDocument::load_from(&b[..]) {
                Ok(d) => Out::Ok(d.get_prev_documents().objects.len()),
                Err(_) => Out::Err,
            }, l)
        }
        _ => (Out::Bad, 0),
    }
}

fn meas(maxreq: usize, l: usize) -> Sx {
    Sx::tagged("m", vec![Sx::num(maxreq), Sx::num(l)])
}

fn worker() {
    std::panic::set_hook(Box::new(|_| {}));
    CAP.store(env_usize("C04_MEM_CAP", 1 << 30), Ordering::Relaxed);
    let stack = env_usize("C04_STACK", 2 << 20);
    let stdin = std::io::stdin();
    let stdout = std::io::stdout();
    for line in stdin.lock().lines() {
        let line = match line {
            Ok(l) => l,
            Err(_) => break,
        };
        let reply = match sx::parse_one(&line) {
            None => "badline".to_string(),
            Some(x) => {
                let h = std::thread::Builder::new().stack_size(stack).spawn(move || {
                    std::panic::catch_unwind(|| run_case(&x, &|| MAXREQ.store(0, Ordering::Relaxed)))
                });
                let joined = h.expect("spawn").join();
                let m = MAXREQ.load(Ordering::Relaxed);
                match joined {
                    Ok(Ok((Out::Ok(n), l))) => Sx::tagged("r", vec![Sx::tagged("ok", vec![Sx::num(n)]), meas(m, l)]).print(),
                    Ok(Ok((Out::Err, l))) => Sx::tagged("r", vec![Sx::tagged("err", vec![]), meas(m, l)]).print(),
                    Ok(Ok((Out::Bad, _))) => "badcase".to_string(),
                    Ok(Err(e)) | Err(e) => {
                        let msg = if let Some(s) = e.downcast_ref::<&str>() {
                            s.to_string()
                        } else if let Some(s) = e.downcast_ref::<String>() {
                            s.clone()
                        } else {
                            "?".to_string()
                        };
                        format!("(r (panic) (m {} 0))\t{}", m, msg.replace('\n', " ").replace('\t', " "))
                    }
                }
            }
        };
        let mut o = stdout.lock();
        let _ = writeln!(o, "{}", reply);
        let _ = o.flush();
    }
}

// ------------------------------------------------------------------------------------------------
// parent side
// ------------------------------------------------------------------------------------------------
struct Kid {
    child: Child,
    stdin: ChildStdin,
    rx: Receiver<String>,
    err: Arc<Mutex<Vec<u8>>>,
}

fn spawn_kid() -> Kid {
    let exe = std::env::current_exe().expect("current_exe");
    let mut child = Command::new(exe)
        .arg("--worker")
        .stdin(Stdio::piped())
        .stdout(Stdio::piped())
        .stderr(Stdio::piped())
        .spawn()
        .expect("spawn worker");
    let stdin = child.stdin.take().unwrap();
    let stdout = child.stdout.take().unwrap();
    let stderr = child.stderr.take().unwrap();
    let (tx, rx) = channel();
    std::thread::spawn(move || {
        for l in BufReader::new(stdout).lines() {
            match l {
                Ok(l) => {
                    if tx.send(l).is_err() {
                        break;
                    }
                }
                Err(_) => break,
            }
        }
    });
    let err = Arc::new(Mutex::new(Vec::new()));
    let err2 = err.clone();
    std::thread::spawn(move || {
        let mut r = BufReader::new(stderr);
        let mut buf = [0u8; 1024];
        loop {
            match std::io::Read::read(&mut r, &mut buf) {
                Ok(0) | Err(_) => break,
                Ok(n) => {
                    let mut e = err2.lock().unwrap();
                    e.extend_from_slice(&buf[..n]);
                    let len = e.len();
                    if len > 4096 {
                        e.drain(..len - 4096);
                    }
                }
            }
        }
    });
    Kid { child, stdin, rx, err }
}

/// the allocation bound the direct evaluation uses: K * L + C, K and C per entry point (see notes/C04.md).
/// Entry points that can reach LZWDecode get weezl's fixed 16 MiB stream buffer (weezl::STREAM_BUF_SIZE = 1 << 24,
/// allocated for every LZW stream whatever its size) on top of the 1 MiB of slack.
fn alloc_bound(kind: &str, l: usize) -> usize {
    let (k, c): (usize, usize) = match kind {
        // deflate expands by at most 1032:1, Vec doubling by 2
        "stream" | "load" | "loadm" | "loadtext" | "incload" | "incloadm" | "objstm" | "xrefstm" => (4096, (1 << 20) + (1 << 24)),
        "pred" => (4096, 1 << 20),
        _ => (64, 1 << 20),
    };
    k.saturating_mul(l).saturating_add(c)
}

fn main() {
    if std::env::args().any(|a| a == "--worker") {
        worker();
        return;
    }
    let timeout = Duration::from_millis(env_usize("C04_TIMEOUT_MS", 5000) as u64);
    let stdin = std::io::stdin();
    let stdout = std::io::stdout();
    let mut out = std::io::BufWriter::new(stdout.lock());
    let mut kid: Option<Kid> = None;
    for line in stdin.lock().lines() {
        let line = line.expect("stdin");
        if line.trim().is_empty() {
            continue;
        }
        let kind = sx::parse_one(&line)
            .and_then(|x| x.args().first().and_then(|k| k.as_atom().map(|k| String::from_utf8_lossy(k).to_string())))
            .unwrap_or_default();
        if kid.is_none() {
            kid = Some(spawn_kid());
        }
        let mut got = {
            let k = kid.as_mut().unwrap();
            let sent = writeln!(k.stdin, "{}", line).and_then(|_| k.stdin.flush());
            if sent.is_err() { Err(RecvTimeoutError::Disconnected) } else { k.rx.recv_timeout(timeout) }
        };
        if let Err(RecvTimeoutError::Timeout) = got {
            // a loaded machine can delay even a trivial case: before calling it a hang, run the case once more in a
            // fresh worker with four times the limit (a real hang costs 5 x the limit, a false alarm costs a verdict)
            {
                let k = kid.as_mut().unwrap();
                let _ = k.child.kill();
                let _ = k.child.wait();
            }
            kid = Some(spawn_kid());
            let k = kid.as_mut().unwrap();
            let sent = writeln!(k.stdin, "{}", line).and_then(|_| k.stdin.flush());
            got = if sent.is_err() { Err(RecvTimeoutError::Disconnected) } else { k.rx.recv_timeout(timeout * 4) };
        }
        let k = kid.as_mut().unwrap();
        let (res, verdict) = match got {
            Ok(reply) => {
                if let Some((r, msg)) = reply.split_once('\t') {
                    // panic: "<sx>\t<message>"
                    (r.to_string(), format!("FAIL panic: {}", if msg.is_empty() { "?" } else { msg }))
                } else if reply == "badcase" || reply == "badline" {
                    (reply, "skip".to_string())
                } else {
                    // (r <class> (m MAXREQ L))
                    let v = match sx::parse_one(&reply) {
                        Some(x) => {
                            let m = x.args().get(1).map(|m| m.args().to_vec()).unwrap_or_default();
                            let maxreq = m.first().and_then(|v| v.as_u64()).unwrap_or(0) as usize;
                            let l = m.get(1).and_then(|v| v.as_u64()).unwrap_or(0) as usize;
                            if maxreq > alloc_bound(&kind, l) {
                                format!("FAIL alloc: a single request of {} bytes for {} input bytes", maxreq, l)
                            } else {
                                "ok".to_string()
                            }
                        }
                        None => "FAIL unreadable worker reply".to_string(),
                    };
                    (reply, v)
                }
            }
            Err(RecvTimeoutError::Timeout) => {
                let _ = k.child.kill();
                let _ = k.child.wait();
                kid = None;
                ("(r (timeout) (m 0 0))".to_string(), format!("FAIL timeout: no answer within {} ms", timeout.as_millis()))
            }
            Err(RecvTimeoutError::Disconnected) => {
                let status = k.child.wait().ok();
                std::thread::sleep(Duration::from_millis(20));
                let e = String::from_utf8_lossy(&k.err.lock().unwrap()).to_string();
                let why = if e.contains("memory allocation of") || e.contains("capacity overflow") {
                    "alloc".to_string()
                } else if e.contains("overflowed its stack") {
                    "stack".to_string()
                } else {
                    #[cfg(unix)]
                    {
                        use std::os::unix::process::ExitStatusExt;
                        match status.and_then(|s| s.signal()) {
                            Some(s) => format!("sig{}", s),
                            None => format!("exit{}", status.and_then(|s| s.code()).unwrap_or(-1)),
                        }
                    }
                    #[cfg(not(unix))]
                    {
                        format!("exit{}", status.and_then(|s| s.code()).unwrap_or(-1))
                    }
                };
                kid = None;
                let tail: String = e.lines().last().unwrap_or("").chars().take(160).collect();
                (format!("(r (abort {}) (m 0 0))", why), format!("FAIL abort ({}): {}", why, tail))
            }
        };
        writeln!(out, "{} ||| {}", res, verdict).unwrap();
        out.flush().unwrap();
    }
    if let Some(mut k) = kid {
        drop(k.stdin);
        let _ = k.child.wait();
    }
}
