//! C19: saving reports sink failures and ignores sink chunking.
//! Case: (case (cfg table|stream plain|inc) <doc> <prev xHEX> <full> <cut> (chunks n...) <job> [(pad (id len seed)...)])
//!   full = xHEX or (f xHEX xHEX ...) (concatenation; the model's parser is quadratic in the length of an atom)
//!   pad  = stream objects (id 0) of len pseudo-random printable bytes added to <doc> (kept out of the case text for the same reason)
//!   job ::= (ref)                                     -> (ref <rc> <full> <state> (ids n...) <cut> (sizes n...) <top>)   [generation phase only]
//!                                                        sizes = the write_all buffers the save path issues, measured with a recording sink
//!                                                        top = largest object number (plain) or `-` (incremental)
//!         | (one call|pos (script r...))              -> (res <rc> <delivered> <state> <resave same bytes 0/1>)
//!         | (sweep (script r...) <hard> lo hi step)   -> (sweep (<rc> <delivered length> <max_id> <Size> <resave same>) ...)
//!           for p = lo, lo+step, ... <= hi: the positional sink that follows the soft script for its first p bytes, then
//!           answers <hard> (any r; ONE failure and healthy afterwards, or a failure for ever when it is `(st r)`)
//!         | (path file|dir|full|(limit p) (sizes n...)) -> (pres <rc> <file content> <state> <resave same bytes 0/1>)
//!         | (psweep (sizes n...) (at p...))           -> (psweep (<rc> <file length> <max_id> <Size> <resave same>) ...)
//!           the REAL Document::save(path) / IncrementalDocument::save(path): a healthy temporary file; a path that is a
//!           directory (File::create fails); /dev/full (every write fails with ENOSPC); a temporary file under
//!           RLIMIT_FSIZE = p (the kernel takes p bytes -- with a short write at the boundary -- and fails every later
//!           write with EFBIG).  `sizes` is read by the model only.  The document state is printed as `?` when it depends
//!           on when the BufWriter flushed (failed save, file created, file shorter than the bytes written before the
//!           mutation point; Props C19_save_path_residue); it is then only checked to be one of the two allowed states.
//!         | (onelen call|pos (script r...))           -> (reslen (<rc> <delivered length> <max_id> <Size> <resave same>))   [big outputs]
//!         | (sweepat (script r...) (tails (t r...) ...) (at p...))
//!                                                     -> (sweepat (<rc> <delivered length> <max_id> <Size> <resave same>) ...)
//!           for every listed p (outer loop) and every tail (inner loop): the positional sink that follows the soft script for
//!           its first p bytes and then gives the answers of the tail (healthy afterwards, unless the tail ends in `(st r)`)
//!   cfg carries, after the two mode words, the state before the save (max_id, trailer, written ids) for the model.
//!   r ::= (a k) | i | z | (f kind) | (rep n r) = r n times | (st r) = the hard answer r at this and EVERY later call
//! A save that does not come back is a violation ("saving returns an error").  The scripted sink panics when the writer
//! keeps calling it after STALL_LIMIT consecutive answers without progress (Ok(0), Interrupted, errors); the panic is caught
//! around that save and reported as `FAIL ... save_to did not return: ...` (row `(hang)`), any other panic below save_to as
//! `FAIL ... panic in save_to` (row `(panic)`); the remaining rows of the case are still run.  Every case runs in a worker
//! thread that tells the driver thread which save it is in: when one takes more than SAVE_TIMEOUT_S seconds (a loop that
//! does not even call the sink) the driver reports `FAIL <that save> did not return within .. s` (result `(hang)`), leaves
//! the thread behind and goes on with the next case.
//! The sinks implement std::io::Write from the script (call-driven: one answer per `write` call;
//! positional: `(a k)` = the next k bytes are accepted in however many calls that takes) and are
//! healthy once the script is used up.  The REAL Document::save_to / IncrementalDocument::save_to
//! is called.  Verdict = the property evaluated directly:
//!   FAIL when save returns Ok but the sink does not hold every byte of the reference output,
//!   when the sink answered a hard failure and save returned Ok (or another error kind),
//!   when save returns an error although the sink never failed,
//!   when the delivered bytes are not a prefix of the reference output,
//!   when a re-save of the same document object to a healthy sink fails or does not load back to
//!   the content the reference output loads to;
//!   when a save leaves the document in a state that is neither the original nor that of a successful save (plain saves: up to
//!   the raise of max_id to the largest object number; IncrementalDocument: new_document's max_id / trailer exactly the original
//!   or those of a successful save), or changes anything else: version, binary mark, objects; for an IncrementalDocument the
//!   previous bytes (`get_prev_documents_bytes()`) or the previous document;
//!   for save(path): FAIL when it returns Ok but the file does not hold the complete output (or the device
//!   refused a write), when it returns an error although the device took everything, when the error is not the
//!   device's, when the file content is not a prefix of the complete output; the same re-save check follows.
use lopdf::xref::XrefType;
use lopdf::{Dictionary, Document, IncrementalDocument, Object};
use lvh::conv::*;
use lvh::sx::Sx;
use std::io::{Error, ErrorKind, Write};

#[derive(Clone, Debug)]
enum Resp {
    Accept(u64),
    Interrupted,
    Zero,
    Fail(ErrorKind),
    /// the hard answer inside, at this and every later call (the script never gets past it)
    Sticky(Box<Resp>),
}

/// a writer that is still calling `write` after this many consecutive answers without progress is not going to stop
const STALL_LIMIT: usize = 10_000;
/// seconds the driver waits for one save (+ re-save) before it reports that it did not return
const SAVE_TIMEOUT_S: u64 = 30;
/// longest `(rep n r)` accepted (keeps every legitimate burst far below STALL_LIMIT)
const REP_MAX: u64 = 4_000;

const KINDS: [(&str, ErrorKind); 12] = [
    ("other", ErrorKind::Other),
    ("brokenpipe", ErrorKind::BrokenPipe),
    ("denied", ErrorKind::PermissionDenied),
    ("wouldblock", ErrorKind::WouldBlock),
    ("timedout", ErrorKind::TimedOut),
    ("writezero", ErrorKind::WriteZero),
    ("eof", ErrorKind::UnexpectedEof),
    ("oom", ErrorKind::OutOfMemory),
    ("invaliddata", ErrorKind::InvalidData),
    ("storagefull", ErrorKind::StorageFull),
    ("isadir", ErrorKind::IsADirectory),
    ("filetoolarge", ErrorKind::FileTooLarge),
];

fn kind_of(x: &Sx) -> Option<ErrorKind> {
    KINDS.iter().find(|(n, _)| x.is_id(n)).map(|(_, k)| *k)
}
fn kind_sx(k: ErrorKind) -> Sx {
    match KINDS.iter().find(|(_, kk)| *kk == k) {
        Some((n, _)) => Sx::id(n),
        None => Sx::id(&format!("kind-{:?}", k)),
    }
}
fn rc_sx(r: &std::io::Result<()>) -> Sx {
    match r {
        Ok(()) => Sx::id("ok"),
        Err(e) => Sx::L(vec![Sx::id("err"), kind_sx(e.kind())]),
    }
}

fn is_hard(r: &Resp) -> bool {
    matches!(r, Resp::Zero | Resp::Fail(_) | Resp::Accept(0))
}

/// one script item -> the answers it stands for (same function as resps_of_sx in coq/Run/RunC19.v)
fn resps_of(x: &Sx) -> Option<Vec<Resp>> {
    if x.is_id("i") {
        return Some(vec![Resp::Interrupted]);
    }
    if x.is_id("z") {
        return Some(vec![Resp::Zero]);
    }
    let a = x.args();
    match x.tag()? {
        "a" if a.len() == 1 => Some(vec![Resp::Accept(a[0].as_u64()?)]),
        "f" if a.len() == 1 => Some(vec![Resp::Fail(kind_of(&a[0])?)]),
        "rep" if a.len() == 2 => {
            let n = a[0].as_u64()?;
            let inner = resps_of(&a[1])?;
            if n > REP_MAX || inner.len() != 1 || matches!(inner[0], Resp::Sticky(_)) {
                return None;
            }
            Some(vec![inner[0].clone(); n as usize])
        }
        "st" if a.len() == 1 => {
            let inner = resps_of(&a[0])?;
            if inner.len() != 1 || !is_hard(&inner[0]) {
                return None;
            }
            Some(vec![Resp::Sticky(Box::new(inner[0].clone()))])
        }
        _ => None,
    }
}
fn items_of(items: &[Sx]) -> Option<Vec<Resp>> {
    let mut out = vec![];
    for x in items {
        out.extend(resps_of(x)?);
    }
    Some(out)
}
fn script_of(x: &Sx) -> Option<Vec<Resp>> {
    if x.tag()? != "script" {
        return None;
    }
    items_of(x.args())
}

/// the soft script cut down to quota p (same function as cut_quota in coq/Run/RunC19.v)
fn cut_quota(s: &[Resp], mut p: u64) -> Vec<Resp> {
    let mut out = vec![];
    for r in s {
        if p == 0 {
            break;
        }
        match r {
            Resp::Accept(k) => {
                if *k < p {
                    out.push(Resp::Accept(*k));
                    p -= *k;
                } else {
                    out.push(Resp::Accept(p));
                    break;
                }
            }
            other => out.push(other.clone()),
        }
    }
    out
}

struct ScriptSink {
    script: Vec<Resp>,
    positional: bool,
    idx: usize,
    rem: Option<u64>,
    data: Vec<u8>,
    /// kind of the first hard answer given (WriteZero for Ok(0))
    hard: Option<ErrorKind>,
    writes_after_hard: usize,
    flushes: usize,
    /// consecutive `write` calls answered without taking a byte
    stall: usize,
}

impl ScriptSink {
    fn new(script: Vec<Resp>, positional: bool) -> Self {
        ScriptSink { script, positional, idx: 0, rem: None, data: vec![], hard: None, writes_after_hard: 0, flushes: 0, stall: 0 }
    }
    fn note_hard(&mut self, k: ErrorKind) {
        if self.hard.is_none() {
            self.hard = Some(k);
        }
    }
}

impl Write for ScriptSink {
    fn write(&mut self, buf: &[u8]) -> std::io::Result<usize> {
        let r = self.answer(buf);
        match r {
            Ok(n) if n > 0 => self.stall = 0,
            _ => {
                // no progress: an empty buffer, Ok(0), Interrupted or an error.  A correct writer stops after the first
                // Ok(0) / error and retries Interrupted only as often as the script says it
                self.stall += 1;
                if self.stall > STALL_LIMIT {
                    panic!(
                        "c19 sink: the writer is still offering {} byte(s) at offset {} after {} consecutive answers without progress (last answer {:?})",
                        buf.len(),
                        self.data.len(),
                        STALL_LIMIT,
                        r.as_ref().map_err(|e| e.kind())
                    );
                }
            }
        }
        r
    }
    fn flush(&mut self) -> std::io::Result<()> {
        self.flushes += 1;
        Ok(())
    }
}

impl ScriptSink {
    fn answer(&mut self, buf: &[u8]) -> std::io::Result<usize> {
        if buf.is_empty() {
            return Ok(0);
        }
        if self.hard.is_some() {
            self.writes_after_hard += 1;
        }
        let len = buf.len() as u64;
        let (cur, sticky) = match self.script.get(self.idx).cloned() {
            Some(Resp::Sticky(r)) => (Some(*r), true),
            other => (other, false),
        };
        let adv = if sticky { 0 } else { 1 };
        match cur {
            None => {
                self.data.extend_from_slice(buf);
                Ok(buf.len())
            }
            Some(Resp::Accept(k)) => {
                if k == 0 {
                    self.idx += adv;
                    self.note_hard(ErrorKind::WriteZero);
                    return Ok(0);
                }
                if self.positional {
                    let rem = self.rem.unwrap_or(k);
                    if rem <= len {
                        let n = rem as usize;
                        self.data.extend_from_slice(&buf[..n]);
                        self.idx += 1;
                        self.rem = None;
                        Ok(n)
                    } else {
                        self.data.extend_from_slice(buf);
                        self.rem = Some(rem - len);
                        Ok(buf.len())
                    }
                } else {
                    let n = k.min(len) as usize;
                    self.data.extend_from_slice(&buf[..n]);
                    self.idx += 1;
                    Ok(n)
                }
            }
            Some(Resp::Interrupted) => {
                self.idx += 1;
                Err(Error::new(ErrorKind::Interrupted, "c19 sink: interrupted"))
            }
            Some(Resp::Zero) => {
                self.idx += adv;
                self.note_hard(ErrorKind::WriteZero);
                Ok(0)
            }
            Some(Resp::Fail(k)) => {
                self.idx += adv;
                self.note_hard(k);
                Err(Error::new(k, "c19 sink: hard failure"))
            }
            // (st r) holds hard answers only (resps_of) and was unwrapped above
            Some(Resp::Sticky(_)) => unreachable!("nested sticky answer"),
        }
    }
}

#[derive(Clone)]
enum Target {
    Plain(Document),
    Inc(IncrementalDocument),
}

impl Target {
    fn save_to<W: Write>(&mut self, w: &mut W) -> std::io::Result<()> {
        match self {
            Target::Plain(d) => d.save_to(w),
            Target::Inc(d) => d.save_to(w),
        }
    }
    fn save_path(&mut self, p: &std::path::Path) -> std::io::Result<()> {
        match self {
            Target::Plain(d) => d.save(p).map(|_| ()),
            Target::Inc(d) => d.save(p).map(|_| ()),
        }
    }
    fn doc(&self) -> &Document {
        match self {
            Target::Plain(d) => d,
            Target::Inc(d) => &d.new_document,
        }
    }
    fn state_sx(&self) -> Sx {
        Sx::tagged("state", vec![Sx::num(self.doc().max_id), dict_to_sx(&self.doc().trailer)])
    }
}

fn bytes_of_parts(x: &Sx) -> Option<Vec<u8>> {
    if x.tag() == Some("f") {
        let mut out = vec![];
        for p in x.args() {
            out.extend_from_slice(&p.as_bytes()?);
        }
        Some(out)
    } else {
        x.as_bytes()
    }
}

const PAD_ALPHABET: &[u8] = b"abcdefghijklmnopqrstuvwxyz0123456789 ()<>[]/%\\\n\r\x00\xff";

fn pad_content(len: u64, seed: u64) -> Vec<u8> {
    let mut st = seed.wrapping_mul(6364136223846793005).wrapping_add(1442695040888963407);
    (0..len)
        .map(|_| {
            st = st.wrapping_mul(6364136223846793005).wrapping_add(1442695040888963407);
            PAD_ALPHABET[((st >> 33) % PAD_ALPHABET.len() as u64) as usize]
        })
        .collect()
}

fn build(cfg: &Sx, doc: &Sx, prev: &[u8], pad: Option<&Sx>) -> Option<Target> {
    let a = cfg.args();
    let stream = a.first()?.is_id("stream");
    let inc = a.get(1)?.is_id("inc");
    let mut d = doc_of_sx(doc)?;
    if let Some(pad) = pad {
        for e in pad.args() {
            let (id, len, seed) = match e {
                Sx::L(v) if v.len() == 3 => (v[0].as_u64()?, v[1].as_u64()?, v[2].as_u64()?),
                _ => return None,
            };
            let content = pad_content(len, seed);
            d.objects.insert((id as u32, 0), Object::Stream(lopdf::Stream::new(Dictionary::new(), content)));
        }
    }
    if !inc {
        d.reference_table.cross_reference_type =
            if stream { XrefType::CrossReferenceStream } else { XrefType::CrossReferenceTable };
        Some(Target::Plain(d))
    } else {
        let prev_doc = Document::load_mem(prev).ok()?;
        let mut t = IncrementalDocument::create_from(prev.to_vec(), prev_doc);
        t.new_document.version = d.version.clone();
        t.new_document.binary_mark = d.binary_mark.clone();
        t.new_document.max_id = t.new_document.max_id.max(d.max_id);
        for (k, v) in d.trailer.iter() {
            t.new_document.trailer.set(k.clone(), v.clone());
        }
        t.new_document.objects = d.objects;
        Some(Target::Inc(t))
    }
}

/// what a file "loads to", without the bookkeeping a save regenerates
fn content_of(bytes: &[u8]) -> Result<Sx, String> {
    let d = Document::load_mem(bytes).map_err(|e| format!("{:?}", e).split('(').next().unwrap_or("").to_string())?;
    let skip = |o: &Object| {
        o.type_name()
            .map(|n| [b"ObjStm".as_slice(), b"XRef".as_slice(), b"Linearized".as_slice()].contains(&n))
            .unwrap_or(false)
    };
    let mut tr = Dictionary::new();
    for (k, v) in d.trailer.iter() {
        let book: [&[u8]; 6] = [b"Size", b"W", b"Index", b"Length", b"Filter", b"Prev"];
        if book.contains(&k.as_slice()) || (k.as_slice() == b"Type" && v.as_name().ok() == Some(b"XRef".as_slice())) {
            continue;
        }
        tr.set(k.clone(), v.clone());
    }
    Ok(Sx::L(vec![
        Sx::bytes(d.version.as_bytes()),
        dict_to_sx(&tr),
        Sx::L(d.objects.iter().filter(|(_, o)| !skip(o)).map(|(id, o)| Sx::L(vec![oid_to_sx(*id), obj_to_sx(o)])).collect()),
    ]))
}

/// why a save gave no result
enum Lost {
    /// it panicked: the sink's stall guard (`stalled`) or anything else below save_to
    Panic { msg: String, stalled: bool },
}

impl Lost {
    fn verdict(&self, what: &str) -> String {
        match self {
            Lost::Panic { msg, stalled: true } => format!("{} did not return: {}", what, msg),
            Lost::Panic { msg, stalled: false } => format!("panic in {}: {}", what, msg.replace('\n', " ")),
        }
    }
    fn sx(&self) -> Sx {
        match self {
            Lost::Panic { stalled: true, .. } => Sx::L(vec![Sx::id("hang")]),
            Lost::Panic { .. } => Sx::L(vec![Sx::id("panic")]),
        }
    }
}

/// what the worker thread of a case is doing: the driver thread reads it to tell a save that never returns
struct Watch {
    cur: std::sync::Mutex<Option<(std::time::Instant, String)>>,
}

impl Watch {
    fn new() -> Self {
        Watch { cur: std::sync::Mutex::new(None) }
    }
    fn set(&self, v: Option<(std::time::Instant, String)>) {
        *self.cur.lock().unwrap_or_else(|e| e.into_inner()) = v;
    }
    /// the save that has been running for more than SAVE_TIMEOUT_S seconds, if any
    fn stuck(&self) -> Option<String> {
        match &*self.cur.lock().unwrap_or_else(|e| e.into_inner()) {
            Some((t, what)) if t.elapsed().as_secs() >= SAVE_TIMEOUT_S => Some(what.clone()),
            _ => None,
        }
    }
}

/// run one save: announced to the watchdog, panics caught (a panic of the sink's stall guard = the writer would
/// never have stopped)
fn caught<T>(w: &Watch, what: &str, f: impl FnOnce() -> T) -> Result<T, Lost> {
    w.set(Some((std::time::Instant::now(), what.to_string())));
    let r = std::panic::catch_unwind(std::panic::AssertUnwindSafe(f));
    w.set(None);
    r.map_err(|e| {
        let msg = if let Some(s) = e.downcast_ref::<&str>() {
            s.to_string()
        } else if let Some(s) = e.downcast_ref::<String>() {
            s.clone()
        } else {
            "?".to_string()
        };
        Lost::Panic { stalled: msg.starts_with("c19 sink: the writer is still offering"), msg }
    })
}

struct Outcome {
    /// the save was aborted by the sink's stall guard (or panicked): printed instead of a result row
    lost: Option<Sx>,
    /// save(path) only: false when the document state after the save depends on when the BufWriter flushed
    state_known: bool,
    rc: Sx,
    delivered: Vec<u8>,
    state: Sx,
    max_id: u32,
    size: i64,
    resave_same: bool,
    verdict: Option<String>,
}

/// what the reference pass (perfect sink) established for this document
struct Reference {
    /// content the complete output loads to (None: the document breaks lopdf's max_id invariant, not compared)
    content: Option<Result<Sx, String>>,
    /// document state before the save, the same with max_id raised to the largest object number (what a plain save
    /// starts with), and after a successful save
    before: Sx,
    before_raised: Sx,
    after_ok: Sx,
    /// bytes written before the save path mutates the document
    cut: usize,
}

/// C19_failed_save_residue / C19_save_path_residue evaluated on the implementation: a save, failed or not, leaves the
/// document either as it was or exactly as a successful save leaves it
fn residue_verdict(rf: &Reference, after: &Sx, ok: bool) -> Option<String> {
    if ok {
        if *after != rf.after_ok {
            return Some("a successful save left the document in another state than the reference save".into());
        }
    } else if *after != rf.before && *after != rf.before_raised && *after != rf.after_ok {
        return Some(format!(
            "a failed save left the document in a state that is neither the original nor that of a successful save: {}",
            after.print()
        ));
    }
    None
}

/// what NO save may touch (Model/SaveState.v: a save changes max_id and the trailer of the document it writes, nothing else;
/// ComposeSink.with_state / ComposeSinkInc.with_inc_state): version, binary mark and objects of the document; for an
/// IncrementalDocument also the previous bytes (`get_prev_documents_bytes()`) and the previous document, which
/// save_internal only reads (C19_incremental_failed_save_residue: `is_prev st' = is_prev st`)
fn frame_verdict(base: &Target, t: &Target, ok: bool) -> Option<String> {
    let how = if ok { "a successful save" } else { "a failed save" };
    if let (Target::Inc(b), Target::Inc(a)) = (base, t) {
        if a.get_prev_documents_bytes() != b.get_prev_documents_bytes() {
            return Some(format!(
                "{} changed the previous bytes of the IncrementalDocument ({} -> {} bytes)",
                how,
                b.get_prev_documents_bytes().len(),
                a.get_prev_documents_bytes().len()
            ));
        }
        let (pa, pb) = (a.get_prev_documents(), b.get_prev_documents());
        if pa.max_id != pb.max_id
            || pa.trailer != pb.trailer
            || pa.version != pb.version
            || pa.binary_mark != pb.binary_mark
            || pa.xref_start != pb.xref_start
            || std::mem::discriminant(&pa.reference_table.cross_reference_type) != std::mem::discriminant(&pb.reference_table.cross_reference_type)
            || pa.objects != pb.objects
        {
            return Some(format!("{} changed the previous document of the IncrementalDocument", how));
        }
    }
    let (da, db) = (t.doc(), base.doc());
    if da.version != db.version || da.binary_mark != db.binary_mark {
        return Some(format!("{} changed the version or the binary mark of the document", how));
    }
    if da.objects != db.objects {
        return Some(format!("{} changed the objects of the document ({} -> {} objects)", how, db.objects.len(), da.objects.len()));
    }
    None
}

/// (<rc> <delivered length> <max_id> <Size> <resave same>), or (hang) / (panic)
fn row_sx(o: &Outcome) -> Sx {
    match &o.lost {
        Some(l) => l.clone(),
        None => Sx::L(vec![o.rc.clone(), Sx::num(o.delivered.len()), Sx::num(o.max_id), Sx::num(o.size), Sx::boolean(o.resave_same)]),
    }
}

fn lost_outcome(l: &Lost, what: &str) -> Outcome {
    Outcome {
        lost: Some(l.sx()),
        state_known: true,
        rc: Sx::id("-"),
        delivered: vec![],
        state: Sx::id("-"),
        max_id: 0,
        size: -1,
        resave_same: false,
        verdict: Some(l.verdict(what)),
    }
}

/// the first violation found in a run
struct FirstFail(Option<String>);
impl FirstFail {
    fn fail(&mut self, s: String) {
        if self.0.is_none() {
            self.0 = Some(s);
        }
    }
}

fn one_run(w: &Watch, at: &str, base: &Target, full: &[u8], rf: &Reference, script: Vec<Resp>, positional: bool) -> Outcome {
    let ref_content = &rf.content;
    let mut t = base.clone();
    let mut sink = ScriptSink::new(script, positional);
    // the save under test, then a later save of the same document object to a healthy sink
    let r = match caught(w, &format!("save_to{}", at), || t.save_to(&mut sink)) {
        Ok(r) => r,
        Err(l) => return lost_outcome(&l, "save_to"),
    };
    let after = t.state_sx();
    let max_id = t.doc().max_id;
    let size = t.doc().trailer.get(b"Size").ok().and_then(|o| o.as_i64().ok()).unwrap_or(-1);
    let mut first = FirstFail(None);
    let is_prefix = sink.data.len() <= full.len() && full[..sink.data.len()] == sink.data[..];
    if !is_prefix {
        first.fail(format!(
            "delivered bytes ({}) are not a prefix of the complete output ({}), result {:?}",
            sink.data.len(),
            full.len(),
            r.as_ref().map_err(|e| e.kind())
        ));
    }
    match (&r, sink.hard) {
        (Ok(()), Some(k)) => first.fail(format!("sink failed with {:?} at byte {} but save returned Ok", k, sink.data.len())),
        (Ok(()), None) => {
            if sink.data != full {
                first.fail(format!("save returned Ok but the sink holds {} of {} bytes", sink.data.len(), full.len()));
            }
        }
        (Err(e), Some(k)) => {
            if e.kind() != k {
                first.fail(format!("sink failed with {:?} but save reported {:?}", k, e.kind()));
            }
        }
        (Err(e), None) => first.fail(format!("sink never failed but save returned Err({:?})", e.kind())),
    }
    if let Some(v) = residue_verdict(rf, &after, r.is_ok()) {
        first.fail(v);
    }
    if let Some(v) = frame_verdict(base, &t, r.is_ok()) {
        first.fail(v);
    }
    // a later save of the same document object to a healthy sink
    let mut out2: Vec<u8> = vec![];
    let r2 = match caught(w, &format!("the re-save to a healthy sink after save_to{}", at), || t.save_to(&mut out2)) {
        Ok(v) => v,
        Err(l) => {
            let mut o = lost_outcome(&l, "the re-save to a healthy sink");
            if let Some(v) = first.0 {
                o.verdict = Some(v);
            }
            return o;
        }
    };
    let resave_same = r2.is_ok() && out2 == full;
    match r2 {
        Err(e) => first.fail(format!("re-save to a healthy sink failed: {:?}", e.kind())),
        Ok(()) => {
            if ref_content.is_some() && Some(content_of(&out2)) != *ref_content {
                first.fail(format!(
                    "re-save after {} does not load back to the same content",
                    if r.is_ok() { "a successful save" } else { "a failed save" }
                ));
            }
        }
    }
    Outcome { lost: None, state_known: true, rc: rc_sx(&r), delivered: sink.data, state: after, max_id, size, resave_same, verdict: first.0 }
}

// ---------------------------------------------------------------------------------------------
// save(path): real files whose device fails
// ---------------------------------------------------------------------------------------------
/// a perfect sink that records the length of every `write` it receives: with it each `write_all` of the
/// save path arrives as exactly one `write`, so the lengths are the buffers of the write_all calls
struct RecordingSink {
    data: Vec<u8>,
    sizes: Vec<usize>,
}
impl Write for RecordingSink {
    fn write(&mut self, buf: &[u8]) -> std::io::Result<usize> {
        self.sizes.push(buf.len());
        self.data.extend_from_slice(buf);
        Ok(buf.len())
    }
    fn flush(&mut self) -> std::io::Result<()> {
        Ok(())
    }
}

#[cfg(target_os = "linux")]
mod fsize {
    #[repr(C)]
    struct Rlimit {
        cur: u64,
        max: u64,
    }
    extern "C" {
        fn getrlimit(resource: i32, rlim: *mut Rlimit) -> i32;
        fn setrlimit(resource: i32, rlim: *const Rlimit) -> i32;
        fn signal(signum: i32, handler: usize) -> usize;
    }
    const RLIMIT_FSIZE: i32 = 1;
    const SIGXFSZ: i32 = 25;
    const SIG_IGN: usize = 1;
    /// soft RLIMIT_FSIZE = p while the guard lives (SIGXFSZ ignored, so that the write returns EFBIG)
    pub struct Guard {
        old_cur: u64,
        max: u64,
    }
    impl Guard {
        pub fn set(p: u64) -> Option<Guard> {
            unsafe {
                signal(SIGXFSZ, SIG_IGN);
                let mut old = Rlimit { cur: 0, max: 0 };
                if getrlimit(RLIMIT_FSIZE, &mut old) != 0 || p > old.max {
                    return None;
                }
                let new = Rlimit { cur: p, max: old.max };
                if setrlimit(RLIMIT_FSIZE, &new) != 0 {
                    return None;
                }
                Some(Guard { old_cur: old.cur, max: old.max })
            }
        }
    }
    impl Drop for Guard {
        fn drop(&mut self) {
            unsafe {
                let back = Rlimit { cur: self.old_cur, max: self.max };
                setrlimit(RLIMIT_FSIZE, &back);
            }
        }
    }
}
#[cfg(not(target_os = "linux"))]
mod fsize {
    pub struct Guard;
    impl Guard {
        pub fn set(_p: u64) -> Option<Guard> {
            None
        }
    }
}

#[derive(Clone, Copy, Debug)]
enum PathTarget {
    File,
    Dir,
    Full,
    Limit(u64),
}

fn path_target_of(x: &Sx) -> Option<PathTarget> {
    if x.is_id("file") {
        return Some(PathTarget::File);
    }
    if x.is_id("dir") {
        return Some(PathTarget::Dir);
    }
    if x.is_id("full") {
        return Some(PathTarget::Full);
    }
    if x.tag()? == "limit" {
        return Some(PathTarget::Limit(x.args().first()?.as_u64()?));
    }
    None
}

fn scratch_dir() -> std::path::PathBuf {
    let d = std::env::temp_dir().join(format!("lvh-c19-{}", std::process::id()));
    let _ = std::fs::create_dir_all(&d);
    d
}

/// /dev/full present and behaving (a write fails)?
fn dev_full_ok() -> bool {
    match std::fs::OpenOptions::new().write(true).open("/dev/full") {
        Ok(mut f) => f.write(b"x").is_err(),
        Err(_) => false,
    }
}

/// Err(reason) = the environment cannot provide this device (skip)
fn path_run(w: &Watch, base: &Target, full: &[u8], rf: &Reference, target: PathTarget) -> Result<Outcome, String> {
    let ref_content = &rf.content;
    let mut t = base.clone();
    let dir = scratch_dir();
    let file = dir.join("out.pdf");
    let _ = std::fs::remove_file(&file);
    if matches!(target, PathTarget::Full) && !dev_full_ok() {
        return Err("/dev/full is missing or accepts writes".into());
    }
    // what the device will take, the error it gives afterwards
    type Saved = (std::io::Result<()>, Vec<u8>, usize, Option<ErrorKind>);
    let done = caught(w, &format!("save(path) to {:?}", target), || -> Result<Saved, String> {
        Ok(match target {
            PathTarget::File => {
                let r = t.save_path(&file);
                let c = std::fs::read(&file).unwrap_or_default();
                (r, c, usize::MAX, None)
            }
            PathTarget::Dir => {
                let r = t.save_path(&dir);
                (r, vec![], 0, Some(ErrorKind::IsADirectory))
            }
            PathTarget::Full => {
                let r = t.save_path(std::path::Path::new("/dev/full"));
                (r, vec![], 0, Some(ErrorKind::StorageFull))
            }
            PathTarget::Limit(p) => {
                let r = {
                    let _g = match fsize::Guard::set(p) {
                        Some(g) => g,
                        None => return Err("RLIMIT_FSIZE cannot be set here".into()),
                    };
                    t.save_path(&file)
                };
                let c = std::fs::read(&file).unwrap_or_default();
                (r, c, p.min(usize::MAX as u64) as usize, Some(ErrorKind::FileTooLarge))
            }
        })
    });
    let (r, content, room, dev_err): Saved = match done {
        Ok(Ok(v)) => v,
        Ok(Err(why)) => return Err(why),
        Err(l) => {
            let _ = std::fs::remove_file(&file);
            return Ok(lost_outcome(&l, "save(path)"));
        }
    };
    let _ = std::fs::remove_file(&file);
    let after = t.state_sx();
    let max_id = t.doc().max_id;
    let size = t.doc().trailer.get(b"Size").ok().and_then(|o| o.as_i64().ok()).unwrap_or(-1);
    let mut first = FirstFail(None);
    let device_failed = matches!(target, PathTarget::Dir) || room < full.len();
    let is_prefix = content.len() <= full.len() && full[..content.len()] == content[..];
    if !is_prefix {
        first.fail(format!(
            "save(path) to {:?}: the file content ({} bytes) is not a prefix of the complete output ({}), result {:?}",
            target,
            content.len(),
            full.len(),
            r.as_ref().map_err(|e| e.kind())
        ));
    }
    match (&r, device_failed) {
        (Ok(()), true) => first.fail(format!(
            "save(path) to {:?} returned Ok but the file holds {} of {} bytes (the device refused the rest)",
            target,
            content.len(),
            full.len()
        )),
        (Ok(()), false) => {
            if content != full {
                first.fail(format!("save(path) to {:?} returned Ok but the file holds {} of {} bytes", target, content.len(), full.len()));
            }
        }
        (Err(e), true) => {
            if Some(e.kind()) != dev_err {
                first.fail(format!("save(path) to {:?}: the device failed with {:?} but save reported {:?}", target, dev_err, e.kind()));
            }
            if content.len() > room {
                first.fail(format!("save(path) to {:?}: the file holds {} bytes, more than the device had room for", target, content.len()));
            }
        }
        (Err(e), false) => first.fail(format!("save(path) to {:?}: the device never failed but save returned Err({:?})", target, e.kind())),
    }
    if let Some(v) = residue_verdict(rf, &after, r.is_ok()) {
        first.fail(v);
    }
    if let Some(v) = frame_verdict(base, &t, r.is_ok()) {
        first.fail(v);
    }
    // a later save of the same document object to a healthy sink
    let mut out2: Vec<u8> = vec![];
    let r2 = match caught(w, &format!("the re-save to a healthy sink after save(path) to {:?}", target), || t.save_to(&mut out2)) {
        Ok(v) => v,
        Err(l) => {
            let mut o = lost_outcome(&l, "the re-save to a healthy sink");
            if let Some(v) = first.0 {
                o.verdict = Some(v);
            }
            return Ok(o);
        }
    };
    let resave_same = r2.is_ok() && out2 == full;
    match r2 {
        Err(e) => first.fail(format!("re-save to a healthy sink failed: {:?}", e.kind())),
        Ok(()) => {
            if ref_content.is_some() && Some(content_of(&out2)) != *ref_content {
                first.fail(format!(
                    "re-save after {} save(path) does not load back to the same content",
                    if r.is_ok() { "a successful" } else { "a failed" }
                ));
            }
        }
    }
    let state_known = r.is_ok() || matches!(target, PathTarget::Dir) || content.len() >= rf.cut;
    Ok(Outcome { lost: None, state_known, rc: rc_sx(&r), delivered: content, state: after, max_id, size, resave_same, verdict: first.0 })
}

/// one case, run in the worker thread
fn run_case(x: &Sx, w: &Watch) -> (Sx, String) {
    let a = x.args();
    if a.len() != 7 && a.len() != 8 {
        return (Sx::id("badcase"), "skip".into());
    }
    let prev = a[2].as_bytes().unwrap_or_default();
    let base = match build(&a[0], &a[1], &prev, a.get(7)) {
        Some(t) => t,
        None => return (Sx::id("badcase"), "skip".into()),
    };
    // reference output with a perfect sink
    let job = &a[6];
    let mut ref_doc = base.clone();
    let mut full: Vec<u8> = vec![];
    let r0 = match caught(w, "save_to with a perfect sink", || ref_doc.save_to(&mut full)) {
        Ok(v) => v,
        Err(l) => return (Sx::tagged("noref", vec![l.sx()]), format!("FAIL {}", l.verdict("save_to with a perfect sink"))),
    };
    if job.tag() == Some("perfect") {
        // the generator's reference pass got no output for this document: saving to a sink that takes everything must succeed
        return match &r0 {
            Ok(()) => (Sx::tagged("perfect", vec![Sx::id("ok")]), "ok".into()),
            Err(e) => (
                Sx::tagged("perfect", vec![rc_sx(&r0)]),
                format!("FAIL the sink never failed but save returned Err({:?})", e.kind()),
            ),
        };
    }
    if job.tag() == Some("ref") {
        let stream = a[0].args().first().map(|m| m.is_id("stream")).unwrap_or(false);
        let skip = |o: &Object| {
            o.type_name()
                .map(|n| [b"ObjStm".as_slice(), b"XRef".as_slice(), b"Linearized".as_slice()].contains(&n))
                .unwrap_or(false)
        };
        let ids: Vec<Sx> = base.doc().objects.iter().filter(|(_, o)| !skip(o)).map(|(id, _)| Sx::num(id.0)).collect();
        // number of bytes written before the save path mutates the document
        let cut = if stream {
            let tail = b"\nstartxref\n";
            full.windows(tail.len()).rposition(|w| w == tail).and_then(|i| {
                let rest = &full[i + tail.len()..];
                let end = rest.iter().position(|&c| c == b'\n')?;
                // startxref is relative to the file header (first "%PDF-"); the cut is a position in the delivered stream
                let hdr = full.windows(5).position(|w| w == b"%PDF-").unwrap_or(0);
                std::str::from_utf8(&rest[..end]).ok()?.parse::<usize>().ok().map(|x| x + hdr)
            })
        } else {
            let key = b"trailer\n<<";
            full.windows(key.len()).rposition(|w| w == key)
        };
        let mut rec = RecordingSink { data: vec![], sizes: vec![] };
        let mut rec_doc = base.clone();
        let r1 = match caught(w, "save_to with a recording sink", || rec_doc.save_to(&mut rec)) {
            Ok(v) => v,
            Err(l) => return (Sx::tagged("noref", vec![l.sx()]), format!("FAIL {}", l.verdict("save_to with a recording sink"))),
        };
        let sizes: Vec<Sx> = if r1.is_ok() && rec.data == full { rec.sizes.iter().map(|n| Sx::num(*n as i64)).collect() } else { vec![] };
        return (
            Sx::tagged(
                "ref",
                vec![
                    rc_sx(&r0),
                    Sx::bytes(&full),
                    base.state_sx(),
                    Sx::tagged("ids", ids),
                    Sx::num(cut.map(|c| c as i64).unwrap_or(-1)),
                    Sx::tagged("sizes", sizes),
                    // largest object number: what Document::save_internal raises max_id to (not IncrementalDocument's)
                    match &base {
                        Target::Plain(d) => d.objects.keys().next_back().map(|k| Sx::num(k.0)).unwrap_or(Sx::id("-")),
                        Target::Inc(_) => Sx::id("-"),
                    },
                ],
            ),
            "skip".into(),
        );
    }
    if r0.is_err() {
        return (Sx::tagged("noref", vec![rc_sx(&r0)]), "skip".into());
    }
    let mut verdict = "ok".to_string();
    if bytes_of_parts(&a[3]).map(|f| f != full).unwrap_or(true) {
        verdict = "FAIL the output for a perfect sink differs from the reference pass".into();
    }
    // "the same document": the content the reference output loads to.  Only meaningful when the
    // document keeps lopdf's invariant max_id >= every object number (otherwise the xref stream's
    // own object number max_id + 1 may collide with an object, which already breaks the FIRST save;
    // that is a precondition of saving (C01), not a consequence of the failed save).
    let max_id = base.doc().max_id;
    // (a plain save raises max_id itself since /repo 19ab1a6; IncrementalDocument::save does not)
    let wf = matches!(base, Target::Plain(_)) || base.doc().objects.keys().all(|(i, _)| *i <= max_id);
    let rf = Reference {
        content: if wf { Some(content_of(&full)) } else { None },
        before: base.state_sx(),
        // (IncrementalDocument::save_internal has no such raise: `top = None` in Model/SaveState.v, so a failed incremental
        // save must leave max_id itself untouched -- C19_incremental_failed_save_residue)
        before_raised: match &base {
            Target::Inc(_) => base.state_sx(),
            Target::Plain(d) => Sx::tagged(
                "state",
                vec![Sx::num(d.objects.keys().next_back().map_or(d.max_id, |k| k.0.max(d.max_id))), dict_to_sx(&d.trailer)],
            ),
        },
        after_ok: ref_doc.state_sx(),
        cut: a[4].as_u64().unwrap_or(0) as usize,
    };
    let bad = || (Sx::id("badcase"), "skip".to_string());
    match job.tag() {
        Some("one") | Some("onelen") => {
            let ja = job.args();
            let positional = ja.first().map(|s| s.is_id("pos")).unwrap_or(false);
            let script = match ja.get(1).and_then(script_of) {
                Some(s) => s,
                None => return bad(),
            };
            let o = one_run(w, "", &base, &full, &rf, script, positional);
            if let Some(v) = &o.verdict {
                verdict = format!("FAIL {}", v);
            }
            if job.tag() == Some("onelen") {
                return (Sx::tagged("reslen", vec![row_sx(&o)]), verdict);
            }
            if let Some(l) = o.lost {
                return (Sx::tagged("res", vec![l]), verdict);
            }
            (Sx::tagged("res", vec![o.rc, Sx::bytes(&o.delivered), o.state, Sx::boolean(o.resave_same)]), verdict)
        }
        Some("sweepat") => {
            let ja = job.args();
            let s = match ja.first().and_then(script_of) {
                Some(s) => s,
                None => return bad(),
            };
            let tails: Vec<Vec<Resp>> = match ja.get(1) {
                Some(ts) if ts.tag() == Some("tails") => {
                    match ts.args().iter().map(|t| if t.tag() == Some("t") { items_of(t.args()) } else { None }).collect() {
                        Some(v) => v,
                        None => return bad(),
                    }
                }
                _ => return bad(),
            };
            let ps: Vec<u64> = match ja.get(2) {
                Some(at) if at.tag() == Some("at") => match at.args().iter().map(|v| v.as_u64()).collect() {
                    Some(v) => v,
                    None => return bad(),
                },
                _ => return bad(),
            };
            let mut out = vec![];
            for p in ps {
                for (ti, tail) in tails.iter().enumerate() {
                    let mut script = cut_quota(&s, p);
                    script.extend(tail.iter().cloned());
                    let o = one_run(w, &format!(" at position {}, tail {}", p, ti), &base, &full, &rf, script, true);
                    if let Some(v) = &o.verdict {
                        if verdict == "ok" {
                            verdict = format!("FAIL at position {}, tail {}: {}", p, ti, v);
                        }
                    }
                    out.push(row_sx(&o));
                }
            }
            (Sx::tagged("sweepat", out), verdict)
        }
        Some("sweep") => {
            let ja = job.args();
            let (s, h, lo, hi, step) = match (
                ja.first().and_then(script_of),
                ja.get(1).and_then(resps_of),
                ja.get(2).and_then(|v| v.as_u64()),
                ja.get(3).and_then(|v| v.as_u64()),
                ja.get(4).and_then(|v| v.as_u64()),
            ) {
                (Some(s), Some(h), Some(lo), Some(hi), Some(step)) if step > 0 && hi >= lo => (s, h, lo, hi, step),
                _ => return bad(),
            };
            let mut out = vec![];
            let mut p = lo;
            while p <= hi {
                let mut script = cut_quota(&s, p);
                script.extend(h.iter().cloned());
                let o = one_run(w, &format!(" at failure position {}", p), &base, &full, &rf, script, true);
                if let Some(v) = &o.verdict {
                    if verdict == "ok" {
                        verdict = format!("FAIL at failure position {}: {}", p, v);
                    }
                }
                out.push(row_sx(&o));
                p += step;
            }
            (Sx::tagged("sweep", out), verdict)
        }
        Some("path") => {
            let ja = job.args();
            let target = match ja.first().and_then(path_target_of) {
                Some(t) => t,
                None => return bad(),
            };
            match path_run(w, &base, &full, &rf, target) {
                Err(why) => (Sx::tagged("nodevice", vec![Sx::bytes(why.as_bytes())]), "skip".into()),
                Ok(o) => {
                    if let Some(v) = &o.verdict {
                        verdict = format!("FAIL {}", v);
                    }
                    if let Some(l) = o.lost {
                        return (Sx::tagged("pres", vec![l]), verdict);
                    }
                    if o.state_known {
                        (Sx::tagged("pres", vec![o.rc, Sx::bytes(&o.delivered), o.state, Sx::boolean(o.resave_same)]), verdict)
                    } else {
                        (Sx::tagged("pres", vec![o.rc, Sx::bytes(&o.delivered), Sx::tagged("state", vec![Sx::id("?")]), Sx::id("?")]), verdict)
                    }
                }
            }
        }
        Some("psweep") => {
            let ja = job.args();
            let ps: Vec<u64> = match ja.get(1) {
                Some(at) if at.tag() == Some("at") => at.args().iter().filter_map(|v| v.as_u64()).collect(),
                _ => return bad(),
            };
            let mut out = vec![];
            for p in ps {
                match path_run(w, &base, &full, &rf, PathTarget::Limit(p)) {
                    Err(why) => return (Sx::tagged("nodevice", vec![Sx::bytes(why.as_bytes())]), "skip".into()),
                    Ok(o) => {
                        if let Some(v) = &o.verdict {
                            if verdict == "ok" {
                                verdict = format!("FAIL {}", v);
                            }
                        }
                        if let Some(l) = o.lost {
                            out.push(l);
                        } else if o.state_known {
                            out.push(Sx::L(vec![o.rc, Sx::num(o.delivered.len()), Sx::num(o.max_id), Sx::num(o.size), Sx::boolean(o.resave_same)]));
                        } else {
                            out.push(Sx::L(vec![o.rc, Sx::num(o.delivered.len()), Sx::id("?"), Sx::id("?"), Sx::id("?")]));
                        }
                    }
                }
            }
            (Sx::tagged("psweep", out), verdict)
        }
        _ => bad(),
    }
}

fn main() {
    // the loader (used here only to compare what a re-saved file loads to) fans every load out to a rayon pool of one thread
    // per core; for the small files of this property that is all hand-over (6x the CPU time, most of it in sched_yield)
    if std::env::var_os("RAYON_NUM_THREADS").is_none() {
        std::env::set_var("RAYON_NUM_THREADS", "1");
    }
    // set once a save had to be abandoned: its thread is still running and may hold a lowered RLIMIT_FSIZE, so the
    // save(path) jobs of the cases after it in this process are not run
    let abandoned = std::sync::atomic::AtomicBool::new(false);
    lvh::drive(move |x| {
        use std::sync::atomic::Ordering;
        if abandoned.load(Ordering::SeqCst) && x.args().get(6).map(|j| matches!(j.tag(), Some("path") | Some("psweep"))).unwrap_or(false) {
            return (Sx::tagged("nodevice", vec![Sx::bytes(b"an abandoned save is still running in this process")]), "skip".into());
        }
        // every case runs in a worker thread, watched from here: a save that never returns is a violation of "saving returns
        // an error" and must not take the harness with it
        let watch = std::sync::Arc::new(Watch::new());
        let (tx, rx) = std::sync::mpsc::channel();
        let (x2, w2) = (x.clone(), watch.clone());
        let spawned = std::thread::Builder::new().stack_size(16 << 20).spawn(move || {
            let r = std::panic::catch_unwind(std::panic::AssertUnwindSafe(|| run_case(&x2, &w2)));
            let _ = tx.send(r.map_err(|e| {
                if let Some(s) = e.downcast_ref::<&str>() {
                    s.to_string()
                } else if let Some(s) = e.downcast_ref::<String>() {
                    s.clone()
                } else {
                    "?".to_string()
                }
            }));
        });
        if let Err(e) = spawned {
            panic!("c19 harness: cannot start the worker thread: {}", e);
        }
        loop {
            match rx.recv_timeout(std::time::Duration::from_millis(250)) {
                Ok(Ok(r)) => return r,
                // (same report as lvh::drive gives for a panic in this thread)
                Ok(Err(msg)) => {
                    return (Sx::L(vec![Sx::id("panic"), Sx::bytes(msg.as_bytes())]), format!("FAIL panic: {}", msg.replace('\n', " ")))
                }
                Err(std::sync::mpsc::RecvTimeoutError::Timeout) => {
                    if let Some(what) = watch.stuck() {
                        abandoned.store(true, Ordering::SeqCst);
                        return (Sx::L(vec![Sx::id("hang")]), format!("FAIL {} did not return within {} s", what, SAVE_TIMEOUT_S));
                    }
                }
                Err(std::sync::mpsc::RecvTimeoutError::Disconnected) => {
                    return (Sx::L(vec![Sx::id("panic"), Sx::bytes(b"worker thread lost")]), "FAIL panic: the worker thread ended without a result".into())
                }
            }
        }
    });
    let _ = std::fs::remove_dir_all(std::env::temp_dir().join(format!("lvh-c19-{}", std::process::id())));
}
