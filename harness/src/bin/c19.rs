//! C19: saving reports sink failures and ignores sink chunking.
//! Case: (case (cfg table|stream plain|inc) <doc> <prev xHEX> <full xHEX> <cut> (chunks n...) <job>)
//!   job ::= (ref)                                     -> (ref <rc> <full> <state> (ids n...) <cut>)   [generation phase only]
//!         | (one call|pos (script r...))              -> (res <rc> <delivered> <state> <resave same bytes 0/1>)
//!         | (sweep (script r...) <hard> lo hi step)   -> (sweep (<rc> <delivered length> <max_id> <Size> <resave same>) ...)
//!   cfg carries, after the two mode words, the state before the save (max_id, trailer, written ids) for the model.
//!   r ::= (a k) | i | z | (f kind)
//! The sinks implement std::io::Write from the script (call-driven: one answer per `write` call;
//! positional: `(a k)` = the next k bytes are accepted in however many calls that takes) and are
//! healthy once the script is used up.  The REAL Document::save_to / IncrementalDocument::save_to
//! is called.  Verdict = the property evaluated directly:
//!   FAIL when save returns Ok but the sink does not hold every byte of the reference output,
//!   when the sink answered a hard failure and save returned Ok (or another error kind),
//!   when save returns an error although the sink never failed,
//!   when the delivered bytes are not a prefix of the reference output,
//!   when a re-save of the same document object to a healthy sink fails or does not load back to
//!   the content the reference output loads to.
use lopdf::xref::XrefType;
use lopdf::{Dictionary, Document, IncrementalDocument, Object};
use lvh::conv::*;
use lvh::sx::Sx;
use std::io::{Error, ErrorKind, Write};

#[derive(Clone, Debug)]
enum Resp {
    Accept(u64),
    Interrupted,
    Zero,
    Fail(ErrorKind),
}

const KINDS: [(&str, ErrorKind); 10] = [
    ("other", ErrorKind::Other),
    ("brokenpipe", ErrorKind::BrokenPipe),
    ("denied", ErrorKind::PermissionDenied),
    ("wouldblock", ErrorKind::WouldBlock),
    ("timedout", ErrorKind::TimedOut),
    ("writezero", ErrorKind::WriteZero),
    ("eof", ErrorKind::UnexpectedEof),
    ("oom", ErrorKind::OutOfMemory),
    ("invaliddata", ErrorKind::InvalidData),
    ("storagefull", ErrorKind::StorageFull),
];

fn kind_of(x: &Sx) -> Option<ErrorKind> {
    KINDS.iter().find(|(n, _)| x.is_id(n)).map(|(_, k)| *k)
}
fn kind_sx(k: ErrorKind) -> Sx {
    match KINDS.iter().find(|(_, kk)| *kk == k) {
        Some((n, _)) => Sx::id(n),
        None => Sx::id(&format!("kind-{:?}", k)),
    }
}
fn rc_sx(r: &std::io::Result<()>) -> Sx {
    match r {
        Ok(()) => Sx::id("ok"),
        Err(e) => Sx::L(vec![Sx::id("err"), kind_sx(e.kind())]),
    }
}

fn resp_of(x: &Sx) -> Option<Resp> {
    if x.is_id("i") {
        return Some(Resp::Interrupted);
    }
    if x.is_id("z") {
        return Some(Resp::Zero);
    }
    match x.tag()? {
        "a" => Some(Resp::Accept(x.args().first()?.as_u64()?)),
        "f" => Some(Resp::Fail(kind_of(x.args().first()?)?)),
        _ => None,
    }
}
fn script_of(x: &Sx) -> Option<Vec<Resp>> {
    if x.tag()? != "script" {
        return None;
    }
    x.args().iter().map(resp_of).collect()
}

/// the soft script cut down to quota p (same function as cut_quota in coq/Run/RunC19.v)
fn cut_quota(s: &[Resp], mut p: u64) -> Vec<Resp> {
    let mut out = vec![];
    for r in s {
        if p == 0 {
            break;
        }
        match r {
            Resp::Accept(k) => {
                if *k < p {
                    out.push(Resp::Accept(*k));
                    p -= *k;
                } else {
                    out.push(Resp::Accept(p));
                    break;
                }
            }
            other => out.push(other.clone()),
        }
    }
    out
}

struct ScriptSink {
    script: Vec<Resp>,
    positional: bool,
    idx: usize,
    rem: Option<u64>,
    data: Vec<u8>,
    /// kind of the first hard answer given (WriteZero for Ok(0))
    hard: Option<ErrorKind>,
    writes_after_hard: usize,
    flushes: usize,
}

impl ScriptSink {
    fn new(script: Vec<Resp>, positional: bool) -> Self {
        ScriptSink { script, positional, idx: 0, rem: None, data: vec![], hard: None, writes_after_hard: 0, flushes: 0 }
    }
    fn note_hard(&mut self, k: ErrorKind) {
        if self.hard.is_none() {
            self.hard = Some(k);
        }
    }
}

impl Write for ScriptSink {
    fn write(&mut self, buf: &[u8]) -> std::io::Result<usize> {
        if buf.is_empty() {
            return Ok(0);
        }
        if self.hard.is_some() {
            self.writes_after_hard += 1;
        }
        let len = buf.len() as u64;
        match self.script.get(self.idx).cloned() {
            None => {
                self.data.extend_from_slice(buf);
                Ok(buf.len())
            }
            Some(Resp::Accept(k)) => {
                if k == 0 {
                    self.idx += 1;
                    self.note_hard(ErrorKind::WriteZero);
                    return Ok(0);
                }
                if self.positional {
                    let rem = self.rem.unwrap_or(k);
                    if rem <= len {
                        let n = rem as usize;
                        self.data.extend_from_slice(&buf[..n]);
                        self.idx += 1;
                        self.rem = None;
                        Ok(n)
                    } else {
                        self.data.extend_from_slice(buf);
                        self.rem = Some(rem - len);
                        Ok(buf.len())
                    }
                } else {
                    let n = k.min(len) as usize;
                    self.data.extend_from_slice(&buf[..n]);
                    self.idx += 1;
                    Ok(n)
                }
            }
            Some(Resp::Interrupted) => {
                self.idx += 1;
                Err(Error::new(ErrorKind::Interrupted, "c19 sink: interrupted"))
            }
            Some(Resp::Zero) => {
                self.idx += 1;
                self.note_hard(ErrorKind::WriteZero);
                Ok(0)
            }
            Some(Resp::Fail(k)) => {
                self.idx += 1;
                self.note_hard(k);
                Err(Error::new(k, "c19 sink: hard failure"))
            }
        }
    }
    fn flush(&mut self) -> std::io::Result<()> {
        self.flushes += 1;
        Ok(())
    }
}

#[derive(Clone)]
enum Target {
    Plain(Document),
    Inc(IncrementalDocument),
}

impl Target {
    fn save_to<W: Write>(&mut self, w: &mut W) -> std::io::Result<()> {
        match self {
            Target::Plain(d) => d.save_to(w),
            Target::Inc(d) => d.save_to(w),
        }
    }
    fn doc(&self) -> &Document {
        match self {
            Target::Plain(d) => d,
            Target::Inc(d) => &d.new_document,
        }
    }
    fn state_sx(&self) -> Sx {
        Sx::tagged("state", vec![Sx::num(self.doc().max_id), dict_to_sx(&self.doc().trailer)])
    }
}

fn build(cfg: &Sx, doc: &Sx, prev: &[u8]) -> Option<Target> {
    let a = cfg.args();
    let stream = a.first()?.is_id("stream");
    let inc = a.get(1)?.is_id("inc");
    let mut d = doc_of_sx(doc)?;
    if !inc {
        d.reference_table.cross_reference_type =
            if stream { XrefType::CrossReferenceStream } else { XrefType::CrossReferenceTable };
        Some(Target::Plain(d))
    } else {
        let prev_doc = Document::load_mem(prev).ok()?;
        let mut t = IncrementalDocument::create_from(prev.to_vec(), prev_doc);
        t.new_document.version = d.version.clone();
        t.new_document.binary_mark = d.binary_mark.clone();
        t.new_document.max_id = t.new_document.max_id.max(d.max_id);
        for (k, v) in d.trailer.iter() {
            t.new_document.trailer.set(k.clone(), v.clone());
        }
        t.new_document.objects = d.objects;
        Some(Target::Inc(t))
    }
}

/// what a file "loads to", without the bookkeeping a save regenerates
fn content_of(bytes: &[u8]) -> Result<Sx, String> {
    let d = Document::load_mem(bytes).map_err(|e| format!("{:?}", e).split('(').next().unwrap_or("").to_string())?;
    let skip = |o: &Object| {
        o.type_name()
            .map(|n| [b"ObjStm".as_slice(), b"XRef".as_slice(), b"Linearized".as_slice()].contains(&n))
            .unwrap_or(false)
    };
    let mut tr = Dictionary::new();
    for (k, v) in d.trailer.iter() {
        let book: [&[u8]; 6] = [b"Size", b"W", b"Index", b"Length", b"Filter", b"Prev"];
        if book.contains(&k.as_slice()) || (k.as_slice() == b"Type" && v.as_name().ok() == Some(b"XRef".as_slice())) {
            continue;
        }
        tr.set(k.clone(), v.clone());
    }
    Ok(Sx::L(vec![
        Sx::bytes(d.version.as_bytes()),
        dict_to_sx(&tr),
        Sx::L(d.objects.iter().filter(|(_, o)| !skip(o)).map(|(id, o)| Sx::L(vec![oid_to_sx(*id), obj_to_sx(o)])).collect()),
    ]))
}

struct Outcome {
    rc: Sx,
    delivered: Vec<u8>,
    state: Sx,
    max_id: u32,
    size: i64,
    resave_same: bool,
    verdict: Option<String>,
}

fn one_run(base: &Target, full: &[u8], ref_content: &Option<Result<Sx, String>>, script: Vec<Resp>, positional: bool) -> Outcome {
    let mut t = base.clone();
    let mut sink = ScriptSink::new(script, positional);
    let r = t.save_to(&mut sink);
    let after = t.state_sx();
    let max_id = t.doc().max_id;
    let size = t.doc().trailer.get(b"Size").ok().and_then(|o| o.as_i64().ok()).unwrap_or(-1);
    let mut verdict = None;
    let mut fail = |s: String| {
        if verdict.is_none() {
            verdict = Some(s);
        }
    };
    let is_prefix = sink.data.len() <= full.len() && full[..sink.data.len()] == sink.data[..];
    if !is_prefix {
        fail(format!(
            "delivered bytes ({}) are not a prefix of the complete output ({}), result {:?}",
            sink.data.len(),
            full.len(),
            r.as_ref().map_err(|e| e.kind())
        ));
    }
    match (&r, sink.hard) {
        (Ok(()), Some(k)) => fail(format!("sink failed with {:?} at byte {} but save returned Ok", k, sink.data.len())),
        (Ok(()), None) => {
            if sink.data != full {
                fail(format!("save returned Ok but the sink holds {} of {} bytes", sink.data.len(), full.len()));
            }
        }
        (Err(e), Some(k)) => {
            if e.kind() != k {
                fail(format!("sink failed with {:?} but save reported {:?}", k, e.kind()));
            }
        }
        (Err(e), None) => fail(format!("sink never failed but save returned Err({:?})", e.kind())),
    }
    // a later save of the same document object to a healthy sink
    let mut out2: Vec<u8> = vec![];
    let r2 = t.save_to(&mut out2);
    let resave_same = r2.is_ok() && out2 == full;
    match r2 {
        Err(e) => fail(format!("re-save to a healthy sink failed: {:?}", e.kind())),
        Ok(()) => {
            if ref_content.is_some() && Some(content_of(&out2)) != *ref_content {
                fail(format!(
                    "re-save after {} does not load back to the same content",
                    if r.is_ok() { "a successful save" } else { "a failed save" }
                ));
            }
        }
    }
    Outcome { rc: rc_sx(&r), delivered: sink.data, state: after, max_id, size, resave_same, verdict }
}

fn main() {
    lvh::drive(|x| {
        let a = x.args();
        if a.len() != 7 {
            return (Sx::id("badcase"), "skip".into());
        }
        let prev = a[2].as_bytes().unwrap_or_default();
        let base = match build(&a[0], &a[1], &prev) {
            Some(t) => t,
            None => return (Sx::id("badcase"), "skip".into()),
        };
        // reference output with a perfect sink
        let mut full: Vec<u8> = vec![];
        let r0 = base.clone().save_to(&mut full);
        let job = &a[6];
        if job.tag() == Some("ref") {
            let stream = a[0].args().first().map(|m| m.is_id("stream")).unwrap_or(false);
            let skip = |o: &Object| {
                o.type_name()
                    .map(|n| [b"ObjStm".as_slice(), b"XRef".as_slice(), b"Linearized".as_slice()].contains(&n))
                    .unwrap_or(false)
            };
            let ids: Vec<Sx> = base.doc().objects.iter().filter(|(_, o)| !skip(o)).map(|(id, _)| Sx::num(id.0)).collect();
            // number of bytes written before the save path mutates the document
            let cut = if stream {
                let tail = b"\nstartxref\n";
                full.windows(tail.len()).rposition(|w| w == tail).and_then(|i| {
                    let rest = &full[i + tail.len()..];
                    let end = rest.iter().position(|&c| c == b'\n')?;
                    // startxref is relative to the file header (first "%PDF-"); the cut is a position in the delivered stream
                    let hdr = full.windows(5).position(|w| w == b"%PDF-").unwrap_or(0);
                    std::str::from_utf8(&rest[..end]).ok()?.parse::<usize>().ok().map(|x| x + hdr)
                })
            } else {
                let key = b"trailer\n<<";
                full.windows(key.len()).rposition(|w| w == key)
            };
            return (
                Sx::tagged(
                    "ref",
                    vec![rc_sx(&r0), Sx::bytes(&full), base.state_sx(), Sx::tagged("ids", ids), Sx::num(cut.map(|c| c as i64).unwrap_or(-1))],
                ),
                "skip".into(),
            );
        }
        if r0.is_err() {
            return (Sx::tagged("noref", vec![rc_sx(&r0)]), "skip".into());
        }
        let mut verdict = "ok".to_string();
        if a[3].as_bytes().map(|f| f != full).unwrap_or(true) {
            verdict = "FAIL the output for a perfect sink differs from the reference pass".into();
        }
        // a second perfect save of a fresh clone must give the same bytes (determinism)
        // "the same document": the content the reference output loads to.  Only meaningful when the
        // document keeps lopdf's invariant max_id >= every object number (otherwise the xref stream's
        // own object number max_id + 1 may collide with an object, which already breaks the FIRST save;
        // that is a precondition of saving (C01), not a consequence of the failed save).
        let max_id = base.doc().max_id;
        let wf = base.doc().objects.keys().all(|(i, _)| *i <= max_id);
        let ref_content = if wf { Some(content_of(&full)) } else { None };
        match job.tag() {
            Some("one") => {
                let ja = job.args();
                let positional = ja.first().map(|s| s.is_id("pos")).unwrap_or(false);
                let script = match ja.get(1).and_then(script_of) {
                    Some(s) => s,
                    None => return (Sx::id("badcase"), "skip".into()),
                };
                let o = one_run(&base, &full, &ref_content, script, positional);
                if let Some(v) = o.verdict {
                    verdict = format!("FAIL {}", v);
                }
                (Sx::tagged("res", vec![o.rc, Sx::bytes(&o.delivered), o.state, Sx::boolean(o.resave_same)]), verdict)
            }
            Some("sweep") => {
                let ja = job.args();
                let (s, h, lo, hi, step) = match (
                    ja.first().and_then(script_of),
                    ja.get(1).and_then(resp_of),
                    ja.get(2).and_then(|v| v.as_u64()),
                    ja.get(3).and_then(|v| v.as_u64()),
                    ja.get(4).and_then(|v| v.as_u64()),
                ) {
                    (Some(s), Some(h), Some(lo), Some(hi), Some(step)) if step > 0 && hi >= lo => (s, h, lo, hi, step),
                    _ => return (Sx::id("badcase"), "skip".into()),
                };
                let mut out = vec![];
                let mut p = lo;
                while p <= hi {
                    let mut script = cut_quota(&s, p);
                    script.push(h.clone());
                    let o = one_run(&base, &full, &ref_content, script, true);
                    if let Some(v) = o.verdict {
                        if verdict == "ok" {
                            verdict = format!("FAIL at failure position {}: {}", p, v);
                        }
                    }
                    out.push(Sx::L(vec![o.rc, Sx::num(o.delivered.len()), Sx::num(o.max_id), Sx::num(o.size), Sx::boolean(o.resave_same)]));
                    p += step;
                }
                (Sx::tagged("sweep", out), verdict)
            }
            _ => (Sx::id("badcase"), "skip".into()),
        }
    });
}
