//! C02: well-formed PDFs from any producer load to their content.
//!   (load xBYTES (ids...) <expected>)   Document::load_mem on the reference writer's output; the objects whose
//!                                       number is in ids (object-stream containers, the xref stream) are left out;
//!                                       FAIL when loading fails or the result differs from <expected>
//!   (loadz BYTES (ids...) <expected>)   the same for files whose structural streams were compressed by a real deflate
//!                                       encoder (Python zlib at any level / strategy); BYTES = xHEX or (xHEX xHEX ...)
//!   (objstmz (d ...) BYTES n)           ObjectStream::new on a Flate-compressed object stream of n members; FAIL unless it
//!                                       answers n objects
//!   (xrefstream (d ...) xCONTENT)       lopdf::xref::decode_xref_stream
//!   (xreftable xBYTES)                  the table parser, observed through load_mem on a minimal file
//!   (objstm (d ...) xCONTENT)           ObjectStream::new
//!   (asset NAME)                        a file of /repo/assets must load
//!   (ahx xENCODED xPLAIN|none)          Stream::decompressed_content with Filter ASCIIHexDecode; FAIL when a plain text
//!                                       is given (the case is a legal encoding of it) and is not what comes out
use lvh::conv::*;
use lvh::sx::Sx;
use lopdf::xref::{Xref, XrefEntry};
use lopdf::{Dictionary, Document, Object, ObjectStream, Stream};

const BOOKKEEPING: [&[u8]; 6] = [b"Type", b"W", b"Index", b"Length", b"Filter", b"DecodeParms"];

fn cobj(o: &Object) -> Sx {
    match o {
        Object::String(s, _) => Sx::tagged("s", vec![Sx::bytes(s)]),
        Object::Array(a) => Sx::tagged("a", a.iter().map(cobj).collect()),
        Object::Dictionary(d) => cdict(d, false, false),
        Object::Stream(s) => Sx::tagged("st", vec![cdict(&s.dict, false, false), Sx::bytes(&s.content)]),
        _ => obj_to_sx(o),
    }
}

fn cdict(d: &Dictionary, sorted: bool, drop_bookkeeping: bool) -> Sx {
    let mut es: Vec<(&Vec<u8>, &Object)> = d
        .iter()
        .filter(|(k, _)| !(drop_bookkeeping && BOOKKEEPING.contains(&k.as_slice())))
        .collect();
    if sorted {
        es.sort_by(|a, b| a.0.cmp(b.0));
    }
    Sx::tagged("d", es.into_iter().map(|(k, v)| Sx::L(vec![Sx::bytes(k), cobj(v)])).collect())
}

fn err_class(e: &lopdf::Error) -> String {
    let s = format!("{:?}", e);
    let head: String = s.chars().take_while(|c| c.is_alphanumeric() || *c == '(' || *c == ')').collect();
    match head.as_str() {
        "Parse(InvalidTrailer)" => "InvalidTrailer".into(),
        "Parse(InvalidXref)" => "InvalidXref".into(),
        "Parse(InvalidFileHeader)" => "InvalidFileHeader".into(),
        "Xref(Start)" => "XrefStart".into(),
        "Xref(PrevStart)" => "XrefPrevStart".into(),
        _ => {
            let name: String = s.chars().take_while(|c| c.is_alphanumeric()).collect();
            if name == "Decompress" || name == "Unimplemented" {
                "Decompress".into()
            } else {
                name
            }
        }
    }
}

fn entries_sx(x: &Xref) -> Sx {
    Sx::L(
        x.entries
            .iter()
            .map(|(k, e)| {
                let es = match e {
                    XrefEntry::Free => Sx::id("free"),
                    XrefEntry::UnusableFree => Sx::id("unusable"),
                    XrefEntry::Normal { offset, generation } => {
                        Sx::tagged("n", vec![Sx::num(offset), Sx::num(generation)])
                    }
                    XrefEntry::Compressed { container, index } => {
                        Sx::tagged("c", vec![Sx::num(container), Sx::num(index)])
                    }
                };
                Sx::L(vec![Sx::num(k), es])
            })
            .collect(),
    )
}

fn err_sx(e: &lopdf::Error) -> Sx {
    Sx::tagged("err", vec![Sx::id(&err_class(e))])
}

fn loaded_sx(doc: &Document, ignore: &[u32]) -> Sx {
    Sx::tagged(
        "loaded",
        vec![
            Sx::bytes(doc.version.as_bytes()),
            cdict(&doc.trailer, true, true),
            Sx::tagged(
                "objs",
                doc.objects
                    .iter()
                    .filter(|(id, _)| !ignore.contains(&id.0))
                    .map(|(id, o)| Sx::L(vec![oid_to_sx(*id), cobj(o)]))
                    .collect(),
            ),
        ],
    )
}

/// a bytes argument: one atom xHEX or a list of such atoms (chunks, concatenated)
fn chunks(x: &Sx) -> Option<Vec<u8>> {
    match x {
        Sx::L(cs) => {
            let mut v = Vec::new();
            for c in cs {
                v.extend(c.as_bytes()?);
            }
            Some(v)
        }
        _ => x.as_bytes(),
    }
}

fn main() {
    lvh::drive(|x| {
        let a = x.args();
        match x.tag() {
            Some("objstmz") if a.len() == 3 => {
                let (d, c, n) = match (dict_of_entries(a[0].args()), chunks(&a[1]), a[2].as_u64()) {
                    (Some(d), Some(c), Some(n)) => (d, c, n as usize),
                    _ => return (Sx::id("badcase"), "skip".into()),
                };
                let mut s = Stream { dict: d, content: c, allows_compression: true, start_position: None };
                match ObjectStream::new(&mut s) {
                    Ok(os) => (
                        Sx::tagged(
                            "ok",
                            vec![Sx::tagged(
                                "objs",
                                os.objects.iter().map(|(id, o)| Sx::L(vec![oid_to_sx(*id), cobj(o)])).collect(),
                            )],
                        ),
                        if os.objects.len() == n {
                            "ok".into()
                        } else {
                            format!("FAIL a well-formed object stream of {} members expands to {} objects", n, os.objects.len())
                        },
                    ),
                    Err(e) => (err_sx(&e), format!("FAIL a well-formed object stream is rejected: {:?}", e)),
                }
            }
            Some("load") | Some("loadz") if a.len() == 3 => {
                let bytes = match chunks(&a[0]) {
                    Some(b) => b,
                    None => return (Sx::id("badcase"), "skip".into()),
                };
                let ignore: Vec<u32> = a[1].as_list().unwrap_or(&[]).iter().filter_map(|n| n.as_u64()).map(|n| n as u32).collect();
                match Document::load_mem(&bytes) {
                    Err(e) => (Sx::tagged("loaderr", vec![Sx::id(&err_class(&e))]), format!("FAIL load failed: {:?}", e)),
                    Ok(doc) => {
                        let got = loaded_sx(&doc, &ignore);
                        let verdict = if got.print() == a[2].print() {
                            "ok".to_string()
                        } else {
                            // name the first difference
                            let want_objs = a[2].args().get(2).map(|o| o.args().to_vec()).unwrap_or_default();
                            let got_objs = got.args()[2].args().to_vec();
                            let mut why = String::from("version or trailer differs");
                            if got.args()[0] == a[2].args()[0] && got.args()[1] == a[2].args()[1] {
                                why = format!("object count {} vs {}", got_objs.len(), want_objs.len());
                                for w in &want_objs {
                                    match got_objs.iter().find(|g| g.as_list().map(|l| &l[0]) == w.as_list().map(|l| &l[0])) {
                                        None => {
                                            why = format!("object {} is missing", w.as_list().unwrap()[0].print());
                                            break;
                                        }
                                        Some(g) if g != w => {
                                            why = format!("object {} differs: {}", w.as_list().unwrap()[0].print(), g.print().chars().take(200).collect::<String>());
                                            break;
                                        }
                                        _ => {}
                                    }
                                }
                            }
                            format!("FAIL loaded document differs from what the file defines: {}", why)
                        };
                        (got, verdict)
                    }
                }
            }
            Some("xrefstream") if a.len() == 2 => {
                let (d, c) = match (dict_of_entries(a[0].args()), a[1].as_bytes()) {
                    (Some(d), Some(c)) => (d, c),
                    _ => return (Sx::id("badcase"), "skip".into()),
                };
                let s = Stream { dict: d, content: c, allows_compression: true, start_position: None };
                match lopdf::xref::decode_xref_stream(s) {
                    Ok((x, d)) => (
                        Sx::tagged("ok", vec![Sx::num(x.size), entries_sx(&x), cdict(&d, false, false)]),
                        "ok".into(),
                    ),
                    Err(e) => (err_sx(&e), "ok".into()),
                }
            }
            Some("objstm") if a.len() == 2 => {
                let (d, c) = match (dict_of_entries(a[0].args()), a[1].as_bytes()) {
                    (Some(d), Some(c)) => (d, c),
                    _ => return (Sx::id("badcase"), "skip".into()),
                };
                let mut s = Stream { dict: d, content: c, allows_compression: true, start_position: None };
                match ObjectStream::new(&mut s) {
                    Ok(os) => (
                        Sx::tagged(
                            "ok",
                            vec![Sx::tagged(
                                "objs",
                                os.objects.iter().map(|(id, o)| Sx::L(vec![oid_to_sx(*id), cobj(o)])).collect(),
                            )],
                        ),
                        "ok".into(),
                    ),
                    Err(e) => (err_sx(&e), "ok".into()),
                }
            }
            Some("ahx") if a.len() == 2 => {
                let c = match a[0].as_bytes() {
                    Some(c) => c,
                    None => return (Sx::id("badcase"), "skip".into()),
                };
                let mut d = Dictionary::new();
                d.set("Filter", Object::Name(b"ASCIIHexDecode".to_vec()));
                let s = Stream { dict: d, content: c, allows_compression: true, start_position: None };
                match s.decompressed_content() {
                    Ok(v) => {
                        let verdict = match a[1].as_bytes() {
                            Some(want) if want != v => "FAIL ASCIIHexDecode does not return the encoded data".to_string(),
                            _ => "ok".to_string(),
                        };
                        (Sx::tagged("ok", vec![Sx::bytes(&v)]), verdict)
                    }
                    Err(lopdf::Error::IO(e)) if e.kind() == std::io::ErrorKind::InvalidData => {
                        let verdict = if a[1].as_bytes().is_some() { "FAIL ASCIIHexDecode rejects a legal encoding".to_string() } else { "ok".to_string() };
                        (Sx::tagged("err", vec![Sx::id("io-data")]), verdict)
                    }
                    Err(e) => (err_sx(&e), "FAIL unexpected error class".into()),
                }
            }
            Some("xreftable") if a.len() == 1 => {
                let t = match a[0].as_bytes() {
                    Some(b) => b,
                    None => return (Sx::id("badcase"), "skip".into()),
                };
                let mut f = b"%PDF-1.4\n".to_vec();
                f.extend_from_slice(&t);
                f.extend_from_slice(b"\nstartxref\n9\n%%EOF\n");
                match Document::load_mem(&f) {
                    Ok(doc) => (
                        Sx::tagged(
                            "ok",
                            vec![Sx::id("-"), entries_sx(&doc.reference_table), cdict(&doc.trailer, true, false)],
                        ),
                        "ok".into(),
                    ),
                    Err(e) => (err_sx(&e), "ok".into()),
                }
            }
            Some("asset") if a.len() == 1 => {
                let name = String::from_utf8_lossy(a[0].as_atom().unwrap_or(b"")).to_string();
                let repo = std::env::var("VERIF_REPO").unwrap_or_else(|_| "/repo".into());
                match std::fs::read(format!("{}/assets/{}", repo, name)) {
                    Err(_) => (Sx::id("nofile"), "skip".into()),
                    Ok(bytes) => match Document::load_mem(&bytes) {
                        Ok(doc) if !doc.objects.is_empty() => (Sx::tagged("asset", vec![Sx::id("ok")]), "ok".into()),
                        Ok(_) => (Sx::tagged("asset", vec![Sx::id("empty")]), "FAIL asset loads to an empty document".into()),
                        Err(e) => (Sx::tagged("asset", vec![Sx::id(&err_class(&e))]), format!("FAIL asset does not load: {:?}", e)),
                    },
                }
            }
            _ => (Sx::id("badcase"), "skip".into()),
        }
    });
}
