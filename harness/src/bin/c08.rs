//! C08: loading is deterministic under every thread schedule.
//! Case: (case xFILE (meta ...) (entries (KEY OFF ...) ...)) -- see coq/Run/RunC08.v.  Only the bytes and the
//! (key, offset) pairs are used here.
//!
//! Built with the `full` feature (lopdf with rayon) and `--cfg lopdf_verif`, the file is loaded
//!   * under every permutation of the object-stream blocks (<= 6 blocks: all; more: identity and reversal) and of the
//!     zero-length ids (<= 4: all) forced through lopdf::verif_hooks,
//!   * REPEAT times on each rayon pool of 1,2,3,4,8,16 threads with no order forced,
//!   * by the sequential build of this same file (child process, see `oracle`),
//! (an encrypted file that the empty password opens is decrypted inside every one of these loads, and its object streams are expanded
//! only then, by Document::decrypt_raw: no block reaches the hook, the pools and the sequential build are what tells),
//! and the canonical dumps are compared.  Result: (res (b I..) (z I..) (docs D..)) as the model prints it; verdict FAIL
//! as soon as two loads of the same bytes give different documents.
//!
//! Built without `full` (sequential reader) the program is the oracle: one dump per input line.
use lopdf::Document;
use lvh::conv::*;
use lvh::sx::Sx;

fn dump(r: lopdf::Result<Document>) -> String {
    match r {
        Ok(d) => doc_to_sx(&d).print(),
        Err(_) => "(err)".to_string(),
    }
}

fn file_of_case(x: &Sx) -> Option<(Vec<u8>, Vec<(u64, usize)>)> {
    let a = x.args();
    let bytes = a.first()?.as_bytes()?;
    let mut entries = vec![];
    for e in a.get(2)?.args() {
        let l = e.as_list()?;
        entries.push((l.first()?.as_u64()?, l.get(1)?.as_u64()? as usize));
    }
    Some((bytes, entries))
}

#[cfg(not(feature = "full"))]
fn main() {
    // sequential oracle
    use std::io::{BufRead, Write};
    let stdin = std::io::stdin();
    let stdout = std::io::stdout();
    let mut out = stdout.lock();
    for line in stdin.lock().lines() {
        let line = line.expect("stdin");
        let res = lvh::sx::parse_one(&line)
            .and_then(|x| file_of_case(&x))
            .map(|(bytes, _)| {
                std::panic::catch_unwind(|| dump(Document::load_mem(&bytes))).unwrap_or_else(|_| "(panic)".to_string())
            })
            .unwrap_or_else(|| "(badcase)".to_string());
        writeln!(out, "{}", res).unwrap();
        out.flush().unwrap();
    }
}

#[cfg(feature = "full")]
mod par {
    use super::*;
    use std::collections::HashMap;
    use std::io::{BufRead, BufReader, Write};
    use std::process::{Child, ChildStdin, ChildStdout, Command, Stdio};
    use std::sync::{Mutex, OnceLock};

    pub const POOLS: [usize; 6] = [1, 2, 3, 4, 8, 16];
    pub const REPEAT: usize = 8;

    pub fn pools() -> &'static Vec<rayon::ThreadPool> {
        static P: OnceLock<Vec<rayon::ThreadPool>> = OnceLock::new();
        P.get_or_init(|| {
            POOLS
                .iter()
                .map(|&n| rayon::ThreadPoolBuilder::new().num_threads(n).build().expect("pool"))
                .collect()
        })
    }

    struct Oracle {
        _child: Child,
        stdin: ChildStdin,
        stdout: BufReader<ChildStdout>,
    }

    /// The sequential build of this program: $LVH_C08_SEQ, or `<target>-seq/release/c08` next to our own target directory.
    fn oracle_path() -> Option<std::path::PathBuf> {
        if let Ok(p) = std::env::var("LVH_C08_SEQ") {
            return Some(p.into());
        }
        let exe = std::env::current_exe().ok()?;
        let release = exe.parent()?;
        let target = release.parent()?;
        let mut name = target.file_name()?.to_os_string();
        name.push("-seq");
        let p = target.parent()?.join(name).join(release.file_name()?).join(exe.file_name()?);
        if p.exists() {
            Some(p)
        } else {
            None
        }
    }

    pub fn oracle(line: &str) -> Option<String> {
        static O: OnceLock<Mutex<Option<Oracle>>> = OnceLock::new();
        let m = O.get_or_init(|| {
            Mutex::new(oracle_path().and_then(|p| {
                let mut child = Command::new(p).stdin(Stdio::piped()).stdout(Stdio::piped()).spawn().ok()?;
                let stdin = child.stdin.take()?;
                let stdout = BufReader::new(child.stdout.take()?);
                Some(Oracle { _child: child, stdin, stdout })
            }))
        });
        let mut g = m.lock().unwrap_or_else(|e| e.into_inner());
        let o = g.as_mut()?;
        writeln!(o.stdin, "{}", line).ok()?;
        o.stdin.flush().ok()?;
        let mut s = String::new();
        o.stdout.read_line(&mut s).ok()?;
        if s.is_empty() {
            return None;
        }
        Some(s.trim_end().to_string())
    }

    #[cfg(lopdf_verif)]
    fn force(b: Option<Vec<usize>>, z: Option<Vec<usize>>) {
        lopdf::verif_hooks::set_merge_permutation(b);
        lopdf::verif_hooks::set_zero_length_permutation(z);
    }
    #[cfg(not(lopdf_verif))]
    fn force(_b: Option<Vec<usize>>, _z: Option<Vec<usize>>) {}

    pub fn load(bytes: &[u8], b: Option<Vec<usize>>, z: Option<Vec<usize>>, pool: &rayon::ThreadPool) -> String {
        force(b, z);
        let r = pool.install(|| Document::load_mem(bytes));
        force(None, None);
        dump(r)
    }

    /// offsets of the appends of the last load, in completion order
    #[cfg(lopdf_verif)]
    pub fn logged(vector: usize) -> Vec<usize> {
        lopdf::verif_hooks::block_log(vector).iter().map(|b| b.offset).collect()
    }
    #[cfg(not(lopdf_verif))]
    pub fn logged(_vector: usize) -> Vec<usize> {
        vec![]
    }

    /// The appended blocks listed in xref-key order, as ranks in the hook's canonical (offset) order.
    pub fn ranks(entries: &[(u64, usize)], log: &[usize]) -> Option<Vec<usize>> {
        let mut counts: HashMap<usize, usize> = HashMap::new();
        for o in log {
            *counts.entry(*o).or_insert(0) += 1;
        }
        let mut kb = vec![];
        for (_, off) in entries {
            if let Some(c) = counts.get_mut(off) {
                if *c > 0 {
                    *c -= 1;
                    kb.push(*off);
                }
            }
        }
        if kb.len() != log.len() {
            return None;
        }
        let mut idx: Vec<usize> = (0..kb.len()).collect();
        idx.sort_by_key(|&i| (kb[i], i));
        let mut rank = vec![0; kb.len()];
        for (r, &i) in idx.iter().enumerate() {
            rank[i] = r;
        }
        Some(rank)
    }

    /// all permutations of 0..n, lexicographic in the positions (the order of `perms` in coq/Model/Sched.v)
    pub fn perms(l: &[usize]) -> Vec<Vec<usize>> {
        if l.is_empty() {
            return vec![vec![]];
        }
        let mut out = vec![];
        for i in 0..l.len() {
            let mut rest = l.to_vec();
            let a = rest.remove(i);
            for mut p in perms(&rest) {
                p.insert(0, a);
                out.push(p);
            }
        }
        out
    }

    pub fn orders(n: usize, limit: usize) -> Vec<Vec<usize>> {
        let id: Vec<usize> = (0..n).collect();
        if n <= limit {
            perms(&id)
        } else {
            vec![id.clone(), id.into_iter().rev().collect()]
        }
    }
}

#[cfg(feature = "full")]
fn main() {
    use par::*;
    lvh::drive(|x| {
        let (bytes, entries) = match file_of_case(x) {
            Some(f) => f,
            None => return (Sx::id("badcase"), "skip".into()),
        };
        let pools = pools();
        let mut verdict = "ok".to_string();
        let mut fail = |why: String| {
            if verdict == "ok" {
                verdict = format!("FAIL {}", why);
            }
        };
        // a first load tells which entries appended a block
        let first = load(&bytes, None, None, &pools[3]);
        let brank = ranks(&entries, &logged(0));
        let zrank = ranks(&entries, &logged(1));
        let hooks = cfg!(lopdf_verif);
        if hooks && (brank.is_none() || zrank.is_none()) {
            fail("the hook's block log does not match the case's entries".into());
        }
        let brank = brank.unwrap_or_default();
        let zrank = zrank.unwrap_or_default();
        let bid: Vec<usize> = brank.clone();
        let zid: Vec<usize> = zrank.clone();
        let seq = oracle(&x.print());
        let mut docs: Vec<String> = vec![];
        let mut classify = |d: String, docs: &mut Vec<String>| -> usize {
            match docs.iter().position(|e| *e == d) {
                Some(k) => k,
                None => {
                    docs.push(d);
                    docs.len() - 1
                }
            }
        };
        let d0 = match &seq {
            Some(s) => s.clone(),
            None => {
                if hooks {
                    load(&bytes, Some(bid.clone()), Some(zid.clone()), &pools[3])
                } else {
                    first.clone()
                }
            }
        };
        classify(d0, &mut docs);
        let mut bi = vec![];
        let mut zi = vec![];
        let mut n = 0usize;
        // Why a forced load differs: the order that was forced, or already the pool it ran on (the forced loads take the pools in
        // turn)?  One more load on the same pool with both vectors in key order tells; it only words the verdict.
        let blame = |pi: usize, what: &str, q: &[usize], docs: &Vec<String>| -> String {
            let same_pool = load(&bytes, Some(bid.clone()), Some(zid.clone()), &pools[pi]);
            if hooks && same_pool != docs[0] {
                format!(
                    "a load on a pool of {} threads with the object streams and the zero-length streams forced into key order differs from the sequential document",
                    POOLS[pi]
                )
            } else if q.len() <= 12 {
                format!("{} in key-order positions {:?} gives another document", what, q)
            } else {
                format!("{} in key-order positions {:?}.. ({} positions) gives another document", what, &q[..12], q.len())
            }
        };
        for q in orders(brank.len(), 6) {
            let p: Vec<usize> = q.iter().map(|&i| brank[i]).collect();
            let pi = n % pools.len();
            let d = if hooks { load(&bytes, Some(p), Some(zid.clone()), &pools[pi]) } else { first.clone() };
            n += 1;
            let k = classify(d, &mut docs);
            if k != 0 {
                fail(blame(pi, "merging the object streams", &q, &docs));
            }
            bi.push(k);
        }
        for q in orders(zrank.len(), 4) {
            let p: Vec<usize> = q.iter().map(|&i| zrank[i]).collect();
            let pi = n % pools.len();
            let d = if hooks { load(&bytes, Some(bid.clone()), Some(p), &pools[pi]) } else { first.clone() };
            n += 1;
            let k = classify(d, &mut docs);
            if k != 0 {
                fail(blame(pi, "reading the zero-length streams", &q, &docs));
            }
            zi.push(k);
        }
        // real schedules
        let mut others = docs.clone();
        if classify(first, &mut others) != 0 {
            fail("an unforced load on 4 threads differs from the sequential document".into());
        }
        for (pi, pool) in pools.iter().enumerate() {
            for r in 0..REPEAT {
                let d = load(&bytes, None, None, pool);
                if classify(d, &mut others) != 0 {
                    fail(format!("load number {} on a pool of {} threads differs from the sequential document", r, POOLS[pi]));
                }
            }
        }
        if seq.is_none() && std::env::var("LVH_C08_NO_SEQ").is_err() {
            fail("the sequential build of this harness was not found (oracle missing)".into());
        }
        let res = Sx::tagged(
            "res",
            vec![
                Sx::tagged("b", bi.iter().map(Sx::num).collect()),
                Sx::tagged("z", zi.iter().map(Sx::num).collect()),
                Sx::tagged("docs", docs.iter().map(|d| Sx::A(d.clone().into_bytes())).collect()),
            ],
        );
        (res, verdict)
    });
}
