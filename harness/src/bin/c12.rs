//! C12: page enumeration.  Case: (case <doc> <expect>) where expect is
//!   (leaves (id gen)...)  -- the generator's own DFS leaves of the tree it built, or
//!   (malformed)           -- only termination / page-ness / numbering are checked.
use lopdf::{Document, Object, ObjectId};
use lvh::conv::*;
use lvh::sx::Sx;
use std::collections::HashSet;

/// The harness's own reading of the page tree (shares nothing with lopdf's accessors): follow reference chains by
/// hand, a node is a dictionary whose Type is the name Page or Pages, the Kids of a Pages node are (behind references)
/// an array of references.  Returns false when the graph below `id` is not a tree of such nodes with pairwise
/// distinct ids (then DFS order is not defined and only the total-ness checks apply).
fn resolve<'a>(doc: &'a Document, mut o: &'a Object) -> Option<&'a Object> {
    for _ in 0..1000 {
        match o {
            Object::Reference(id) => o = doc.objects.get(id)?,
            _ => return Some(o),
        }
    }
    None
}

fn walk(doc: &Document, id: ObjectId, seen: &mut HashSet<ObjectId>, out: &mut Vec<ObjectId>, height: &mut usize) -> bool {
    if !seen.insert(id) {
        return false;
    }
    let d = match doc.objects.get(&id).and_then(|o| resolve(doc, o)) {
        Some(Object::Dictionary(d)) => d,
        _ => return false,
    };
    let ty = match d.get(b"Type") {
        Ok(Object::Name(n)) => n.as_slice(),
        _ => return false,
    };
    if ty == b"Page" {
        out.push(id);
        *height = 0;
        return true;
    }
    if ty != b"Pages" {
        return false;
    }
    let kids = match d.get(b"Kids").ok().and_then(|k| resolve(doc, k)) {
        Some(Object::Array(a)) => a,
        _ => return false,
    };
    let mut h = 0;
    for k in kids {
        let kid = match k {
            Object::Reference(kid) => *kid,
            _ => return false,
        };
        let mut hk = 0;
        if !walk(doc, kid, seen, out, &mut hk) {
            return false;
        }
        h = h.max(hk);
    }
    *height = h + 1;
    true
}

/// Some((leaves in depth-first left-to-right order, height)) when Root -> Pages leads to a proper tree.
fn own_dfs(doc: &Document) -> Option<(Vec<ObjectId>, usize)> {
    let root = match doc.trailer.get(b"Root") {
        Ok(Object::Reference(id)) => *id,
        _ => return None,
    };
    let cat = match doc.objects.get(&root).and_then(|o| resolve(doc, o)) {
        Some(Object::Dictionary(d)) => d,
        _ => return None,
    };
    let pages = match cat.get(b"Pages") {
        Ok(Object::Reference(id)) => *id,
        _ => return None,
    };
    let mut seen = HashSet::new();
    let mut out = vec![];
    let mut h = 0;
    // the root must be an intermediate node
    let is_node = matches!(doc.objects.get(&pages).and_then(|o| resolve(doc, o)), Some(Object::Dictionary(d)) if matches!(d.get(b"Type"), Ok(Object::Name(n)) if n == b"Pages"));
    if is_node && walk(doc, pages, &mut seen, &mut out, &mut h) {
        Some((out, h))
    } else {
        None
    }
}

/// how two enumerations differ: in full when short, else lengths + the first position where they part
fn differs(got: &[ObjectId], want: &[ObjectId]) -> String {
    if got.len().max(want.len()) <= 24 {
        return format!("{:?} differs from {:?}", got, want);
    }
    let k = got.iter().zip(want.iter()).take_while(|(a, b)| a == b).count();
    format!(
        "has {} pages, expected {}; the first {} agree, then page {} is {:?}, expected {:?}",
        got.len(),
        want.len(),
        k,
        k + 1,
        got.get(k),
        want.get(k)
    )
}

/// documented bound of the property (PAGE_TREE_DEPTH_LIMIT of src/document.rs; the model reads the real constant)
const DEPTH_LIMIT: usize = 256;

fn main() {
    lvh::drive(|x| {
        let a = x.args();
        let doc = match doc_of_sx(&a[0]) {
            Some(d) => d,
            None => return (Sx::id("badcase"), "skip".into()),
        };
        let iter: Vec<_> = doc.page_iter().collect();
        let pages = doc.get_pages();
        // size_hint of the fresh iterator and after every page it returns
        let mut it = doc.page_iter();
        let h0 = it.size_hint();
        let mut steps: Vec<(ObjectId, (usize, Option<usize>))> = vec![];
        while let Some(id) = it.next() {
            steps.push((id, it.size_hint()));
            if steps.len() > doc.objects.len() + 1 {
                break;
            }
        }
        let hint_sx = |h: &(usize, Option<usize>)| -> Vec<Sx> {
            vec![Sx::num(h.0), h.1.map(Sx::num).unwrap_or_else(|| Sx::id("none"))]
        };
        let mut hints = vec![Sx::L(hint_sx(&h0))];
        for (id, h) in &steps {
            let mut v = vec![oid_to_sx(*id)];
            v.extend(hint_sx(h));
            hints.push(Sx::L(v));
        }
        let res = Sx::tagged(
            "pages",
            vec![
                Sx::L(iter.iter().map(|id| oid_to_sx(*id)).collect()),
                Sx::L(pages.iter().map(|(n, id)| Sx::L(vec![Sx::num(n), oid_to_sx(*id)])).collect()),
                Sx::tagged("hints", hints),
            ],
        );
        // direct property evaluation
        let mut verdict = "ok".to_string();
        let numbered_ok = pages.len() == iter.len()
            && pages.iter().enumerate().all(|(i, (n, id))| *n as usize == i + 1 && *id == iter[i]);
        if !numbered_ok {
            verdict = "FAIL get_pages is not page_iter numbered 1..n".into();
        }
        for id in &iter {
            let is_page = doc
                .get_dictionary(*id)
                .ok()
                .and_then(|d| d.get(b"Type").ok())
                .and_then(|t| t.as_name().ok())
                .map(|n| n == b"Page")
                .unwrap_or(false);
            if !is_page {
                verdict = format!("FAIL yielded {:?} which is not a Page dictionary", id);
            }
        }
        if iter.len() > doc.objects.len() {
            verdict = "FAIL more pages than objects".into();
        }
        // stepping the iterator by hand sees the same pages as collect(), and nth(k) is page k+1
        if steps.iter().map(|(id, _)| *id).collect::<Vec<_>>() != iter {
            verdict = "FAIL stepping page_iter by hand differs from collecting it".into();
        }
        for k in [0, 1, iter.len() / 2, iter.len().saturating_sub(1), iter.len()] {
            if doc.page_iter().nth(k) != iter.get(k).copied() {
                verdict = format!("FAIL page_iter().nth({}) is not page {} of the enumeration", k, k + 1);
            }
            if pages.get(&(k as u32 + 1)) != iter.get(k) {
                verdict = format!("FAIL get_pages()[{}] is not page {} of the enumeration", k + 1, k + 1);
            }
        }
        // size_hint, on any document: the promised upper bound holds at every observed state and lower <= upper
        let all_hints: Vec<(usize, Option<usize>)> = std::iter::once(h0).chain(steps.iter().map(|(_, h)| *h)).collect();
        for (k, (lo, hi)) in all_hints.iter().enumerate() {
            let remaining = iter.len().saturating_sub(k);
            match hi {
                Some(hi) if *hi < remaining => {
                    verdict = format!("FAIL size_hint promises at most {} more pages after page {}, {} follow", hi, k, remaining)
                }
                Some(hi) if lo > hi => verdict = format!("FAIL size_hint lower bound {} above upper bound {}", lo, hi),
                _ => {}
            }
        }
        // depth-first order, twice independently: the harness's own walk over the object graph (whenever that graph is
        // a proper tree within the documented height) and the leaf list the generator recorded while building the tree
        let own = own_dfs(&doc);
        if let Some((want, h)) = &own {
            if *h <= DEPTH_LIMIT + 1 && *want != iter {
                verdict = format!("FAIL page_iter vs the depth-first leaves (harness walk, height {}): page_iter {}", h, differs(&iter, want));
            }
        }
        let exact_counts = a.get(2).map(|f| f.tag() == Some("flags") && f.args().iter().any(|x| x.is_id("exact-counts"))).unwrap_or(false);
        if let Some((want, h)) = &own {
            if *h <= DEPTH_LIMIT + 1 {
                // a represented tree whose Count entries are right: the lower bound is the number of pages to come
                if exact_counts {
                    for (k, (lo, _)) in all_hints.iter().enumerate() {
                        if *lo != want.len().saturating_sub(k) {
                            verdict = format!("FAIL size_hint after page {} is {}, {} pages follow (all Count entries are exact)", k, lo, want.len().saturating_sub(k));
                        }
                    }
                }
                // deleting page k leaves the other pages in their order (page numbers address the enumeration)
                if !want.is_empty() {
                    let k = want.len() / 2;
                    let mut d2 = doc.clone();
                    d2.delete_pages(&[k as u32 + 1]);
                    let mut left = want.clone();
                    left.remove(k);
                    let got: Vec<_> = d2.page_iter().collect();
                    if got != left {
                        verdict = format!("FAIL after delete_pages([{}]) the enumeration {}", k + 1, differs(&got, &left));
                    }
                }
            }
        }
        if let Some(exp) = a.get(1) {
            if exp.tag() == Some("leaves") {
                let want: Vec<_> = exp.args().iter().filter_map(oid_of_sx).collect();
                if want != iter {
                    verdict = format!("FAIL page_iter vs DFS leaves (generator): page_iter {}", differs(&iter, &want));
                } else if own.as_ref().map(|(w, _)| w) != Some(&want) {
                    verdict = "FAIL machinery: generator and harness disagree on the tree".into();
                }
            }
        }
        (res, verdict)
    });
}
