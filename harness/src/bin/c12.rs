//! C12: page enumeration.  Case: (case <doc> <expect>) where expect is
//!   (leaves (id gen)...)  -- the generator's own DFS leaves of the tree it built, or
//!   (malformed)           -- only termination / page-ness / numbering are checked.
use lvh::conv::*;
use lvh::sx::Sx;

fn main() {
    lvh::drive(|x| {
        let a = x.args();
        let doc = match doc_of_sx(&a[0]) {
            Some(d) => d,
            None => return (Sx::id("badcase"), "skip".into()),
        };
        let iter: Vec<_> = doc.page_iter().collect();
        let pages = doc.get_pages();
        let res = Sx::tagged(
            "pages",
            vec![
                Sx::L(iter.iter().map(|id| oid_to_sx(*id)).collect()),
                Sx::L(pages.iter().map(|(n, id)| Sx::L(vec![Sx::num(n), oid_to_sx(*id)])).collect()),
            ],
        );
        // direct property evaluation
        let mut verdict = "ok".to_string();
        let numbered_ok = pages.len() == iter.len()
            && pages.iter().enumerate().all(|(i, (n, id))| *n as usize == i + 1 && *id == iter[i]);
        if !numbered_ok {
            verdict = "FAIL get_pages is not page_iter numbered 1..n".into();
        }
        for id in &iter {
            let is_page = doc
                .get_dictionary(*id)
                .ok()
                .and_then(|d| d.get(b"Type").ok())
                .and_then(|t| t.as_name().ok())
                .map(|n| n == b"Page")
                .unwrap_or(false);
            if !is_page {
                verdict = format!("FAIL yielded {:?} which is not a Page dictionary", id);
            }
        }
        if iter.len() > doc.objects.len() {
            verdict = "FAIL more pages than objects".into();
        }
        if let Some(exp) = a.get(1) {
            if exp.tag() == Some("leaves") {
                let want: Vec<_> = exp.args().iter().filter_map(oid_of_sx).collect();
                if want != iter {
                    verdict = format!("FAIL page_iter {:?} differs from DFS leaves {:?}", iter, want);
                }
            }
        }
        (res, verdict)
    });
}
