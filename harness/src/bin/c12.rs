//! C12: page enumeration.  Case: (case <doc> <expect>) where expect is
//!   (leaves (id gen)...)  -- the generator's own DFS leaves of the tree it built, or
//!   (malformed)           -- only termination / page-ness / numbering are checked.
//! Optional further elements: (flags exact-counts), (edits ((id gen) obj) ...) = objects that replace existing objects IN
//! PLACE after the first get_pages() (no object is added or removed, max_id stays): get_pages() is then asked again.
use lopdf::{Document, Object, ObjectId};
use lvh::conv::*;
use lvh::sx::Sx;
use std::collections::HashSet;

/// The harness's own reading of the page tree (shares nothing with lopdf's accessors): follow reference chains by
/// hand, a node is a dictionary whose Type is the name Page or Pages, the Kids of a Pages node are (behind references)
/// an array of references.  Returns false when the graph below `id` is not a tree of such nodes with pairwise
/// distinct ids (then DFS order is not defined and only the total-ness checks apply).
fn resolve<'a>(doc: &'a Document, mut o: &'a Object) -> Option<&'a Object> {
    for _ in 0..1000 {
        match o {
            Object::Reference(id) => o = doc.objects.get(id)?,
            _ => return Some(o),
        }
    }
    None
}

fn walk(doc: &Document, id: ObjectId, seen: &mut HashSet<ObjectId>, out: &mut Vec<ObjectId>, height: &mut usize) -> bool {
    if !seen.insert(id) {
        return false;
    }
    let d = match doc.objects.get(&id).and_then(|o| resolve(doc, o)) {
        Some(Object::Dictionary(d)) => d,
        _ => return false,
    };
    let ty = match d.get(b"Type") {
        Ok(Object::Name(n)) => n.as_slice(),
        _ => return false,
    };
    if ty == b"Page" {
        out.push(id);
        *height = 0;
        return true;
    }
    if ty != b"Pages" {
        return false;
    }
    let kids = match d.get(b"Kids").ok().and_then(|k| resolve(doc, k)) {
        Some(Object::Array(a)) => a,
        _ => return false,
    };
    let mut h = 0;
    for k in kids {
        let kid = match k {
            Object::Reference(kid) => *kid,
            _ => return false,
        };
        let mut hk = 0;
        if !walk(doc, kid, seen, out, &mut hk) {
            return false;
        }
        h = h.max(hk);
    }
    *height = h + 1;
    true
}

/// Some((leaves in depth-first left-to-right order, height)) when Root -> Pages leads to a proper tree.
fn own_dfs(doc: &Document) -> Option<(Vec<ObjectId>, usize)> {
    let root = match doc.trailer.get(b"Root") {
        Ok(Object::Reference(id)) => *id,
        _ => return None,
    };
    let cat = match doc.objects.get(&root).and_then(|o| resolve(doc, o)) {
        Some(Object::Dictionary(d)) => d,
        _ => return None,
    };
    let pages = match cat.get(b"Pages") {
        Ok(Object::Reference(id)) => *id,
        _ => return None,
    };
    let mut seen = HashSet::new();
    let mut out = vec![];
    let mut h = 0;
    // the root must be an intermediate node
    let is_node = matches!(doc.objects.get(&pages).and_then(|o| resolve(doc, o)), Some(Object::Dictionary(d)) if matches!(d.get(b"Type"), Ok(Object::Name(n)) if n == b"Pages"));
    if is_node && walk(doc, pages, &mut seen, &mut out, &mut h) {
        Some((out, h))
    } else {
        None
    }
}

/// how two enumerations differ: in full when short, else lengths + the first position where they part
fn differs(got: &[ObjectId], want: &[ObjectId]) -> String {
    if got.len().max(want.len()) <= 24 {
        return format!("{:?} differs from {:?}", got, want);
    }
    let k = got.iter().zip(want.iter()).take_while(|(a, b)| a == b).count();
    format!(
        "has {} pages, expected {}; the first {} agree, then page {} is {:?}, expected {:?}",
        got.len(),
        want.len(),
        k,
        k + 1,
        got.get(k),
        want.get(k)
    )
}

/// documented bound of the property (PAGE_TREE_DEPTH_LIMIT of src/document.rs; the model reads the real constant)
const DEPTH_LIMIT: usize = 256;

fn main() {
    lvh::drive(|x| {
        let a = x.args();
        let mut doc = match doc_of_sx(&a[0]) {
            Some(d) => d,
            None => return (Sx::id("badcase"), "skip".into()),
        };
        // in-place replacements of existing objects, applied after everything else was asked of the document as built
        let edits: Option<Vec<(ObjectId, Object)>> = match a.iter().skip(1).find(|e| e.tag() == Some("edits")) {
            None => None,
            Some(e) => {
                let parsed: Option<Vec<(ObjectId, Object)>> = e
                    .args()
                    .iter()
                    .map(|p| {
                        let l = p.as_list()?;
                        if l.len() != 2 {
                            return None;
                        }
                        Some((oid_of_sx(&l[0])?, obj_of_sx(&l[1])?))
                    })
                    .collect();
                match parsed {
                    Some(v) => Some(v),
                    None => return (Sx::id("badcase"), "skip".into()),
                }
            }
        };
        let iter: Vec<_> = doc.page_iter().collect();
        let pages = doc.get_pages();
        // size_hint of the fresh iterator and after every page it returns
        let mut steps: Vec<(ObjectId, (usize, Option<usize>))> = vec![];
        let h0 = {
            let mut it = doc.page_iter();
            let h0 = it.size_hint();
            while let Some(id) = it.next() {
                steps.push((id, it.size_hint()));
                if steps.len() > doc.objects.len() + 1 {
                    break;
                }
            }
            h0
        };
        let hint_sx = |h: &(usize, Option<usize>)| -> Vec<Sx> {
            vec![Sx::num(h.0), h.1.map(Sx::num).unwrap_or_else(|| Sx::id("none"))]
        };
        let mut hints = vec![Sx::L(hint_sx(&h0))];
        for (id, h) in &steps {
            let mut v = vec![oid_to_sx(*id)];
            v.extend(hint_sx(h));
            hints.push(Sx::L(v));
        }
        let iter_sx = |it: &[ObjectId]| Sx::L(it.iter().map(|id| oid_to_sx(*id)).collect());
        let pages_sx = |ps: &std::collections::BTreeMap<u32, ObjectId>| Sx::L(ps.iter().map(|(n, id)| Sx::L(vec![Sx::num(n), oid_to_sx(*id)])).collect());
        let mut res_items = vec![iter_sx(&iter), pages_sx(&pages), Sx::tagged("hints", hints)];
        // direct property evaluation
        let mut verdict = "ok".to_string();
        let numbered_ok = pages.len() == iter.len()
            && pages.iter().enumerate().all(|(i, (n, id))| *n as usize == i + 1 && *id == iter[i]);
        if !numbered_ok {
            verdict = "FAIL get_pages is not page_iter numbered 1..n".into();
        }
        for id in &iter {
            let is_page = doc
                .get_dictionary(*id)
                .ok()
                .and_then(|d| d.get(b"Type").ok())
                .and_then(|t| t.as_name().ok())
                .map(|n| n == b"Page")
                .unwrap_or(false);
            if !is_page {
                verdict = format!("FAIL yielded {:?} which is not a Page dictionary", id);
            }
        }
        if iter.len() > doc.objects.len() {
            verdict = "FAIL more pages than objects".into();
        }
        // stepping the iterator by hand sees the same pages as collect(), and nth(k) is page k+1
        if steps.iter().map(|(id, _)| *id).collect::<Vec<_>>() != iter {
            verdict = "FAIL stepping page_iter by hand differs from collecting it".into();
        }
        for k in [0, 1, iter.len() / 2, iter.len().saturating_sub(1), iter.len()] {
            if doc.page_iter().nth(k) != iter.get(k).copied() {
                verdict = format!("FAIL page_iter().nth({}) is not page {} of the enumeration", k, k + 1);
            }
            if pages.get(&(k as u32 + 1)) != iter.get(k) {
                verdict = format!("FAIL get_pages()[{}] is not page {} of the enumeration", k + 1, k + 1);
            }
        }
        // size_hint, on any document: the promised upper bound holds at every observed state and lower <= upper
        let all_hints: Vec<(usize, Option<usize>)> = std::iter::once(h0).chain(steps.iter().map(|(_, h)| *h)).collect();
        for (k, (lo, hi)) in all_hints.iter().enumerate() {
            let remaining = iter.len().saturating_sub(k);
            match hi {
                Some(hi) if *hi < remaining => {
                    verdict = format!("FAIL size_hint promises at most {} more pages after page {}, {} follow", hi, k, remaining)
                }
                Some(hi) if lo > hi => verdict = format!("FAIL size_hint lower bound {} above upper bound {}", lo, hi),
                _ => {}
            }
        }
        // depth-first order, twice independently: the harness's own walk over the object graph (whenever that graph is
        // a proper tree within the documented height) and the leaf list the generator recorded while building the tree
        let own = own_dfs(&doc);
        if let Some((want, h)) = &own {
            if *h <= DEPTH_LIMIT + 1 && *want != iter {
                verdict = format!("FAIL page_iter vs the depth-first leaves (harness walk, height {}): page_iter {}", h, differs(&iter, want));
            }
        }
        let exact_counts = a.get(2).map(|f| f.tag() == Some("flags") && f.args().iter().any(|x| x.is_id("exact-counts"))).unwrap_or(false);
        if let Some((want, h)) = &own {
            if *h <= DEPTH_LIMIT + 1 {
                // a represented tree whose Count entries are right: the lower bound is the number of pages to come
                if exact_counts {
                    for (k, (lo, _)) in all_hints.iter().enumerate() {
                        if *lo != want.len().saturating_sub(k) {
                            verdict = format!("FAIL size_hint after page {} is {}, {} pages follow (all Count entries are exact)", k, lo, want.len().saturating_sub(k));
                        }
                    }
                }
                // deleting page k leaves the other pages in their order (page numbers address the enumeration)
                if !want.is_empty() {
                    let k = want.len() / 2;
                    let mut d2 = doc.clone();
                    d2.delete_pages(&[k as u32 + 1]);
                    let mut left = want.clone();
                    left.remove(k);
                    let got: Vec<_> = d2.page_iter().collect();
                    if got != left {
                        verdict = format!("FAIL after delete_pages([{}]) the enumeration {}", k + 1, differs(&got, &left));
                    }
                }
            }
        }
        if let Some(exp) = a.get(1) {
            if exp.tag() == Some("leaves") {
                let want: Vec<_> = exp.args().iter().filter_map(oid_of_sx).collect();
                if want != iter {
                    verdict = format!("FAIL page_iter vs DFS leaves (generator): page_iter {}", differs(&iter, &want));
                } else if own.as_ref().map(|(w, _)| w) != Some(&want) {
                    verdict = "FAIL machinery: generator and harness disagree on the tree".into();
                }
            }
        }
        // get_pages() numbers the pages of the tree AS IT IS AT THE TIME OF THE CALL: ask, rearrange the tree in place
        // (existing objects replaced under their own identifiers: objects.len() and max_id stay), ask again.
        if let Some(edits) = edits {
            let mut v2 = String::new();
            let before = doc.get_pages();
            if before != pages {
                v2 = "FAIL two get_pages() calls on the unchanged document differ".into();
            }
            let (n_objects, max_id) = (doc.objects.len(), doc.max_id);
            let mut saved: Vec<(ObjectId, Object)> = vec![];
            for (id, o) in &edits {
                match doc.objects.get_mut(id) {
                    Some(slot) => {
                        saved.push((*id, slot.clone()));
                        *slot = o.clone();
                    }
                    None => return (Sx::id("badcase"), "skip".into()),
                }
            }
            if doc.objects.len() != n_objects || doc.max_id != max_id {
                return (Sx::id("badcase"), "FAIL machinery: the edit was not in place".into());
            }
            let pages2 = doc.get_pages();
            let iter2: Vec<ObjectId> = doc.page_iter().collect();
            res_items.push(Sx::tagged("after", vec![iter_sx(&iter2), pages_sx(&pages2)]));
            let listed = |ps: &std::collections::BTreeMap<u32, ObjectId>| -> Option<Vec<ObjectId>> {
                // Some(ids in order) when the keys are exactly 1..n
                if ps.keys().enumerate().all(|(i, n)| *n as usize == i + 1) {
                    Some(ps.values().copied().collect())
                } else {
                    None
                }
            };
            match listed(&pages2) {
                None => v2 = "FAIL after an in-place edit of the page tree get_pages() is not numbered 1..n".into(),
                Some(got) => {
                    if got != iter2 {
                        v2 = format!(
                            "FAIL after an in-place edit of the page tree get_pages() is not the numbering of page_iter() of the edited document: get_pages {}{}",
                            differs(&got, &iter2),
                            if Some(&got) == listed(&pages).as_ref() { " (it is the numbering of the document BEFORE the edit)" } else { "" }
                        );
                    }
                    // the depth-first leaves of the edited tree, read by the harness itself
                    if let Some((want, h)) = own_dfs(&doc) {
                        if h <= DEPTH_LIMIT + 1 {
                            if want != iter2 {
                                v2 = format!("FAIL after an in-place edit page_iter vs the depth-first leaves of the edited tree (harness walk): page_iter {}", differs(&iter2, &want));
                            }
                            if want != got {
                                v2 = format!("FAIL after an in-place edit get_pages() vs the depth-first leaves of the edited tree (harness walk): get_pages {}", differs(&got, &want));
                            }
                        }
                    }
                }
            }
            // a clone taken now numbers the edited tree as well
            if doc.clone().get_pages() != pages2 && listed(&pages2).as_ref() == Some(&iter2) {
                v2 = "FAIL a clone of the edited document numbers its pages differently".into();
            }
            // and back: the original objects restored, the first numbering is the answer again
            for (id, o) in saved.into_iter().rev() {
                doc.objects.insert(id, o);
            }
            let pages3 = doc.get_pages();
            if pages3 != pages && numbered_ok {
                v2 = "FAIL after undoing the in-place edit get_pages() is not the first numbering again".into();
            }
            // a verdict on the document as built (above) is the more direct one and is kept
            if verdict == "ok" && !v2.is_empty() {
                verdict = v2;
            }
        }
        (Sx::tagged("pages", res_items), verdict)
    });
}
