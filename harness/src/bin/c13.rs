//! C13: read-only queries are total on arbitrary object graphs.
//! Case: (case <doc>).  Every public read-only query is called on the document, for every object id
//! of the document plus one dangling id where the query takes a page id / dictionary.
//!
//! Isolation: the parent process (no flag) handles one case per stdin line and runs the queries in a
//! CHILD process (`c13 --worker <from>`), group by group, each group under a wall-clock timeout.  A hang
//! (timeout, child killed) or an abort (stack overflow, allocation failure: child dies on a signal)
//! of group k is recorded as `(diverge)` for that group and the remaining groups are run in a fresh child.
//! Panics are caught per call inside the worker and reported as `(panic <class>)`.
//!
//! Case (big KIND N STACK_KIB): a document the worker BUILDS -- catalog 1, outline root 2, N small filler objects, and items
//! whose `First` links form a 2-cycle (KIND first-cycle) or a chain of N items (KIND first-chain) -- so that the reference
//! budget `objects.len()` is far above what the stack holds: nesting must be cut by the depth limits.  The groups that are
//! not per-object (cat hint pages outlines toc text) run on a thread with a stack of STACK_KIB KiB, the others print
//! `(skipped)`; there is no model answer for this case (the runner prints `model-skipped`), the verdict decides alone.
//!
//! Result: (res (obj ...) (cat ..) (did ...) (hint ..) (pages ..) (contents ...) (content ...) (resources ...)
//!              (fonts ...) (annots ...) (images ...) (nd ...) (outlines ..) (toc ..) (enc ...))
//! Verdict: ok iff no call panicked, hung or aborted (the property itself).
use indexmap::IndexMap;
use lopdf::{Destination, Dictionary, Document, Encoding, Error, Object, ObjectId, Outline};
use lvh::conv::*;
use lvh::sx::Sx;
use std::io::{BufRead, Read, Write};
use std::panic::{catch_unwind, AssertUnwindSafe};
use std::process::{Command, Stdio};
use std::sync::mpsc;
use std::time::Duration;

const GROUPS: [&str; 16] = [
    "obj", "cat", "did", "hint", "pages", "contents", "content", "resources", "fonts", "annots", "images", "nd",
    "outlines", "toc", "enc", "text",
];
const DANGLING: ObjectId = (9999, 0);

fn panic_class(msg: &str) -> &'static str {
    if msg.contains("index out of bounds") || msg.contains("out of range for slice") {
        "index"
    } else if msg.contains("capacity overflow") {
        "capacity"
    } else if msg.contains("with overflow") {
        "overflow"
    } else if msg.contains("unwrap()") || msg.contains("expect") {
        "unwrap"
    } else if msg.contains("not implemented") {
        "unimpl"
    } else {
        "other"
    }
}

/// run one call; Ok(sx) or (panic class)
fn guard<F: FnOnce() -> Sx>(f: F) -> Sx {
    match catch_unwind(AssertUnwindSafe(f)) {
        Ok(s) => s,
        Err(e) => {
            let msg = if let Some(s) = e.downcast_ref::<&str>() {
                s.to_string()
            } else if let Some(s) = e.downcast_ref::<String>() {
                s.clone()
            } else {
                "?".to_string()
            };
            Sx::tagged("panic", vec![Sx::id(panic_class(&msg))])
        }
    }
}

fn ok(v: Sx) -> Sx {
    Sx::tagged("ok", vec![v])
}
fn err() -> Sx {
    Sx::id("err")
}
fn res<T, F: FnOnce(T) -> Sx>(r: Result<T, Error>, f: F) -> Sx {
    match r {
        Ok(v) => ok(f(v)),
        Err(_) => err(),
    }
}
fn ustr(s: &str) -> Sx {
    Sx::tagged("u", s.chars().map(|c| Sx::num(c as u32)).collect())
}
fn opt<T, F: FnOnce(T) -> Sx>(o: Option<T>, f: F) -> Sx {
    match o {
        Some(v) => f(v),
        None => Sx::id("none"),
    }
}
fn ids_sx(v: &[ObjectId]) -> Sx {
    Sx::L(v.iter().map(|i| oid_to_sx(*i)).collect())
}

fn dest_sx(d: &Destination) -> Sx {
    Sx::tagged(
        "dest",
        vec![opt(d.title().ok(), obj_to_sx), opt(d.page().ok(), obj_to_sx)],
    )
}
fn outline_sx(o: &Outline) -> Sx {
    match o {
        Outline::Destination(d) => dest_sx(d),
        Outline::SubOutlines(l) => Sx::tagged("sub", l.iter().map(outline_sx).collect()),
    }
}
fn named_sx(m: &IndexMap<Vec<u8>, Destination>) -> Sx {
    Sx::L(m.iter().map(|(k, d)| Sx::L(vec![Sx::bytes(k), dest_sx(d)])).collect())
}

fn all_ids(doc: &Document) -> Vec<ObjectId> {
    let mut v: Vec<ObjectId> = doc.objects.keys().cloned().collect();
    v.push(DANGLING);
    v
}

fn per_id<F: Fn(ObjectId) -> Sx>(doc: &Document, f: F) -> Sx {
    Sx::L(all_ids(doc).into_iter().map(|id| Sx::L(vec![oid_to_sx(id), guard(|| f(id))])).collect())
}
/// for every id whose get_dictionary succeeds
fn per_dict<F: Fn(&Dictionary) -> Sx>(doc: &Document, f: F) -> Sx {
    Sx::L(
        all_ids(doc)
            .into_iter()
            .filter_map(|id| doc.get_dictionary(id).ok().map(|d| (id, d)))
            .map(|(id, d)| Sx::L(vec![oid_to_sx(id), guard(|| f(d))]))
            .collect(),
    )
}

fn enc_sx(r: Result<Encoding, Error>) -> Sx {
    match r {
        Ok(Encoding::OneByteEncoding(t)) => {
            // which table: identify by address against the public decode of a probe byte is not possible;
            // distinguish the five tables by their images of bytes 0x80, 0xA4, 0x27 and 0x60
            let probe: Vec<Sx> = [0x27usize, 0x60, 0x80, 0xa4, 0xe0]
                .iter()
                .map(|&b| Sx::num(t[b].map(|c| c as i64).unwrap_or(-1)))
                .collect();
            Sx::tagged("onebyte", probe)
        }
        Ok(Encoding::SimpleEncoding(n)) => Sx::tagged("simple", vec![Sx::bytes(n)]),
        Ok(Encoding::UnicodeMapEncoding(_)) => Sx::id("tounicode"),
        // the ToUnicode stream was found and handed to get_plain_content / ToUnicodeCMap::parse (C09/C15 ground)
        Err(Error::ToUnicodeCMap(_)) | Err(Error::Decompress(_)) | Err(Error::IO(_)) | Err(Error::Unimplemented(_)) => {
            Sx::id("tounicode")
        }
        Err(_) => err(),
    }
}

fn run_group(doc: &Document, g: usize) -> Sx {
    let body: Sx = match GROUPS[g] {
        "obj" => per_id(doc, |id| {
            let go = res(doc.get_object(id), obj_to_sx);
            let r = Object::Reference(id);
            let de = res(doc.dereference(&r), |(i, o)| Sx::L(vec![opt(i, oid_to_sx), obj_to_sx(o)]));
            let gd = res(doc.get_dictionary(id), dict_to_sx);
            Sx::L(vec![go, de, gd])
        }),
        "cat" => guard(|| res(doc.catalog(), dict_to_sx)),
        "did" => per_dict(doc, |d| {
            Sx::L(
                [&b"Resources"[..], b"Next", b"A", b"XObject"]
                    .iter()
                    .map(|k| res(doc.get_dict_in_dict(d, k), dict_to_sx))
                    .collect(),
            )
        }),
        "hint" => guard(|| {
            let mut it = doc.page_iter();
            let h0 = it.size_hint();
            let first = it.next();
            let h1 = it.size_hint();
            let h = |h: (usize, Option<usize>)| Sx::L(vec![Sx::num(h.0), opt(h.1, Sx::num)]);
            // std adapters consult size_hint (with debug assertions they check what it promises)
            let adapters = guard(|| {
                let a = doc.page_iter().filter(|_| true).count();
                let b = doc.page_iter().skip(1).step_by(2).count();
                let c = doc.page_iter().chain(doc.page_iter()).map(|x| x).collect::<Vec<_>>().len();
                let d = doc.page_iter().enumerate().peekable().count();
                let e = doc.page_iter().take(3).collect::<std::collections::VecDeque<_>>().len();
                Sx::L(vec![Sx::num(a), Sx::num(b), Sx::num(c), Sx::num(d), Sx::num(e)])
            });
            Sx::L(vec![h(h0), opt(first, oid_to_sx), h(h1), adapters])
        }),
        "pages" => guard(|| {
            let it: Vec<ObjectId> = doc.page_iter().collect();
            let pages = doc.get_pages();
            Sx::L(vec![
                ids_sx(&it),
                Sx::L(pages.iter().map(|(n, id)| Sx::L(vec![Sx::num(n), oid_to_sx(*id)])).collect()),
            ])
        }),
        "contents" => per_id(doc, |id| ids_sx(&doc.get_page_contents(id))),
        "content" => per_id(doc, |id| res(doc.get_page_content(id), |b| Sx::bytes(&b))),
        "resources" => per_id(doc, |id| {
            res(doc.get_page_resources(id), |(d, ids)| Sx::L(vec![opt(d, dict_to_sx), ids_sx(&ids)]))
        }),
        "fonts" => per_id(doc, |id| {
            res(doc.get_page_fonts(id), |m| {
                Sx::L(m.iter().map(|(k, d)| Sx::L(vec![Sx::bytes(k), dict_to_sx(d)])).collect())
            })
        }),
        "annots" => per_id(doc, |id| {
            res(doc.get_page_annotations(id), |v| Sx::L(v.iter().map(|d| dict_to_sx(d)).collect()))
        }),
        "images" => per_id(doc, |id| {
            res(doc.get_page_images(id), |v| {
                Sx::L(
                    v.iter()
                        .map(|im| {
                            Sx::tagged(
                                "img",
                                vec![
                                    oid_to_sx(im.id),
                                    Sx::num(im.width),
                                    Sx::num(im.height),
                                    opt(im.color_space.as_deref(), ustr),
                                    opt(im.bits_per_component, Sx::num),
                                    Sx::L(im.filters.clone().unwrap_or_default().iter().map(|f| ustr(f)).collect()),
                                ],
                            )
                        })
                        .collect(),
                )
            })
        }),
        "nd" => per_dict(doc, |d| {
            let mut m = IndexMap::new();
            let r = doc.get_named_destinations(d, &mut m);
            // the map is filled in place: what was inserted before an error is observable
            Sx::L(vec![if r.is_ok() { Sx::id("ok") } else { err() }, named_sx(&m)])
        }),
        "outlines" => guard(|| {
            let mut m = IndexMap::new();
            let r = doc.get_outlines(None, None, &mut m);
            Sx::L(vec![
                res(r, |o| opt(o, |l| Sx::L(l.iter().map(outline_sx).collect()))),
                named_sx(&m),
            ])
        }),
        "toc" => guard(|| {
            res(doc.get_toc(), |t| {
                Sx::L(vec![
                    Sx::L(
                        t.toc
                            .iter()
                            .map(|r| Sx::tagged("row", vec![Sx::num(r.level), ustr(&r.title), Sx::num(r.page)]))
                            .collect(),
                    ),
                    Sx::num(t.errors.len()),
                ])
            })
        }),
        "enc" => per_dict(doc, |d| enc_sx(d.get_font_encoding(doc))),
        "text" => {
            // outcome class only (the text itself is C15/C16 ground): (text) unless it panics
            let n = doc.page_iter().count() as u32;
            let nums: Vec<u32> = (1..=n + 1).collect();
            let g = guard(|| {
                let _ = doc.extract_text(&nums);
                let _ = doc.extract_text_chunks(&nums);
                Sx::id("done")
            });
            if g.is_id("done") {
                Sx::L(vec![])
            } else {
                g
            }
        }
        _ => Sx::id("nogroup"),
    };
    Sx::tagged(GROUPS[g], vec![body])
}

const BIG_GROUPS: [&str; 6] = ["cat", "hint", "pages", "outlines", "toc", "text"];

/// (big KIND N STACK_KIB): the document and the stack size in bytes
fn big_doc(x: &Sx) -> Option<(Document, usize)> {
    let a = x.args();
    let kind = std::str::from_utf8(a.first()?.as_atom()?).ok()?.to_string();
    let n = a.get(1)?.as_u64()? as u32;
    let kib = a.get(2)?.as_u64()? as usize;
    if !(1..=2_000_000).contains(&n) || !(64..=1 << 20).contains(&kib) {
        return None;
    }
    let mut doc = Document::with_version("1.5");
    let dict = |es: Vec<(&str, Object)>| Object::Dictionary(es.into_iter().collect::<Dictionary>());
    let r = |i: u32| Object::Reference((i, 0));
    let dest = || Object::Array(vec![r(1), Object::Name(b"Fit".to_vec())]);
    doc.objects.insert((1, 0), dict(vec![("Type", Object::Name(b"Catalog".to_vec())), ("Outlines", r(2))]));
    doc.objects.insert((2, 0), dict(vec![("Type", Object::Name(b"Outlines".to_vec())), ("First", r(3))]));
    match kind.as_str() {
        "first-cycle" => {
            doc.objects.insert((3, 0), dict(vec![("Title", Object::string_literal("a")), ("Dest", dest()), ("First", r(4))]));
            doc.objects.insert((4, 0), dict(vec![("Title", Object::string_literal("b")), ("Dest", dest()), ("First", r(3))]));
            for i in 0..n {
                doc.objects.insert((5 + i, 0), if i % 2 == 0 { Object::Null } else { Object::Integer(i as i64) });
            }
        }
        "first-chain" => {
            for i in 0..n {
                let mut es = vec![("Title", Object::string_literal("t")), ("Dest", dest())];
                if i + 1 < n {
                    es.push(("First", r(4 + i)));
                }
                doc.objects.insert((3 + i, 0), dict(es));
            }
        }
        _ => return None,
    }
    doc.max_id = doc.objects.keys().next_back().map(|k| k.0).unwrap_or(0);
    doc.trailer.set("Root", r(1));
    Some((doc, kib * 1024))
}

fn worker(from: usize) {
    std::panic::set_hook(Box::new(|_| {}));
    let mut line = String::new();
    std::io::stdin().read_to_string(&mut line).unwrap();
    let x = match lvh::sx::parse_one(line.trim()) {
        Some(x) => x,
        None => return,
    };
    if x.tag() == Some("big") {
        let (doc, stack) = match big_doc(&x) {
            Some(d) => d,
            None => {
                println!("badcase");
                return;
            }
        };
        // a stack overflow on this thread takes the whole process down (SIGABRT), as on the main thread
        let h = std::thread::Builder::new().stack_size(stack).spawn(move || {
            let out = std::io::stdout();
            for g in from..GROUPS.len() {
                let s = if BIG_GROUPS.contains(&GROUPS[g]) {
                    run_group(&doc, g)
                } else {
                    Sx::tagged(GROUPS[g], vec![Sx::tagged("skipped", vec![])])
                };
                let mut o = out.lock();
                writeln!(o, "{} {}", g, s.print()).unwrap();
                o.flush().unwrap();
            }
        });
        let _ = h.expect("spawn").join();
        return;
    }
    let doc = match x.args().first().and_then(doc_of_sx) {
        Some(d) => d,
        None => {
            println!("badcase");
            return;
        }
    };
    let out = std::io::stdout();
    for g in from..GROUPS.len() {
        let s = run_group(&doc, g);
        let mut o = out.lock();
        writeln!(o, "{} {}", g, s.print()).unwrap();
        o.flush().unwrap();
    }
}

fn has_panic(s: &Sx) -> bool {
    match s {
        Sx::A(_) => false,
        Sx::L(l) => (l.len() == 2 && l[0].is_id("panic")) || l.iter().any(has_panic),
    }
}

fn run_case(line: &str, timeout: Duration) -> (Sx, String) {
    let exe = std::env::current_exe().expect("current_exe");
    let mut results: Vec<Sx> = Vec::new();
    let mut problems: Vec<String> = Vec::new();
    let mut from = 0usize;
    while from < GROUPS.len() {
        let mut child = Command::new(&exe)
            .arg("--worker")
            .arg(from.to_string())
            .stdin(Stdio::piped())
            .stdout(Stdio::piped())
            .stderr(Stdio::null())
            .spawn()
            .expect("spawn worker");
        {
            let mut si = child.stdin.take().unwrap();
            let _ = si.write_all(line.as_bytes());
        }
        let so = child.stdout.take().unwrap();
        let (tx, rx) = mpsc::channel::<String>();
        let reader = std::thread::spawn(move || {
            for l in std::io::BufReader::new(so).lines() {
                match l {
                    Ok(l) => {
                        if tx.send(l).is_err() {
                            break;
                        }
                    }
                    Err(_) => break,
                }
            }
        });
        let mut bad = false;
        loop {
            if from >= GROUPS.len() {
                break;
            }
            match rx.recv_timeout(timeout) {
                Ok(l) => {
                    if l == "badcase" {
                        let _ = child.kill();
                        let _ = child.wait();
                        let _ = reader.join();
                        return (Sx::id("badcase"), "skip".into());
                    }
                    let (idx, rest) = l.split_once(' ').unwrap_or(("", ""));
                    if idx.parse::<usize>().ok() == Some(from) {
                        let s = lvh::sx::parse_one(rest).unwrap_or(Sx::id("unparsable"));
                        if has_panic(&s) {
                            problems.push(format!("{} panicked", GROUPS[from]));
                        }
                        results.push(s);
                        from += 1;
                    } else {
                        bad = true;
                        break;
                    }
                }
                Err(mpsc::RecvTimeoutError::Timeout) => {
                    let _ = child.kill();
                    problems.push(format!("{} did not return within {:?} (hang)", GROUPS[from], timeout));
                    results.push(Sx::tagged(GROUPS[from], vec![Sx::tagged("diverge", vec![])]));
                    from += 1;
                    break;
                }
                Err(mpsc::RecvTimeoutError::Disconnected) => {
                    // child closed stdout: finished or died
                    let st = child.wait().ok();
                    if from < GROUPS.len() {
                        let how = match st {
                            Some(s) if s.success() => "worker exited early".to_string(),
                            Some(s) => format!("worker died ({})", s),
                            None => "worker lost".to_string(),
                        };
                        problems.push(format!("{} aborted the process: {}", GROUPS[from], how));
                        results.push(Sx::tagged(GROUPS[from], vec![Sx::tagged("diverge", vec![])]));
                        from += 1;
                    }
                    break;
                }
            }
        }
        let _ = child.kill();
        let _ = child.wait();
        let _ = reader.join();
        if bad {
            return (Sx::id("protocol-error"), "FAIL worker protocol error".into());
        }
    }
    let verdict = if problems.is_empty() { "ok".to_string() } else { format!("FAIL {}", problems.join("; ")) };
    (Sx::tagged("res", results), verdict)
}

fn main() {
    let args: Vec<String> = std::env::args().collect();
    if args.len() >= 3 && args[1] == "--worker" {
        worker(args[2].parse().unwrap_or(0));
        return;
    }
    let timeout = Duration::from_millis(
        std::env::var("C13_TIMEOUT_MS").ok().and_then(|s| s.parse().ok()).unwrap_or(4000),
    );
    lvh::drive(move |x| run_case(&x.print(), timeout));
}
