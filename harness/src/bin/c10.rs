//! C10: renumbering objects preserves the document graph.
//! Case: (case <ver> (rdoc <doc> (bms (<parent> (<num> <gen>)) ...)) <start>)
//!   ver is for the model only (v1 = current code, v0 = pinned code); bookmarks are added with
//!   Document::add_bookmark in order (parent = none | <bookmark id>).
//! Result: (done <doc'> (bm (<id> (<child>...) (<num> <gen>)) ...) (pages (<num> <gen>)...)) | (panic)
//! Verdict: the property evaluated directly on the implementation, without knowledge of how the
//! renumbering is computed: the renaming is discovered by walking the trailer / bookmark targets of
//! the document before and after in lock step.
use lopdf::{Bookmark, Document, Object, ObjectId};
use lvh::conv::*;
use lvh::sx::Sx;
use std::collections::BTreeMap;

struct Iso<'a> {
    before: &'a Document,
    fwd: BTreeMap<ObjectId, ObjectId>,
    bwd: BTreeMap<ObjectId, ObjectId>,
    queue: Vec<(ObjectId, ObjectId)>,
}

impl<'a> Iso<'a> {
    fn pair(&mut self, a: ObjectId, b: ObjectId) -> Result<(), String> {
        if let Some(b0) = self.fwd.get(&a) {
            if *b0 != b {
                return Err(format!("reference {:?} was renamed to {:?} in one place and {:?} in another", a, b0, b));
            }
            return Ok(());
        }
        if let Some(a0) = self.bwd.get(&b) {
            return Err(format!("{:?} and {:?} were both renamed to {:?}: the renaming is not one-to-one", a0, a, b));
        }
        self.fwd.insert(a, b);
        self.bwd.insert(b, a);
        self.queue.push((a, b));
        Ok(())
    }

    fn dict(&mut self, x: &lopdf::Dictionary, y: &lopdf::Dictionary) -> Result<(), String> {
        if x.len() != y.len() {
            return Err("a dictionary changed its number of entries".into());
        }
        for ((k1, v1), (k2, v2)) in x.iter().zip(y.iter()) {
            if k1 != k2 {
                return Err("a dictionary changed its keys".into());
            }
            self.obj(v1, v2)?;
        }
        Ok(())
    }

    fn obj(&mut self, x: &Object, y: &Object) -> Result<(), String> {
        match (x, y) {
            (Object::Reference(a), Object::Reference(b)) => self.pair(*a, *b),
            (Object::Array(a), Object::Array(b)) => {
                if a.len() != b.len() {
                    return Err("an array changed its length".into());
                }
                for (p, q) in a.iter().zip(b.iter()) {
                    self.obj(p, q)?;
                }
                Ok(())
            }
            (Object::Dictionary(a), Object::Dictionary(b)) => self.dict(a, b),
            (Object::Stream(a), Object::Stream(b)) => {
                if a.content != b.content {
                    return Err("a stream changed its content".into());
                }
                self.dict(&a.dict, &b.dict)
            }
            // ISO 32000-1 7.3.10: a reference to an object that does not exist is a reference to the null object.
            // Writing such a reference as null changes nothing it denotes ("a reference that resolved to nothing
            // still resolves to nothing"); writing a reference that named an object as null is a violation.
            (Object::Reference(a), Object::Null) => {
                if self.before.objects.contains_key(a) {
                    Err(format!("reference {:?} resolved to an object before; afterwards it is null", a))
                } else {
                    Ok(())
                }
            }
            (Object::Reference(_), _) | (_, Object::Reference(_)) => Err("a reference appeared or disappeared".into()),
            (Object::Array(_), _) | (Object::Dictionary(_), _) | (Object::Stream(_), _) => {
                Err("an object changed its kind".into())
            }
            _ => {
                if x == y {
                    Ok(())
                } else {
                    Err("a non-reference value changed".into())
                }
            }
        }
    }
}

fn evaluate(before: &Document, after: &Document, start: u32) -> Result<(), String> {
    // 1. dense numbering and max_id
    let n = before.objects.len();
    if after.objects.len() != n {
        return Err(format!("{} objects before, {} after", n, after.objects.len()));
    }
    for (k, id) in after.objects.keys().enumerate() {
        if id.0 as u64 != start as u64 + k as u64 {
            return Err(format!("object numbers are not consecutive from {}: position {} has number {}", start, k, id.0));
        }
    }
    // "the maximum id equals the last one": the last number assigned, whatever max_id was before (ids reserved with
    // new_object_id, objects added and deleted again, a max_id that was never set) and whether or not an object moved
    match after.objects.keys().last() {
        Some(last) => {
            if after.max_id != last.0 {
                return Err(format!(
                    "max_id {} is not the last object number {} (max_id before: {})",
                    after.max_id, last.0, before.max_id
                ));
            }
        }
        None => {
            // no object: numbering continues at `start`, i.e. the last number is the one before it (0 for start 0)
            if after.max_id != start.saturating_sub(1) {
                return Err(format!(
                    "document without objects renumbered from {}: max_id is {} (before: {}), the next new object would not get number {}",
                    start, after.max_id, before.max_id, start.max(1)
                ));
            }
        }
    }
    // 2. one-to-one renaming discovered in lock step from the trailer and the bookmark targets
    let mut iso = Iso { before, fwd: BTreeMap::new(), bwd: BTreeMap::new(), queue: vec![] };
    iso.dict(&before.trailer, &after.trailer).map_err(|e| format!("trailer: {}", e))?;
    if before.bookmarks != after.bookmarks {
        return Err("the bookmark roots changed".into());
    }
    let mut i = 0;
    while i < iso.queue.len() {
        let (a, b) = iso.queue[i];
        i += 1;
        match (before.objects.get(&a), after.objects.get(&b)) {
            (Some(x), Some(y)) => iso.obj(x, y).map_err(|e| format!("object {:?} -> {:?}: {}", a, b, e))?,
            (None, None) => {}
            (None, Some(_)) => {
                return Err(format!(
                    "reference {:?} resolved to nothing before; afterwards it reads {:?} and resolves to an object",
                    a, b
                ))
            }
            (Some(_), None) => return Err(format!("reference {:?} resolved before; afterwards it reads {:?} and resolves to nothing", a, b)),
        }
    }
    // 2b. bookmark targets are ids held by the bookmarks: a target that named an object is renamed by the same
    // one-to-one renaming and still names that object, a target that named nothing still names nothing.
    // (An object that only a bookmark points to is not reachable from the trailer: it is moved as it is.)
    let mut bids: Vec<_> = before.bookmark_table.keys().cloned().collect();
    bids.sort_unstable();
    for b in &bids {
        let x = &before.bookmark_table[b];
        let y = after.bookmark_table.get(b).ok_or("a bookmark disappeared")?;
        if x.children != y.children {
            return Err("bookmark children changed".into());
        }
        if !before.objects.contains_key(&x.page) {
            // a target that named nothing still names nothing (whatever id it holds afterwards: the renaming is
            // one-to-one on the ids that name objects; ids that name nothing all denote "no page")
            if after.objects.contains_key(&y.page) {
                return Err(format!("bookmark {}: target {:?} named nothing; afterwards it reads {:?} and names an object", b, x.page, y.page));
            }
            if let Some(y2) = iso.fwd.get(&x.page) {
                if *y2 != y.page {
                    return Err(format!("bookmark {}: target {:?} was renamed to {:?}, a reference to it to {:?}", b, x.page, y.page, y2));
                }
            }
            continue;
        }
        let reached = iso.fwd.contains_key(&x.page);
        iso.pair(x.page, y.page).map_err(|e| format!("bookmark {}: {}", b, e))?;
        if !reached {
            iso.queue.pop();
            match (before.objects.get(&x.page), after.objects.get(&y.page)) {
                (Some(o), Some(o2)) => {
                    if o != o2 {
                        return Err(format!("bookmark {}: target {:?} -> {:?} is unreachable from the trailer and changed", b, x.page, y.page));
                    }
                }
                (Some(_), None) => return Err(format!("bookmark {}: target {:?} named an object; afterwards {:?} names nothing", b, x.page, y.page)),
                (None, _) => unreachable!(),
            }
        }
    }
    // 3. page order
    let pb: Vec<ObjectId> = before.page_iter().collect();
    let pa: Vec<ObjectId> = after.page_iter().collect();
    let mapped: Vec<Option<ObjectId>> = pb.iter().map(|p| iso.fwd.get(p).cloned()).collect();
    if mapped.len() != pa.len() || mapped.iter().zip(pa.iter()).any(|(m, a)| *m != Some(*a)) {
        return Err(format!("page order changed: before {:?} renamed {:?} after {:?}", pb, mapped, pa));
    }
    Ok(())
}

fn main() {
    lvh::drive(|x| {
        let a = x.args();
        if a.len() != 3 || a[1].tag() != Some("rdoc") {
            return (Sx::id("badcase"), "skip".into());
        }
        let ra = a[1].args();
        let (mut doc, start) = match (doc_of_sx(&ra[0]), a[2].as_u64()) {
            (Some(d), Some(s)) if ra.len() == 2 && s <= u32::MAX as u64 => (d, s as u32),
            _ => return (Sx::id("badcase"), "skip".into()),
        };
        for spec in ra[1].args() {
            let l = match spec.as_list() {
                Some(l) if l.len() == 2 => l,
                _ => return (Sx::id("badcase"), "skip".into()),
            };
            let parent = if l[0].is_id("none") { None } else { l[0].as_u64().map(|p| p as u32) };
            let page = match oid_of_sx(&l[1]) {
                Some(p) => p,
                None => return (Sx::id("badcase"), "skip".into()),
            };
            doc.add_bookmark(Bookmark::new("t".to_string(), [0.0, 0.0, 0.0], 0, page), parent);
        }
        let before = doc.clone();
        let r = std::panic::catch_unwind(std::panic::AssertUnwindSafe(|| {
            if start == 1 {
                doc.renumber_objects();
            } else {
                doc.renumber_objects_with(start);
            }
        }));
        if r.is_err() {
            // consecutive numbers from `start` do not exist in u32 when start + n - 1 > u32::MAX
            let n = before.objects.len() as u64;
            let v = if n >= 1 && start as u64 + n - 1 > u32::MAX as u64 {
                "skip".to_string()
            } else {
                "FAIL panic inside renumber_objects_with".to_string()
            };
            return (Sx::tagged("panic", vec![]), v);
        }
        let mut bids: Vec<_> = doc.bookmark_table.keys().cloned().collect();
        bids.sort_unstable();
        let res = Sx::tagged(
            "done",
            vec![
                doc_to_sx(&doc),
                Sx::tagged(
                    "bm",
                    bids.iter()
                        .map(|b| {
                            let e = &doc.bookmark_table[b];
                            Sx::L(vec![Sx::num(b), Sx::L(e.children.iter().map(Sx::num).collect()), oid_to_sx(e.page)])
                        })
                        .collect(),
                ),
                Sx::tagged("pages", doc.page_iter().map(oid_to_sx).collect()),
            ],
        );
        let verdict = match evaluate(&before, &doc, start) {
            Ok(()) => "ok".to_string(),
            Err(e) => format!("FAIL {}", e),
        };
        (res, verdict)
    });
}
