//! C17: bookmarks -> outline -> table of contents.
//! Case: (case <doc> (ops (add (t cp...) fmt (c xR xG xB) (pid pgen) parent|none)...) (flags adjust reload) <expect>)
//!   expect = (wf (row level (t cp...) page)...)   the generator's own preorder of the forest it linearised
//!          | (ndbad (row level (t cp...) page)...) as wf, but the catalog has a name tree that get_named_destinations refuses
//!                                                 (cyclic, ill-typed, too deep): get_toc must answer Err -- the right rows are
//!                                                 accepted too, anything else (other rows, a panic) is a failure
//!          | (mal)                                hypotheses of the read-back clause not met: only ids/links are judged
//! Everything goes through the public API: Document::add_bookmark, adjust_zero_pages,
//! build_outline, get_object_mut + Dictionary::set (README merge example), get_toc, save_to, load_mem.
use lopdf::{Bookmark, Dictionary, Document, Object, ObjectId};
use lvh::conv::*;
use lvh::sx::Sx;
use std::collections::BTreeSet;
use std::panic::{catch_unwind, AssertUnwindSafe};

#[derive(Clone)]
struct Op {
    title: String,
    format: u32,
    color: [f32; 3],
    page: ObjectId,
    parent: Option<u32>,
}

fn title_of_sx(x: &Sx) -> Option<String> {
    let mut s = String::new();
    for c in x.args() {
        s.push(char::from_u32(c.as_u64()? as u32)?);
    }
    Some(s)
}
fn title_to_sx(s: &str) -> Sx {
    Sx::tagged("t", s.chars().map(|c| Sx::num(c as u32)).collect())
}

fn op_of_sx(x: &Sx) -> Option<Op> {
    let a = x.args();
    if a.len() != 5 {
        return None;
    }
    let c = a[2].args();
    if c.len() != 3 {
        return None;
    }
    let mut color = [0f32; 3];
    for i in 0..3 {
        color[i] = std::str::from_utf8(&c[i].as_bytes()?).ok()?.parse::<f32>().ok()?;
    }
    Some(Op {
        title: title_of_sx(&a[0])?,
        format: a[1].as_u64()? as u32,
        color,
        page: oid_of_sx(&a[3])?,
        parent: if a[4].is_id("none") { None } else { Some(a[4].as_u64()? as u32) },
    })
}

/// result sx, the rows when get_toc returned Ok, whether it panicked
fn toc_sx(doc: &Document) -> (Sx, Option<Vec<(usize, String, usize)>>, bool) {
    match catch_unwind(AssertUnwindSafe(|| doc.get_toc())) {
        Err(_) => (Sx::tagged("toc", vec![Sx::id("panic")]), None, true),
        Ok(Err(_)) => (Sx::tagged("toc", vec![Sx::id("err")]), None, false),
        Ok(Ok(t)) => {
            let rows: Vec<(usize, String, usize)> = t.toc.iter().map(|r| (r.level, r.title.clone(), r.page)).collect();
            (
                Sx::tagged(
                    "toc",
                    vec![
                        Sx::L(rows
                            .iter()
                            .map(|(l, t, p)| Sx::tagged("row", vec![Sx::num(l), title_to_sx(t), Sx::num(p)]))
                            .collect()),
                        Sx::num(t.errors.len()),
                    ],
                ),
                Some(rows),
                false,
            )
        }
    }
}

/// the forest the ops denote, computed here independently of lopdf: node k (1-based) hangs under
/// parent p iff p was already added (1 <= p < k); no parent = root; anything else is an orphan.
struct Forest {
    roots: Vec<usize>,
    kids: Vec<Vec<usize>>, // index 0 unused
}
fn forest_of(ops: &[Op]) -> Forest {
    let n = ops.len();
    let mut f = Forest { roots: vec![], kids: vec![vec![]; n + 1] };
    for (i, op) in ops.iter().enumerate() {
        let k = i + 1;
        match op.parent {
            None => f.roots.push(k),
            Some(p) => {
                let p = p as usize;
                if p >= 1 && p < k {
                    f.kids[p].push(k)
                }
            }
        }
    }
    f
}
/// page an item must point to after adjust_zero_pages: its own, or for a zero-page parent the first
/// non-zero effective page among its children in order
fn eff_page(ops: &[Op], f: &Forest, k: usize, adjust: bool) -> ObjectId {
    let p = ops[k - 1].page;
    if !adjust || p.0 != 0 || f.kids[k].is_empty() {
        return p;
    }
    for &c in &f.kids[k] {
        let q = eff_page(ops, f, c, adjust);
        if q.0 != 0 {
            return q;
        }
    }
    (0, 0)
}

/// save_to prints an integral f32 without a decimal point, so it is reloaded as an Integer (the
/// number normalisation of C01's round trip); the colour components are the only reals here.
fn norm(o: &Object) -> Object {
    match o {
        Object::Real(f) if f.fract() == 0.0 && f.abs() < 9.0e18 => Object::Integer(*f as i64),
        Object::Array(a) => Object::Array(a.iter().map(norm).collect()),
        Object::Dictionary(d) => {
            let mut n = Dictionary::new();
            for (k, v) in d.iter() {
                n.set(k.clone(), norm(v));
            }
            Object::Dictionary(n)
        }
        o => o.clone(),
    }
}

fn expected_title_bytes(t: &str) -> Vec<u8> {
    if t.is_ascii() {
        t.as_bytes().to_vec()
    } else {
        let mut v = vec![0xFE, 0xFF];
        for u in t.encode_utf16() {
            v.push((u >> 8) as u8);
            v.push((u & 0xff) as u8);
        }
        v
    }
}

fn get_ref(d: &Dictionary, k: &[u8]) -> Result<Option<ObjectId>, String> {
    match d.get(k) {
        Err(_) => Ok(None),
        Ok(Object::Reference(id)) => Ok(Some(*id)),
        Ok(o) => Err(format!("{} is not a reference: {:?}", String::from_utf8_lossy(k), o)),
    }
}

/// link-consistency walk over the created objects against the forest
#[allow(clippy::too_many_arguments)]
fn check_level(
    doc: &Document, ops: &[Op], f: &Forest, adjust: bool, parent: ObjectId, pdict: &Dictionary, nodes: &[usize],
    seen: &mut BTreeSet<ObjectId>,
) -> Result<(), String> {
    let first = get_ref(pdict, b"First")?;
    let last = get_ref(pdict, b"Last")?;
    if nodes.is_empty() {
        if first.is_some() || last.is_some() || pdict.has(b"Count") {
            return Err(format!("{:?} has no children but First/Last/Count", parent));
        }
        return Ok(());
    }
    match pdict.get(b"Count") {
        Ok(Object::Integer(c)) if *c == nodes.len() as i64 => {}
        o => return Err(format!("{:?}: Count {:?} but {} children", parent, o, nodes.len())),
    }
    let mut cur = first.ok_or(format!("{:?}: First missing", parent))?;
    let mut prev: Option<ObjectId> = None;
    for (j, &k) in nodes.iter().enumerate() {
        if !seen.insert(cur) {
            return Err(format!("item {:?} reached twice", cur));
        }
        let d = match doc.objects.get(&cur) {
            Some(Object::Dictionary(d)) => d,
            o => return Err(format!("item {:?} is not a dictionary: {:?}", cur, o)),
        };
        if get_ref(d, b"Parent")? != Some(parent) {
            return Err(format!("item {:?}: Parent is not {:?}", cur, parent));
        }
        if get_ref(d, b"Prev")? != prev {
            return Err(format!("item {:?}: Prev {:?}, expected {:?}", cur, get_ref(d, b"Prev"), prev));
        }
        let op = &ops[k - 1];
        match d.get(b"Title") {
            Ok(Object::String(s, _)) if *s == expected_title_bytes(&op.title) => {}
            o => return Err(format!("item {:?}: Title {:?} is not bookmark {}'s title", cur, o, k)),
        }
        let a = get_ref(d, b"A")?.ok_or(format!("item {:?}: no A", cur))?;
        if !seen.insert(a) {
            return Err(format!("action {:?} reached twice", a));
        }
        let ad = match doc.objects.get(&a) {
            Some(Object::Dictionary(d)) => d,
            o => return Err(format!("action {:?} is not a dictionary: {:?}", a, o)),
        };
        match ad.get(b"S") {
            Ok(Object::Name(n)) if n == b"GoTo" => {}
            o => return Err(format!("action {:?}: S = {:?}", a, o)),
        }
        let want = eff_page(ops, f, k, adjust);
        match ad.get(b"D") {
            Ok(Object::Array(arr)) if !arr.is_empty() && arr[0] == Object::Reference(want) => {}
            o => return Err(format!("action {:?}: D = {:?}, expected page {:?}", a, o, want)),
        }
        check_level(doc, ops, f, adjust, cur, d, &f.kids[k], seen)?;
        let next = get_ref(d, b"Next")?;
        if j + 1 == nodes.len() {
            if next.is_some() {
                return Err(format!("last sibling {:?} has Next", cur));
            }
            if last != Some(cur) {
                return Err(format!("{:?}: Last {:?} is not the last sibling {:?}", parent, last, cur));
            }
        } else {
            prev = Some(cur);
            cur = next.ok_or(format!("item {:?}: Next missing", cur))?;
        }
    }
    Ok(())
}

fn preorder(
    ops: &[Op], f: &Forest, adjust: bool, nodes: &[usize], level: usize, pages: &std::collections::BTreeMap<u32, ObjectId>,
    out: &mut Vec<(usize, String, usize)>,
) -> bool {
    for &k in nodes {
        let pg = eff_page(ops, f, k, adjust);
        match pages.iter().find(|(_, id)| **id == pg) {
            Some((n, _)) => out.push((level, ops[k - 1].title.clone(), *n as usize)),
            None => return false,
        }
        if !preorder(ops, f, adjust, &f.kids[k], level + 1, pages, out) {
            return false;
        }
    }
    true
}

fn main() {
    lvh::drive(|x| {
        let a = x.args();
        if a.len() < 4 {
            return (Sx::id("badcase"), "skip".into());
        }
        let mut doc = match doc_of_sx(&a[0]) {
            Some(d) => d,
            None => return (Sx::id("badcase"), "skip".into()),
        };
        let ops: Vec<Op> = match a[1].args().iter().map(op_of_sx).collect::<Option<Vec<_>>>() {
            Some(o) => o,
            None => return (Sx::id("badcase"), "skip".into()),
        };
        let fl = a[2].args();
        let (adjust, reload) = match (fl.first().and_then(|s| s.as_bool()), fl.get(1).and_then(|s| s.as_bool())) {
            (Some(x), Some(y)) => (x, y),
            _ => return (Sx::id("badcase"), "skip".into()),
        };
        let ndbad = a[3].tag() == Some("ndbad");
        let wf = a[3].tag() == Some("wf") || ndbad;
        let old_max = doc.max_id;
        let old_keys: BTreeSet<ObjectId> = doc.objects.keys().cloned().collect();
        let old_objects = doc.objects.clone();

        // ---- producer ----
        let built = catch_unwind(AssertUnwindSafe(|| {
            let mut ids = vec![];
            for op in &ops {
                ids.push(doc.add_bookmark(Bookmark::new(op.title.clone(), op.color, op.format, op.page), op.parent));
            }
            if adjust {
                doc.adjust_zero_pages();
            }
            let root = doc.build_outline();
            if let Some(n) = root {
                let cid = doc.trailer.get(b"Root").and_then(Object::as_reference);
                if let Ok(cid) = cid {
                    if let Ok(Object::Dictionary(dict)) = doc.get_object_mut(cid) {
                        dict.set("Outlines", Object::Reference(n));
                    }
                }
            }
            (ids, root)
        }));
        let (ids, root) = match built {
            Ok(r) => r,
            Err(_) => return (Sx::tagged("res", vec![Sx::id("panic")]), "FAIL panic while building the outline".into()),
        };
        let mut tbl: Vec<_> = doc.bookmark_table.iter().collect();
        tbl.sort_by_key(|(k, _)| **k);
        let bm = Sx::tagged(
            "bm",
            vec![
                Sx::num(doc.max_bookmark_id),
                Sx::tagged("roots", doc.bookmarks.iter().map(Sx::num).collect()),
                Sx::tagged(
                    "tbl",
                    tbl.iter()
                        .map(|(k, b)| Sx::L(vec![Sx::num(k), oid_to_sx(b.page), Sx::L(b.children.iter().map(Sx::num).collect())]))
                        .collect(),
                ),
            ],
        );
        let (toc1, rows1, panicked1) = toc_sx(&doc);

        // ---- direct evaluation of the property ----
        let mut verdict = "ok".to_string();
        let mut fail = |m: String| {
            if verdict == "ok" {
                verdict = format!("FAIL {}", m);
            }
        };
        if ids != (1..=ops.len() as u32).collect::<Vec<_>>() {
            fail("add_bookmark ids are not 1..n".into());
        }
        let f = forest_of(&ops);
        // reachable nodes
        let mut reach = 0usize;
        let mut stack: Vec<usize> = f.roots.clone();
        while let Some(k) = stack.pop() {
            reach += 1;
            stack.extend(f.kids[k].iter());
        }
        let honest_max = old_keys.iter().all(|id| id.0 <= old_max);
        match root {
            None => {
                if !f.roots.is_empty() {
                    fail("build_outline returned None for a non-empty forest".into());
                }
                if doc.objects != old_objects || doc.max_id != old_max {
                    fail("build_outline changed the document although there is no bookmark".into());
                }
            }
            Some(rid) => {
                // fresh identifiers
                let created: Vec<ObjectId> = doc.objects.keys().filter(|id| id.0 > old_max && id.0 <= doc.max_id).cloned().collect();
                if rid != (old_max + 1, 0) {
                    fail(format!("outline id {:?} is not max_id+1", rid));
                }
                if doc.max_id as usize != old_max as usize + 1 + 2 * reach {
                    fail(format!("max_id {} after building {} items from {}", doc.max_id, reach, old_max));
                }
                if honest_max {
                    if created.len() != 1 + 2 * reach {
                        fail(format!("{} objects created for {} reachable bookmarks", created.len(), reach));
                    }
                    if created.iter().any(|id| old_keys.contains(id)) {
                        fail("a created object reuses an existing id".into());
                    }
                    for (id, o) in &old_objects {
                        let now = doc.objects.get(id);
                        let is_cat = doc.trailer.get(b"Root").and_then(Object::as_reference).ok().map(|c| {
                            // the catalog (end of the reference chain) is the only object allowed to change
                            let mut cur = c;
                            for _ in 0..200 {
                                match old_objects.get(&cur) {
                                    Some(Object::Reference(n)) => cur = *n,
                                    _ => break,
                                }
                            }
                            cur == *id
                        });
                        if now != Some(o) && is_cat != Some(true) {
                            fail(format!("existing object {:?} was modified", id));
                        }
                    }
                }
                // links, titles, destinations
                let mut seen = BTreeSet::new();
                seen.insert(rid);
                match doc.objects.get(&rid) {
                    Some(Object::Dictionary(od)) => {
                        if od.has(b"Parent") || od.has(b"Prev") || od.has(b"Next") {
                            fail("outline root has Parent/Prev/Next".into());
                        }
                        if let Err(m) = check_level(&doc, &ops, &f, adjust, rid, od, &f.roots, &mut seen) {
                            fail(m);
                        }
                        if honest_max && seen != created.iter().cloned().collect::<BTreeSet<_>>() {
                            fail("created objects are not exactly the objects reachable from the outline".into());
                        }
                    }
                    o => fail(format!("outline root is {:?}", o)),
                }
            }
        }
        // read-back
        let pages = doc.get_pages();
        let mut want = vec![];
        let mine_ok = preorder(&ops, &f, adjust, &f.roots, 1, &pages, &mut want);
        if wf {
            let gen_rows: Option<Vec<(usize, String, usize)>> = a[3]
                .args()
                .iter()
                .map(|r| {
                    let ra = r.args();
                    Some((ra.first()?.as_u64()? as usize, title_of_sx(ra.get(1)?)?, ra.get(2)?.as_u64()? as usize))
                })
                .collect();
            if !mine_ok {
                fail("generator says wf but a target is not a page".into());
            }
            if gen_rows.as_ref() != Some(&want) {
                fail("harness preorder differs from the generator's preorder (machinery)".into());
            }
            if !f.roots.is_empty() {
                match &rows1 {
                    Some(r) if *r == want => {}
                    None if ndbad && !panicked1 => {} // Err: the name tree is refused
                    None if panicked1 => fail("get_toc panicked".into()),
                    r => fail(format!("get_toc {:?} differs from the forest preorder {:?}", r, want)),
                }
            }
        }
        // save + reload
        let rel = if reload {
            let mut buf = Vec::new();
            let mut d2 = doc.clone();
            match d2.save_to(&mut buf).ok().and_then(|_| Document::load_mem(&buf).ok()) {
                None => {
                    fail("save_to + load_mem failed".into());
                    Sx::tagged("reload", vec![Sx::id("failed")])
                }
                Some(re) => {
                    let (toc2, rows2, panicked2) = toc_sx(&re);
                    if panicked2 {
                        fail("get_toc panicked after save_to + load_mem".into());
                    }
                    let same = doc.objects.iter().filter(|(id, _)| id.0 > old_max).all(|(id, o)| re.objects.get(id).map(norm) == Some(norm(o)));
                    if !same {
                        fail("a created object differs after save_to + load_mem".into());
                    }
                    if rows2 != rows1 {
                        fail(format!("get_toc after reload {:?} differs from before {:?}", rows2, rows1));
                    }
                    Sx::tagged("reload", vec![toc2, Sx::num(if same { 1 } else { 0 })])
                }
            }
        } else {
            Sx::tagged("reload", vec![Sx::id("skipped")])
        };
        let res = Sx::tagged(
            "res",
            vec![
                bm,
                Sx::tagged("root", vec![root.map(oid_to_sx).unwrap_or(Sx::id("none"))]),
                doc_to_sx(&doc),
                toc1,
                rel,
            ],
        );
        // Object's Debug prints string bytes raw: keep the verdict on one line
        let verdict: String = verdict.chars().map(|c| if c.is_control() { '?' } else { c }).collect();
        (res, verdict)
    });
}
