//! C18: dates <-> PDF date strings through lopdf's public conversions, on the real backends.
//!
//! Cases
//!   (rt Y M D h m s OFF)            civil fields (local) + UTC offset in seconds (east positive).
//!       Every source type lopdf converts from (chrono DateTime<Local>, jiff Zoned,
//!       time OffsetDateTime; for OFF = 0 also chrono DateTime<Utc> and jiff Timestamp) is built
//!       from these fields, converted with `Object::from`, and the resulting string is read back
//!       with `Object::as_datetime().try_into()` by every backend.
//!   (parse xHEX [(expect T OFF)])   a date string fed to every parser; `expect` = the instant
//!       (Unix seconds) and offset the specification gives it (computed by the generator).
//! Result
//!   (rt (src chrono S R R R) (src jiff ..) (src time ..) [(src chronoz ..) (src jiffz ..)])
//!   (parse R R R)   with S = xHEX | unrep,  R = (chrono (ok T)) | (jiff (ok T OFF Y M D h m s)) |
//!                   (time (ok T OFF Y M D h m s)) | (<b> err)
use lopdf::Object;
use lvh::sx::Sx;

#[derive(Clone, Copy)]
struct Civil {
    y: i32,
    mo: u32,
    d: u32,
    h: u32,
    mi: u32,
    s: u32,
}

fn obj_bytes(o: &Object) -> Option<Vec<u8>> {
    match o {
        Object::String(b, _) => Some(b.clone()),
        _ => None,
    }
}

/// Run `f` in a fresh thread with TZ set (chrono caches the zone per thread and re-reads the
/// variable at most once per second, so a fresh thread is the only deterministic way).
fn with_tz<T: Send + 'static>(tz: &str, f: impl FnOnce() -> T + Send + 'static) -> T {
    std::env::set_var("TZ", tz);
    let r = std::thread::spawn(f).join();
    std::env::set_var("TZ", "UTC");
    match r {
        Ok(v) => v,
        Err(e) => std::panic::resume_unwind(e),
    }
}

fn posix_tz(off: i32) -> String {
    // POSIX sign is inverted: local = UTC - offset
    let a = off.unsigned_abs();
    format!("<LOC>{}{:02}:{:02}:{:02}", if off > 0 { '-' } else { '+' }, a / 3600, a / 60 % 60, a % 60)
}

fn chrono_fixed(c: Civil, off: i32) -> Option<chrono::DateTime<chrono::FixedOffset>> {
    use chrono::TimeZone;
    let nd = chrono::NaiveDate::from_ymd_opt(c.y, c.mo, c.d)?.and_hms_opt(c.h, c.mi, c.s)?;
    chrono::FixedOffset::east_opt(off)?.from_local_datetime(&nd).single()
}

fn src_chrono_local(c: Civil, off: i32) -> Option<Vec<u8>> {
    let dt = chrono_fixed(c, off)?;
    with_tz(&posix_tz(off), move || {
        use chrono::Offset;
        let l = dt.with_timezone(&chrono::Local);
        if l.offset().fix().local_minus_utc() != off {
            return None; // TZ trick did not take: do not pretend
        }
        obj_bytes(&Object::from(l))
    })
}

fn src_chrono_utc(c: Civil) -> Option<Vec<u8>> {
    let dt = chrono_fixed(c, 0)?.with_timezone(&chrono::Utc);
    obj_bytes(&Object::from(dt))
}

fn jiff_zoned(c: Civil, off: i32) -> Option<jiff::Zoned> {
    let dt = jiff::civil::DateTime::new(
        i16::try_from(c.y).ok()?,
        c.mo as i8,
        c.d as i8,
        c.h as i8,
        c.mi as i8,
        c.s as i8,
        0,
    )
    .ok()?;
    let o = jiff::tz::Offset::from_seconds(off).ok()?;
    dt.to_zoned(jiff::tz::TimeZone::fixed(o)).ok()
}

fn src_jiff_zoned(c: Civil, off: i32) -> Option<Vec<u8>> {
    obj_bytes(&Object::from(jiff_zoned(c, off)?))
}

fn src_jiff_ts(c: Civil) -> Option<Vec<u8>> {
    obj_bytes(&Object::from(jiff_zoned(c, 0)?.timestamp()))
}

fn time_odt(c: Civil, off: i32) -> Option<time::OffsetDateTime> {
    let date = time::Date::from_calendar_date(c.y, time::Month::try_from(c.mo as u8).ok()?, c.d as u8).ok()?;
    let t = time::Time::from_hms(c.h as u8, c.mi as u8, c.s as u8).ok()?;
    let o = time::UtcOffset::from_whole_seconds(off).ok()?;
    Some(time::PrimitiveDateTime::new(date, t).assume_offset(o))
}

fn src_time(c: Civil, off: i32) -> Option<Vec<u8>> {
    obj_bytes(&Object::from(time_odt(c, off)?))
}

/// parsed value as observed through each backend: (instant, offset where kept, civil fields where kept)
#[derive(Clone, Debug, PartialEq)]
enum P {
    Err,
    Chrono(i64),
    Full(i64, i32, [i64; 6]),
}

fn p_sx(name: &str, p: &P) -> Sx {
    match p {
        P::Err => Sx::L(vec![Sx::id(name), Sx::id("err")]),
        P::Chrono(t) => Sx::L(vec![Sx::id(name), Sx::tagged("ok", vec![Sx::num(t)])]),
        P::Full(t, o, f) => {
            let mut v = vec![Sx::num(t), Sx::num(o)];
            v.extend(f.iter().map(Sx::num));
            Sx::L(vec![Sx::id(name), Sx::tagged("ok", v)])
        }
    }
}

fn parse_all(bytes: &[u8]) -> [P; 3] {
    let o = Object::string_literal(bytes.to_vec());
    let c = match o.as_datetime() {
        None => P::Err,
        Some(dt) => {
            let r: Result<chrono::DateTime<chrono::Local>, _> = dt.try_into();
            match r {
                Ok(d) => P::Chrono(d.timestamp()),
                Err(_) => P::Err,
            }
        }
    };
    let j = match o.as_datetime() {
        None => P::Err,
        Some(dt) => {
            let r: Result<jiff::Zoned, _> = dt.try_into();
            match r {
                Ok(z) => P::Full(
                    z.timestamp().as_second(),
                    z.offset().seconds(),
                    [
                        z.year() as i64,
                        z.month() as i64,
                        z.day() as i64,
                        z.hour() as i64,
                        z.minute() as i64,
                        z.second() as i64,
                    ],
                ),
                Err(_) => P::Err,
            }
        }
    };
    let t = match o.as_datetime() {
        None => P::Err,
        Some(dt) => {
            let r: Result<time::OffsetDateTime, _> = dt.try_into();
            match r {
                Ok(z) => P::Full(
                    z.unix_timestamp(),
                    z.offset().whole_seconds(),
                    [
                        z.year() as i64,
                        u8::from(z.month()) as i64,
                        z.day() as i64,
                        z.hour() as i64,
                        z.minute() as i64,
                        z.second() as i64,
                    ],
                ),
                Err(_) => P::Err,
            }
        }
    };
    [c, j, t]
}

const NAMES: [&str; 3] = ["chrono", "jiff", "time"];

/// the property on one parse result: same instant, and the same offset / fields where kept
fn check_parsed(who: &str, from: &str, p: &P, t: i64, off: i32, civil: Option<Civil>) -> Option<String> {
    match p {
        P::Err => Some(format!("{} rejects the string produced by {}", who, from)),
        P::Chrono(t2) => (*t2 != t).then(|| format!("{} reads instant {} from {}'s string, expected {}", who, t2, from, t)),
        P::Full(t2, o2, f) => {
            if *t2 != t {
                Some(format!("{} reads instant {} from {}'s string, expected {}", who, t2, from, t))
            } else if *o2 != off {
                Some(format!("{} reads offset {} from {}'s string, expected {}", who, o2, from, off))
            } else if let Some(c) = civil {
                let want = [c.y as i64, c.mo as i64, c.d as i64, c.h as i64, c.mi as i64, c.s as i64];
                (*f != want).then(|| format!("{} reads fields {:?} from {}'s string, expected {:?}", who, f, from, want))
            } else {
                None
            }
        }
    }
}

fn spec_string(c: Civil, off: i32, zulu: bool) -> Vec<u8> {
    // ISO 32000-1 7.9.4, written here independently of lopdf and of the backends
    let mut s = format!("D:{:04}{:02}{:02}{:02}{:02}{:02}", c.y, c.mo, c.d, c.h, c.mi, c.s);
    if zulu {
        s.push('Z');
    } else {
        let a = off.unsigned_abs();
        s.push_str(&format!("{}{:02}'{:02}'", if off < 0 { '-' } else { '+' }, a / 3600, a / 60 % 60));
    }
    s.into_bytes()
}

/// one case under the zone this process runs in (the parent forces UTC): result sx + direct verdict
fn eval_case(x: &Sx) -> (Sx, String) {
    let a = x.args();
    match x.tag() {
        Some("rt") => {
            let n: Vec<i64> = a.iter().filter_map(|v| v.as_i64()).collect();
            if n.len() != 7 {
                return (Sx::id("badcase"), "skip".into());
            }
            let c = Civil { y: n[0] as i32, mo: n[1] as u32, d: n[2] as u32, h: n[3] as u32, mi: n[4] as u32, s: n[5] as u32 };
            let off = n[6] as i32;
            let mut srcs: Vec<(&str, Option<Vec<u8>>, bool)> = vec![
                ("chrono", src_chrono_local(c, off), false),
                ("jiff", src_jiff_zoned(c, off), false),
                ("time", src_time(c, off), false),
            ];
            if off == 0 {
                srcs.push(("chronoz", src_chrono_utc(c), true));
                srcs.push(("jiffz", src_jiff_ts(c), true));
            }
            // oracle instant: every backend that can hold the value must agree on it
            let mut instants = vec![];
            if let Some(d) = chrono_fixed(c, off) {
                instants.push(d.timestamp());
            }
            if let Some(z) = jiff_zoned(c, off) {
                instants.push(z.timestamp().as_second());
            }
            if let Some(t) = time_odt(c, off) {
                instants.push(t.unix_timestamp());
            }
            let in_domain = (1..=9999).contains(&c.y) && off % 60 == 0 && off.abs() < 86400 && !instants.is_empty();
            let mut verdict: Option<String> = None;
            let mut fail = |m: String| {
                if verdict.is_none() {
                    verdict = Some(m)
                }
            };
            if instants.iter().any(|t| *t != instants[0]) {
                fail(format!("backends disagree on the instant of the same civil time: {:?}", instants));
            }
            let mut out = vec![];
            for (name, s, zulu) in &srcs {
                let mut item = vec![Sx::id("src"), Sx::id(name)];
                match s {
                    None => item.push(Sx::id("unrep")),
                    Some(bytes) => {
                        item.push(Sx::bytes(bytes));
                        let ps = parse_all(bytes);
                        for (k, p) in ps.iter().enumerate() {
                            item.push(p_sx(NAMES[k], p));
                        }
                        if in_domain {
                            let want = spec_string(c, off, *zulu);
                            if *bytes != want {
                                fail(format!(
                                    "{} prints {:?}, the specification form is {:?}",
                                    name,
                                    String::from_utf8_lossy(bytes),
                                    String::from_utf8_lossy(&want)
                                ));
                            }
                            for (k, p) in ps.iter().enumerate() {
                                // a backend that cannot hold the value at all is outside its domain
                                let holds = match k {
                                    0 => chrono_fixed(c, off).is_some(),
                                    1 => jiff_zoned(c, off).is_some(),
                                    _ => time_odt(c, off).is_some(),
                                };
                                if !holds {
                                    continue;
                                }
                                if let Some(m) = check_parsed(NAMES[k], name, p, instants[0], off, Some(c)) {
                                    fail(m);
                                }
                            }
                        }
                    }
                }
                out.push(Sx::L(item));
            }
            let v = match verdict {
                Some(m) => format!("FAIL {}", m),
                None if in_domain => "ok".into(),
                None => "skip".into(),
            };
            (Sx::tagged("rt", out), v)
        }
        Some("parse") => {
            let bytes = match a.first().and_then(|v| v.as_bytes()) {
                Some(b) => b,
                None => return (Sx::id("badcase"), "skip".into()),
            };
            let ps = parse_all(&bytes);
            let res = Sx::tagged("parse", ps.iter().enumerate().map(|(k, p)| p_sx(NAMES[k], p)).collect());
            let mut verdict = "skip".to_string();
            if let Some(e) = a.get(1) {
                if e.tag() == Some("expect") {
                    let t = e.args().first().and_then(|v| v.as_i64());
                    let o = e.args().get(1).and_then(|v| v.as_i64());
                    if let (Some(t), Some(o)) = (t, o) {
                        verdict = "ok".into();
                        for (k, p) in ps.iter().enumerate() {
                            if let Some(m) = check_parsed(NAMES[k], "the specification", p, t, o as i32, None) {
                                verdict = format!("FAIL {}", m);
                                break;
                            }
                        }
                    }
                }
            }
            (res, verdict)
        }
        _ => (Sx::id("badcase"), "skip".into()),
    }
}

// ------------------------------------------------------------------------------------------------------------------
// The same cases under other PROCESS time zones.
//
// The parent process runs every case with TZ=UTC (above).  It also keeps one child per zone of ZONES: the same binary,
// started with TZ=<zone> in its environment (POSIX TZ strings: no tz database needed) and LVH_C18_ZONE set, so that
// the machine zone is what chrono's `Local` and jiff's system zone see from the first call on, in every thread.  Every
// case line is sent to every child; a child answers with one `<sx> ||| <verdict>` line:
//   (parse ..)  the three parsers on the same string: must be TEXTUALLY the parent's result (a date string denotes an
//               instant and an offset by itself: no offset written = GMT, whatever the machine zone), and the child
//               evaluates the generator's expectation itself;
//   (rt ..)     the WRITERS under the machine zone: the case's instant T is turned into chrono `DateTime<Local>` and jiff
//               `Zoned` in the system zone (the zone picks the offset; time `OffsetDateTime` gets chrono's offset), each is
//               converted with `Object::from`, and the string must be the specification form of T at that offset (local
//               fields by the harness's own calendar arithmetic), chrono and jiff must pick the same offset (for a
//               zone without daylight saving: the zone's), and every parser must read every string back as T / that
//               offset / those fields -- all inside the child, i.e. under the zone.
// The parent's result sx is unchanged (so it stays comparable with the model, which has no machine zone) unless a child
// deviates; then the child's answer is appended, which also breaks the correspondence.
// ------------------------------------------------------------------------------------------------------------------

/// (TZ string, offset in seconds east of Greenwich if the zone has a single one)
const ZONES: [(&str, Option<i32>); 5] = [
    ("JST-9", Some(9 * 3600)),
    ("EST5", Some(-5 * 3600)),
    ("NPT-5:45", Some(5 * 3600 + 45 * 60)),
    // daylight saving, northern rule (US since 2007), switch at 02:00
    ("EST5EDT,M3.2.0,M11.1.0", None),
    // daylight saving, southern rule with the switch AT MIDNIGHT (Brazil until 2019): local midnight does not exist on
    // the third Sunday of October
    ("<-03>3<-02>,M10.3.0/0,M2.3.0/0", None),
];

fn days_from_civil(y: i64, m: i64, d: i64) -> i64 {
    // proleptic Gregorian, days since 1970-01-01
    let y = if m <= 2 { y - 1 } else { y };
    let era = y.div_euclid(400);
    let yoe = y - era * 400;
    let mp = (m + 9) % 12;
    let doy = (153 * mp + 2) / 5 + d - 1;
    let doe = yoe * 365 + yoe / 4 - yoe / 100 + doy;
    era * 146097 + doe - 719468
}

fn civil_from_days(z: i64) -> (i64, i64, i64) {
    let z = z + 719468;
    let era = z.div_euclid(146097);
    let doe = z - era * 146097;
    let yoe = (doe - doe / 1460 + doe / 36524 - doe / 146096) / 365;
    let doy = doe - (365 * yoe + yoe / 4 - yoe / 100);
    let mp = (5 * doy + 2) / 153;
    let d = doy - (153 * mp + 2) / 5 + 1;
    let m = if mp < 10 { mp + 3 } else { mp - 9 };
    (yoe + era * 400 + if m <= 2 { 1 } else { 0 }, m, d)
}

fn own_instant(c: Civil, off: i32) -> i64 {
    days_from_civil(c.y as i64, c.mo as i64, c.d as i64) * 86400 + c.h as i64 * 3600 + c.mi as i64 * 60 + c.s as i64 - off as i64
}

fn own_civil(t: i64, off: i32) -> Option<Civil> {
    let l = t + off as i64;
    let (y, m, d) = civil_from_days(l.div_euclid(86400));
    let r = l.rem_euclid(86400);
    if !(1..=9999).contains(&y) {
        return None;
    }
    Some(Civil { y: y as i32, mo: m as u32, d: d as u32, h: (r / 3600) as u32, mi: (r / 60 % 60) as u32, s: (r % 60) as u32 })
}

/// offsets chrono's `Local` and jiff's system zone assign to an instant in THIS process
fn zone_offsets(t: i64) -> (Option<i32>, Option<i32>) {
    use chrono::{Offset, TimeZone};
    let c = chrono::Local.timestamp_opt(t, 0).single().map(|l| l.offset().fix().local_minus_utc());
    let j = match (jiff::Timestamp::from_second(t), jiff::tz::TimeZone::try_system()) {
        (Ok(ts), Ok(tz)) => Some(tz.to_offset(ts).seconds()),
        _ => None,
    };
    (c, j)
}

/// the writers under the machine zone (child side)
fn zone_rt(x: &Sx, zone_off: Option<i32>) -> (Sx, String) {
    use chrono::{Offset, TimeZone};
    let n: Vec<i64> = x.args().iter().filter_map(|v| v.as_i64()).collect();
    if n.len() != 7 {
        return (Sx::id("badcase"), "skip".into());
    }
    let c = Civil { y: n[0] as i32, mo: n[1] as u32, d: n[2] as u32, h: n[3] as u32, mi: n[4] as u32, s: n[5] as u32 };
    let off = n[6] as i32;
    let valid = (1..=9999).contains(&c.y) && off % 60 == 0 && off.abs() < 86400 && time_odt(c, off).is_some();
    if !valid {
        return (Sx::id("zskip"), "skip".into());
    }
    let t = own_instant(c, off);
    let mut verdict: Option<String> = None;
    let mut fail = |m: String| {
        if verdict.is_none() {
            verdict = Some(m)
        }
    };
    if time_odt(c, off).map(|d| d.unix_timestamp()) != Some(t) {
        fail(format!("machinery: the harness calendar gives instant {}, time gives {:?}", t, time_odt(c, off).map(|d| d.unix_timestamp())));
    }
    let local = chrono::Local.timestamp_opt(t, 0).single();
    let offc = local.as_ref().map(|l| l.offset().fix().local_minus_utc());
    let zoned = match (jiff::Timestamp::from_second(t), jiff::tz::TimeZone::try_system()) {
        (Ok(ts), Ok(tz)) => Some(ts.to_zoned(tz)),
        _ => None,
    };
    let offj = zoned.as_ref().map(|z| z.offset().seconds());
    if let (Some(a), Some(b)) = (offc, offj) {
        if a != b {
            fail(format!("machinery: chrono puts instant {} at offset {} in the machine zone, jiff at {}", t, a, b));
        }
    }
    let zoff = match offc.or(offj) {
        Some(o) => o,
        None => return (Sx::id("zskip"), "skip".into()),
    };
    if let Some(zo) = zone_off {
        if zo != zoff {
            fail(format!("machinery: the machine zone has offset {}, chrono/jiff use {}", zo, zoff));
        }
    }
    // local civil fields by the harness's own arithmetic; outside years 1..9999 the value is outside the property
    let lc = match own_civil(t, zoff) {
        Some(lc) => lc,
        None => return (Sx::id("zskip"), "skip".into()),
    };
    let want = spec_string(lc, zoff, false);
    let odt = time::OffsetDateTime::from_unix_timestamp(t).ok().and_then(|d| time::UtcOffset::from_whole_seconds(zoff).ok().map(|o| d.to_offset(o)));
    let srcs: Vec<(&str, Option<Vec<u8>>)> = vec![
        ("chrono", if offc == Some(zoff) { local.and_then(|l| obj_bytes(&Object::from(l))) } else { None }),
        ("jiff", if offj == Some(zoff) { zoned.and_then(|z| obj_bytes(&Object::from(z))) } else { None }),
        ("time", odt.and_then(|d| obj_bytes(&Object::from(d)))),
    ];
    let mut out = vec![Sx::num(zoff)];
    let mut written = 0;
    for (name, s) in &srcs {
        let mut item = vec![Sx::id("src"), Sx::id(name)];
        match s {
            None => item.push(Sx::id("unrep")),
            Some(bytes) => {
                written += 1;
                item.push(Sx::bytes(bytes));
                if *bytes != want {
                    fail(format!(
                        "{} prints instant {} in the machine zone as {:?}, the specification form at offset {} is {:?}",
                        name,
                        t,
                        String::from_utf8_lossy(bytes),
                        zoff,
                        String::from_utf8_lossy(&want)
                    ));
                }
                let ps = parse_all(bytes);
                for (k, p) in ps.iter().enumerate() {
                    item.push(p_sx(NAMES[k], p));
                    let holds = match k {
                        0 => chrono_fixed(lc, zoff).is_some(),
                        1 => jiff_zoned(lc, zoff).is_some(),
                        _ => time_odt(lc, zoff).is_some(),
                    };
                    if !holds {
                        continue;
                    }
                    if let Some(m) = check_parsed(NAMES[k], name, p, t, zoff, Some(lc)) {
                        fail(m);
                    }
                }
            }
        }
        out.push(Sx::L(item));
    }
    let v = match verdict {
        Some(m) => format!("FAIL {}", m),
        None if written > 0 => "ok".into(),
        None => "skip".into(),
    };
    (Sx::tagged("zrt", out), v)
}

fn child_main(zone_off: Option<i32>) {
    use std::io::Write;
    // probe: what the two zone-aware back ends make of the machine zone in January and in July 2024
    let (c1, j1) = zone_offsets(1704067200 + 14 * 86400);
    let (c7, j7) = zone_offsets(1719792000 + 14 * 86400);
    let show = |o: Option<i32>| o.map(|v| v.to_string()).unwrap_or_else(|| "none".into());
    println!("ready {} {} {} {}", show(c1), show(j1), show(c7), show(j7));
    std::io::stdout().flush().unwrap();
    // the loop of lvh::drive, answering line by line (the parent waits for every answer)
    std::panic::set_hook(Box::new(|_| {}));
    let stdin = std::io::stdin();
    let mut line = String::new();
    loop {
        line.clear();
        match std::io::BufRead::read_line(&mut stdin.lock(), &mut line) {
            Ok(n) if n > 0 => {}
            _ => break,
        }
        let (res, verdict) = match lvh::sx::parse_one(line.trim_end()) {
            None => (Sx::id("badline"), "skip".to_string()),
            Some(x) => match std::panic::catch_unwind(|| match x.tag() {
                Some("rt") => zone_rt(&x, zone_off),
                _ => eval_case(&x),
            }) {
                Ok(r) => r,
                Err(e) => {
                    let msg = if let Some(s) = e.downcast_ref::<&str>() {
                        s.to_string()
                    } else if let Some(s) = e.downcast_ref::<String>() {
                        s.clone()
                    } else {
                        "?".to_string()
                    };
                    (Sx::L(vec![Sx::id("panic"), Sx::bytes(msg.as_bytes())]), format!("FAIL panic: {}", msg.replace('\n', " ")))
                }
            },
        };
        println!("{} ||| {}", res.print(), verdict);
        std::io::stdout().flush().unwrap();
    }
}

struct ZoneChild {
    tz: &'static str,
    child: std::process::Child,
    stdin: Option<std::process::ChildStdin>,
    stdout: std::io::BufReader<std::process::ChildStdout>,
    /// None = in order; Some(reason) = every case fails with it (the zone is not in effect: nothing would be tested)
    broken: Option<String>,
    // evidence counters
    cases: u64,
    parse_same: u64,
    parse_expect_ok: u64,
    writers_ok: u64,
    writers_skip: u64,
    failures: u64,
}

fn read_line(r: &mut impl std::io::BufRead) -> Option<String> {
    let mut s = String::new();
    match r.read_line(&mut s) {
        Ok(n) if n > 0 => Some(s.trim_end_matches('\n').to_string()),
        _ => None,
    }
}

fn spawn_zones() -> Vec<ZoneChild> {
    let exe = std::env::current_exe().expect("current_exe");
    let mut v = vec![];
    for (tz, zoff) in ZONES.iter() {
        let mut cmd = std::process::Command::new(&exe);
        cmd.env("TZ", tz)
            .env("LVH_C18_ZONE", tz)
            .env("LVH_C18_ZONE_OFF", zoff.map(|o| o.to_string()).unwrap_or_default())
            .env_remove("LVH_C18_STATS")
            .stdin(std::process::Stdio::piped())
            .stdout(std::process::Stdio::piped())
            .stderr(std::process::Stdio::null());
        let mut child = cmd.spawn().expect("spawn zone child");
        let stdin = child.stdin.take();
        let mut stdout = std::io::BufReader::new(child.stdout.take().unwrap());
        let hello = read_line(&mut stdout).unwrap_or_default();
        let f: Vec<&str> = hello.split(' ').collect();
        let mut broken = None;
        if f.len() != 5 || f[0] != "ready" {
            broken = Some(format!("the child process did not start ({:?})", hello));
        } else {
            let n: Vec<Option<i32>> = f[1..].iter().map(|s| s.parse().ok()).collect();
            let ok = match zoff {
                Some(o) => n.iter().all(|v| *v == Some(*o)),
                None => n[0].is_some() && n[0] == n[1] && n[2].is_some() && n[2] == n[3] && n[0] != n[2],
            };
            if !ok {
                broken = Some(format!("chrono / jiff do not see the zone: offsets chrono,jiff in January and July 2024 = {:?}", &f[1..]));
            }
        }
        v.push(ZoneChild { tz, child, stdin, stdout, broken, cases: 0, parse_same: 0, parse_expect_ok: 0, writers_ok: 0, writers_skip: 0, failures: 0 });
    }
    v
}

/// send the case to every zone child, hold the answers against the parent's (UTC) result
fn under_zones(zs: &mut [ZoneChild], x: &Sx, res: Sx, verdict: String) -> (Sx, String) {
    use std::io::Write;
    let is_parse = x.tag() == Some("parse");
    let is_rt = x.tag() == Some("rt");
    if !is_parse && !is_rt {
        return (res, verdict);
    }
    let line = x.print();
    for z in zs.iter_mut() {
        if z.broken.is_none() {
            let sent = match z.stdin.as_mut() {
                Some(si) => writeln!(si, "{}", line).is_ok() && si.flush().is_ok(),
                None => false,
            };
            if !sent {
                z.broken = Some("the child process went away".into());
            }
        }
    }
    let mine = res.print();
    let mut extra = vec![];
    let mut bad: Option<String> = None;
    for z in zs.iter_mut() {
        z.cases += 1;
        let ans = if z.broken.is_none() { read_line(&mut z.stdout) } else { None };
        let ans = match ans {
            Some(a) => a,
            None => {
                let why = z.broken.get_or_insert_with(|| "the child process went away".into()).clone();
                z.failures += 1;
                bad.get_or_insert(format!("machinery: nothing was run under TZ={}: {}", z.tz, why));
                continue;
            }
        };
        let (zsx, zv) = match ans.split_once(" ||| ") {
            Some((a, b)) => (a.to_string(), b.to_string()),
            None => (ans.clone(), "FAIL machinery: malformed answer".to_string()),
        };
        let mut dev: Option<String> = None;
        if zv.starts_with("FAIL") {
            dev = Some(format!("under TZ={}: {}", z.tz, &zv[5..]));
        } else if is_parse && zsx != mine {
            dev = Some(format!("the reading depends on the machine time zone: under TZ={} {}, under UTC {}", z.tz, zsx, mine));
        }
        match dev {
            Some(m) => {
                z.failures += 1;
                let shown = lvh::sx::parse_one(&zsx).unwrap_or_else(|| Sx::bytes(zsx.as_bytes()));
                extra.push(Sx::L(vec![Sx::id("zone"), Sx::bytes(z.tz.as_bytes()), shown]));
                bad.get_or_insert(m);
            }
            None if is_parse => {
                z.parse_same += 1;
                if zv == "ok" {
                    z.parse_expect_ok += 1;
                }
            }
            None if zv == "ok" => z.writers_ok += 1,
            None => z.writers_skip += 1,
        }
    }
    let res = if extra.is_empty() {
        res
    } else {
        let mut l = match res {
            Sx::L(l) => l,
            a => vec![a],
        };
        l.extend(extra);
        Sx::L(l)
    };
    let verdict = match bad {
        Some(m) if !verdict.starts_with("FAIL") => format!("FAIL {}", m),
        _ => verdict,
    };
    (res, verdict)
}

fn main() {
    if std::env::var_os("LVH_C18_ZONE").is_some() {
        // zone child: TZ comes from the environment and is never touched
        let zoff = std::env::var("LVH_C18_ZONE_OFF").ok().and_then(|s| s.parse().ok());
        return child_main(zoff);
    }
    std::env::set_var("TZ", "UTC");
    let zones = std::sync::Mutex::new(spawn_zones());
    lvh::drive(|x| {
        let (res, verdict) = eval_case(x);
        let mut zs = zones.lock().unwrap_or_else(|e| e.into_inner());
        under_zones(&mut zs, x, res, verdict)
    });
    let mut zs = zones.into_inner().unwrap_or_else(|e| e.into_inner());
    // per-zone evidence counters, one line per process (props/c18.py adds them up)
    if let Some(path) = std::env::var_os("LVH_C18_STATS") {
        use std::io::Write;
        let mut line = String::new();
        for z in zs.iter() {
            line.push_str(&format!(
                "{}\t{}\t{}\t{}\t{}\t{}\t{}\n",
                z.tz, z.cases, z.parse_same, z.parse_expect_ok, z.writers_ok, z.writers_skip, z.failures
            ));
        }
        if let Ok(mut f) = std::fs::OpenOptions::new().create(true).append(true).open(path) {
            let _ = f.write_all(line.as_bytes());
        }
    }
    for z in zs.iter_mut() {
        drop(z.stdin.take());
        let _ = z.child.wait();
    }
}
