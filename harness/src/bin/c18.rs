//! C18: dates <-> PDF date strings through lopdf's public conversions, on the real backends.
//!
//! Cases
//!   (rt Y M D h m s OFF)            civil fields (local) + UTC offset in seconds (east positive).
//!       Every source type lopdf converts from (chrono DateTime<Local>, jiff Zoned,
//!       time OffsetDateTime; for OFF = 0 also chrono DateTime<Utc> and jiff Timestamp) is built
//!       from these fields, converted with `Object::from`, and the resulting string is read back
//!       with `Object::as_datetime().try_into()` by every backend.
//!   (parse xHEX [(expect T OFF)])   a date string fed to every parser; `expect` = the instant
//!       (Unix seconds) and offset the specification gives it (computed by the generator).
//! Result
//!   (rt (src chrono S R R R) (src jiff ..) (src time ..) [(src chronoz ..) (src jiffz ..)])
//!   (parse R R R)   with S = xHEX | unrep,  R = (chrono (ok T)) | (jiff (ok T OFF Y M D h m s)) |
//!                   (time (ok T OFF Y M D h m s)) | (<b> err)
use lopdf::Object;
use lvh::sx::Sx;

#[derive(Clone, Copy)]
struct Civil {
    y: i32,
    mo: u32,
    d: u32,
    h: u32,
    mi: u32,
    s: u32,
}

fn obj_bytes(o: &Object) -> Option<Vec<u8>> {
    match o {
        Object::String(b, _) => Some(b.clone()),
        _ => None,
    }
}

/// Run `f` in a fresh thread with TZ set (chrono caches the zone per thread and re-reads the
/// variable at most once per second, so a fresh thread is the only deterministic way).
fn with_tz<T: Send + 'static>(tz: &str, f: impl FnOnce() -> T + Send + 'static) -> T {
    std::env::set_var("TZ", tz);
    let r = std::thread::spawn(f).join();
    std::env::set_var("TZ", "UTC");
    match r {
        Ok(v) => v,
        Err(e) => std::panic::resume_unwind(e),
    }
}

fn posix_tz(off: i32) -> String {
    // POSIX sign is inverted: local = UTC - offset
    let a = off.unsigned_abs();
    format!("<LOC>{}{:02}:{:02}:{:02}", if off > 0 { '-' } else { '+' }, a / 3600, a / 60 % 60, a % 60)
}

fn chrono_fixed(c: Civil, off: i32) -> Option<chrono::DateTime<chrono::FixedOffset>> {
    use chrono::TimeZone;
    let nd = chrono::NaiveDate::from_ymd_opt(c.y, c.mo, c.d)?.and_hms_opt(c.h, c.mi, c.s)?;
    chrono::FixedOffset::east_opt(off)?.from_local_datetime(&nd).single()
}

fn src_chrono_local(c: Civil, off: i32) -> Option<Vec<u8>> {
    let dt = chrono_fixed(c, off)?;
    with_tz(&posix_tz(off), move || {
        use chrono::Offset;
        let l = dt.with_timezone(&chrono::Local);
        if l.offset().fix().local_minus_utc() != off {
            return None; // TZ trick did not take: do not pretend
        }
        obj_bytes(&Object::from(l))
    })
}

fn src_chrono_utc(c: Civil) -> Option<Vec<u8>> {
    let dt = chrono_fixed(c, 0)?.with_timezone(&chrono::Utc);
    obj_bytes(&Object::from(dt))
}

fn jiff_zoned(c: Civil, off: i32) -> Option<jiff::Zoned> {
    let dt = jiff::civil::DateTime::new(
        i16::try_from(c.y).ok()?,
        c.mo as i8,
        c.d as i8,
        c.h as i8,
        c.mi as i8,
        c.s as i8,
        0,
    )
    .ok()?;
    let o = jiff::tz::Offset::from_seconds(off).ok()?;
    dt.to_zoned(jiff::tz::TimeZone::fixed(o)).ok()
}

fn src_jiff_zoned(c: Civil, off: i32) -> Option<Vec<u8>> {
    obj_bytes(&Object::from(jiff_zoned(c, off)?))
}

fn src_jiff_ts(c: Civil) -> Option<Vec<u8>> {
    obj_bytes(&Object::from(jiff_zoned(c, 0)?.timestamp()))
}

fn time_odt(c: Civil, off: i32) -> Option<time::OffsetDateTime> {
    let date = time::Date::from_calendar_date(c.y, time::Month::try_from(c.mo as u8).ok()?, c.d as u8).ok()?;
    let t = time::Time::from_hms(c.h as u8, c.mi as u8, c.s as u8).ok()?;
    let o = time::UtcOffset::from_whole_seconds(off).ok()?;
    Some(time::PrimitiveDateTime::new(date, t).assume_offset(o))
}

fn src_time(c: Civil, off: i32) -> Option<Vec<u8>> {
    obj_bytes(&Object::from(time_odt(c, off)?))
}

/// parsed value as observed through each backend: (instant, offset where kept, civil fields where kept)
#[derive(Clone, Debug, PartialEq)]
enum P {
    Err,
    Chrono(i64),
    Full(i64, i32, [i64; 6]),
}

fn p_sx(name: &str, p: &P) -> Sx {
    match p {
        P::Err => Sx::L(vec![Sx::id(name), Sx::id("err")]),
        P::Chrono(t) => Sx::L(vec![Sx::id(name), Sx::tagged("ok", vec![Sx::num(t)])]),
        P::Full(t, o, f) => {
            let mut v = vec![Sx::num(t), Sx::num(o)];
            v.extend(f.iter().map(Sx::num));
            Sx::L(vec![Sx::id(name), Sx::tagged("ok", v)])
        }
    }
}

fn parse_all(bytes: &[u8]) -> [P; 3] {
    let o = Object::string_literal(bytes.to_vec());
    let c = match o.as_datetime() {
        None => P::Err,
        Some(dt) => {
            let r: Result<chrono::DateTime<chrono::Local>, _> = dt.try_into();
            match r {
                Ok(d) => P::Chrono(d.timestamp()),
                Err(_) => P::Err,
            }
        }
    };
    let j = match o.as_datetime() {
        None => P::Err,
        Some(dt) => {
            let r: Result<jiff::Zoned, _> = dt.try_into();
            match r {
                Ok(z) => P::Full(
                    z.timestamp().as_second(),
                    z.offset().seconds(),
                    [
                        z.year() as i64,
                        z.month() as i64,
                        z.day() as i64,
                        z.hour() as i64,
                        z.minute() as i64,
                        z.second() as i64,
                    ],
                ),
                Err(_) => P::Err,
            }
        }
    };
    let t = match o.as_datetime() {
        None => P::Err,
        Some(dt) => {
            let r: Result<time::OffsetDateTime, _> = dt.try_into();
            match r {
                Ok(z) => P::Full(
                    z.unix_timestamp(),
                    z.offset().whole_seconds(),
                    [
                        z.year() as i64,
                        u8::from(z.month()) as i64,
                        z.day() as i64,
                        z.hour() as i64,
                        z.minute() as i64,
                        z.second() as i64,
                    ],
                ),
                Err(_) => P::Err,
            }
        }
    };
    [c, j, t]
}

const NAMES: [&str; 3] = ["chrono", "jiff", "time"];

/// the property on one parse result: same instant, and the same offset / fields where kept
fn check_parsed(who: &str, from: &str, p: &P, t: i64, off: i32, civil: Option<Civil>) -> Option<String> {
    match p {
        P::Err => Some(format!("{} rejects the string produced by {}", who, from)),
        P::Chrono(t2) => (*t2 != t).then(|| format!("{} reads instant {} from {}'s string, expected {}", who, t2, from, t)),
        P::Full(t2, o2, f) => {
            if *t2 != t {
                Some(format!("{} reads instant {} from {}'s string, expected {}", who, t2, from, t))
            } else if *o2 != off {
                Some(format!("{} reads offset {} from {}'s string, expected {}", who, o2, from, off))
            } else if let Some(c) = civil {
                let want = [c.y as i64, c.mo as i64, c.d as i64, c.h as i64, c.mi as i64, c.s as i64];
                (*f != want).then(|| format!("{} reads fields {:?} from {}'s string, expected {:?}", who, f, from, want))
            } else {
                None
            }
        }
    }
}

fn spec_string(c: Civil, off: i32, zulu: bool) -> Vec<u8> {
    // ISO 32000-1 7.9.4, written here independently of lopdf and of the backends
    let mut s = format!("D:{:04}{:02}{:02}{:02}{:02}{:02}", c.y, c.mo, c.d, c.h, c.mi, c.s);
    if zulu {
        s.push('Z');
    } else {
        let a = off.unsigned_abs();
        s.push_str(&format!("{}{:02}'{:02}'", if off < 0 { '-' } else { '+' }, a / 3600, a / 60 % 60));
    }
    s.into_bytes()
}

fn main() {
    std::env::set_var("TZ", "UTC");
    lvh::drive(|x| {
        let a = x.args();
        match x.tag() {
            Some("rt") => {
                let n: Vec<i64> = a.iter().filter_map(|v| v.as_i64()).collect();
                if n.len() != 7 {
                    return (Sx::id("badcase"), "skip".into());
                }
                let c = Civil { y: n[0] as i32, mo: n[1] as u32, d: n[2] as u32, h: n[3] as u32, mi: n[4] as u32, s: n[5] as u32 };
                let off = n[6] as i32;
                let mut srcs: Vec<(&str, Option<Vec<u8>>, bool)> = vec![
                    ("chrono", src_chrono_local(c, off), false),
                    ("jiff", src_jiff_zoned(c, off), false),
                    ("time", src_time(c, off), false),
                ];
                if off == 0 {
                    srcs.push(("chronoz", src_chrono_utc(c), true));
                    srcs.push(("jiffz", src_jiff_ts(c), true));
                }
                // oracle instant: every backend that can hold the value must agree on it
                let mut instants = vec![];
                if let Some(d) = chrono_fixed(c, off) {
                    instants.push(d.timestamp());
                }
                if let Some(z) = jiff_zoned(c, off) {
                    instants.push(z.timestamp().as_second());
                }
                if let Some(t) = time_odt(c, off) {
                    instants.push(t.unix_timestamp());
                }
                let in_domain = (1..=9999).contains(&c.y) && off % 60 == 0 && off.abs() < 86400 && !instants.is_empty();
                let mut verdict: Option<String> = None;
                let mut fail = |m: String| {
                    if verdict.is_none() {
                        verdict = Some(m)
                    }
                };
                if instants.iter().any(|t| *t != instants[0]) {
                    fail(format!("backends disagree on the instant of the same civil time: {:?}", instants));
                }
                let mut out = vec![];
                for (name, s, zulu) in &srcs {
                    let mut item = vec![Sx::id("src"), Sx::id(name)];
                    match s {
                        None => item.push(Sx::id("unrep")),
                        Some(bytes) => {
                            item.push(Sx::bytes(bytes));
                            let ps = parse_all(bytes);
                            for (k, p) in ps.iter().enumerate() {
                                item.push(p_sx(NAMES[k], p));
                            }
                            if in_domain {
                                let want = spec_string(c, off, *zulu);
                                if *bytes != want {
                                    fail(format!(
                                        "{} prints {:?}, the specification form is {:?}",
                                        name,
                                        String::from_utf8_lossy(bytes),
                                        String::from_utf8_lossy(&want)
                                    ));
                                }
                                for (k, p) in ps.iter().enumerate() {
                                    // a backend that cannot hold the value at all is outside its domain
                                    let holds = match k {
                                        0 => chrono_fixed(c, off).is_some(),
                                        1 => jiff_zoned(c, off).is_some(),
                                        _ => time_odt(c, off).is_some(),
                                    };
                                    if !holds {
                                        continue;
                                    }
                                    if let Some(m) = check_parsed(NAMES[k], name, p, instants[0], off, Some(c)) {
                                        fail(m);
                                    }
                                }
                            }
                        }
                    }
                    out.push(Sx::L(item));
                }
                let v = match verdict {
                    Some(m) => format!("FAIL {}", m),
                    None if in_domain => "ok".into(),
                    None => "skip".into(),
                };
                (Sx::tagged("rt", out), v)
            }
            Some("parse") => {
                let bytes = match a.first().and_then(|v| v.as_bytes()) {
                    Some(b) => b,
                    None => return (Sx::id("badcase"), "skip".into()),
                };
                let ps = parse_all(&bytes);
                let res = Sx::tagged("parse", ps.iter().enumerate().map(|(k, p)| p_sx(NAMES[k], p)).collect());
                let mut verdict = "skip".to_string();
                if let Some(e) = a.get(1) {
                    if e.tag() == Some("expect") {
                        let t = e.args().first().and_then(|v| v.as_i64());
                        let o = e.args().get(1).and_then(|v| v.as_i64());
                        if let (Some(t), Some(o)) = (t, o) {
                            verdict = "ok".into();
                            for (k, p) in ps.iter().enumerate() {
                                if let Some(m) = check_parsed(NAMES[k], "the specification", p, t, o as i32, None) {
                                    verdict = format!("FAIL {}", m);
                                    break;
                                }
                            }
                        }
                    }
                }
                (res, verdict)
            }
            _ => (Sx::id("badcase"), "skip".into()),
        }
    });
}
