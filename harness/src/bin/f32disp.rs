//! helper for the generators: one u32 bit pattern per line -> Rust's Display of that f32
use std::io::BufRead;
fn main() {
    for l in std::io::stdin().lock().lines() {
        let l = l.unwrap();
        if let Ok(b) = l.trim().parse::<u32>() {
            println!("{}", f32::from_bits(b));
        } else {
            println!("?");
        }
    }
}
