//! C11: editing operations keep the document sound.
//! Case: (case <doc> (ops <op>...) (orc ...))      (the oracle table is for the model only)
//!   op ::= (new) | (add <obj>) | (set (i g) <obj>) | (del (i g)) | (rmannot (i g)) | (prune)
//!        | (delpages n...) | (renumber) | (compress) | (decompress) | (ccs (i g) xC) | (cpc (i g) xC) | (apc (i g) xC)
//!        | (atpc (i g) (op xOP operand...)...) | (gocr (i g)) | (addx (i g) xNAME (i g)) | (addgs (i g) xNAME (i g))
//!        | (content (i g)) | (save table|stream) | (bm (t cp...) fmt (c xR xG xB) (i g) parent|none) | (outline)
//! No finding of this property is open: every reported failure is a violation (a failure caused by an open known finding
//! would be tagged [<finding id>] by evaluating the finding's class predicate on the document BEFORE the call).
//! Result: (trace (<out> <dump-or-=>)...) -- what each call returned and the canonical dump of the
//!   document after it ("=" when the dump equals the previous one); once a bookmark exists the dump is
//!   (st <doc> (bm max_bookmark_id (roots ...) (tbl (id (i g) (children...))...))).
//!   (save ..) on a document whose max_id exceeds SAVE_MAX is not run (both sides answer `skipped`): write_xref /
//!   create_xref_steam loop over every number up to max_id.
//! Verdict: the invariants of the property evaluated directly on the implementation after EVERY
//!   step, by code that shares nothing with the model (own reachability, own "remove every
//!   reference" function, order-insensitive dictionary comparison).
use lopdf::content::{Content, Operation};
use lopdf::xref::XrefType;
use lopdf::{Bookmark, Dictionary, Document, Object, ObjectId};
use lvh::conv::*;
use lvh::sx::Sx;
use std::collections::{BTreeMap, BTreeSet};
use std::panic::{catch_unwind, AssertUnwindSafe};

enum Op {
    New,
    Add(Object),
    Set(ObjectId, Object),
    Del(ObjectId),
    RmAnnot(ObjectId),
    Prune,
    DelPages(Vec<u32>),
    Renumber,
    Compress,
    Decompress,
    Ccs(ObjectId, Vec<u8>),
    Cpc(ObjectId, Vec<u8>),
    Apc(ObjectId, Vec<u8>),
    Atpc(ObjectId, Vec<Operation>),
    Gocr(ObjectId),
    AddX(ObjectId, Vec<u8>, ObjectId),
    AddGs(ObjectId, Vec<u8>, ObjectId),
    Content(ObjectId),
    Save(bool),
    Bm { title: String, format: u32, color: [f32; 3], page: ObjectId, parent: Option<u32> },
    Outline,
}

const SAVE_MAX: u32 = 1_000_000;

fn op_of_sx(x: &Sx) -> Option<Op> {
    let a = x.args();
    Some(match x.tag()? {
        "new" => Op::New,
        "add" => Op::Add(obj_of_sx(a.first()?)?),
        "set" => Op::Set(oid_of_sx(a.first()?)?, obj_of_sx(a.get(1)?)?),
        "del" => Op::Del(oid_of_sx(a.first()?)?),
        "rmannot" => Op::RmAnnot(oid_of_sx(a.first()?)?),
        "prune" => Op::Prune,
        "delpages" => Op::DelPages(a.iter().map(|n| n.as_u64().map(|v| v as u32)).collect::<Option<Vec<_>>>()?),
        "renumber" => Op::Renumber,
        "compress" => Op::Compress,
        "decompress" => Op::Decompress,
        "ccs" => Op::Ccs(oid_of_sx(a.first()?)?, a.get(1)?.as_bytes()?),
        "cpc" => Op::Cpc(oid_of_sx(a.first()?)?, a.get(1)?.as_bytes()?),
        "apc" => Op::Apc(oid_of_sx(a.first()?)?, a.get(1)?.as_bytes()?),
        "atpc" => Op::Atpc(
            oid_of_sx(a.first()?)?,
            a[1..].iter().map(|o| {
                let oa = o.args();
                Some(Operation::new(
                    std::str::from_utf8(&oa.first()?.as_bytes()?).ok()?,
                    oa[1..].iter().map(obj_of_sx).collect::<Option<Vec<_>>>()?,
                ))
            }).collect::<Option<Vec<_>>>()?,
        ),
        "gocr" => Op::Gocr(oid_of_sx(a.first()?)?),
        "addx" => Op::AddX(oid_of_sx(a.first()?)?, a.get(1)?.as_bytes()?, oid_of_sx(a.get(2)?)?),
        "addgs" => Op::AddGs(oid_of_sx(a.first()?)?, a.get(1)?.as_bytes()?, oid_of_sx(a.get(2)?)?),
        "content" => Op::Content(oid_of_sx(a.first()?)?),
        "save" => Op::Save(match a.first()? { m if m.is_id("table") => false, m if m.is_id("stream") => true, _ => return None }),
        "bm" => {
            if a.len() != 5 {
                return None;
            }
            let mut title = String::new();
            for c in a[0].args() {
                title.push(char::from_u32(c.as_u64()? as u32)?);
            }
            let c = a[2].args();
            if c.len() != 3 {
                return None;
            }
            let mut color = [0f32; 3];
            for i in 0..3 {
                color[i] = std::str::from_utf8(&c[i].as_bytes()?).ok()?.parse::<f32>().ok()?;
            }
            Op::Bm {
                title,
                format: a[1].as_u64()? as u32,
                color,
                page: oid_of_sx(&a[3])?,
                parent: if a[4].is_id("none") { None } else { Some(a[4].as_u64()? as u32) },
            }
        }
        "outline" => Op::Outline,
        _ => return None,
    })
}

// ---------------------------------------------------------------------------------------------
// independent helpers for the verdicts
// ---------------------------------------------------------------------------------------------
fn refs_in(o: &Object, out: &mut Vec<ObjectId>) {
    match o {
        Object::Reference(id) => out.push(*id),
        Object::Array(a) => a.iter().for_each(|x| refs_in(x, out)),
        Object::Dictionary(d) => d.iter().for_each(|(_, v)| refs_in(v, out)),
        Object::Stream(s) => s.dict.iter().for_each(|(_, v)| refs_in(v, out)),
        _ => {}
    }
}

/// ids reachable from the trailer (targets of references, whether or not they name an object)
fn reach(doc: &Document) -> BTreeSet<ObjectId> {
    let mut seen = BTreeSet::new();
    let mut todo = vec![];
    doc.trailer.iter().for_each(|(_, v)| refs_in(v, &mut todo));
    while let Some(id) = todo.pop() {
        if !seen.insert(id) {
            continue;
        }
        if let Some(o) = doc.objects.get(&id) {
            refs_in(o, &mut todo);
        }
    }
    seen
}

fn is_ref_to(o: &Object, id: ObjectId) -> bool {
    matches!(o, Object::Reference(r) if *r == id)
}

fn strip_dict_spec(d: &Dictionary, id: ObjectId) -> Dictionary {
    let mut n = Dictionary::new();
    for (k, v) in d.iter() {
        if !is_ref_to(v, id) {
            n.set(k.clone(), strip_spec(v, id));
        }
    }
    n
}

/// the object with every reference to `id` taken out of its arrays and dictionaries
fn strip_spec(o: &Object, id: ObjectId) -> Object {
    match o {
        Object::Array(a) => Object::Array(a.iter().filter(|x| !is_ref_to(x, id)).map(|x| strip_spec(x, id)).collect()),
        Object::Dictionary(d) => Object::Dictionary(strip_dict_spec(d, id)),
        Object::Stream(s) => {
            let mut t = s.clone();
            t.dict = strip_dict_spec(&s.dict, id);
            Object::Stream(t)
        }
        Object::Reference(r) if *r == id => Object::Null,
        _ => o.clone(),
    }
}

/// where a reference to `id` sits inside `o` (for the message), None if nowhere
fn find_ref(o: &Object, id: ObjectId, top: bool) -> Option<&'static str> {
    match o {
        Object::Reference(r) if *r == id => Some(if top { "an object that is itself the reference" } else { "?" }),
        Object::Array(a) => {
            if a.iter().any(|x| is_ref_to(x, id)) {
                return Some("an array");
            }
            a.iter().find_map(|x| find_ref(x, id, false))
        }
        Object::Dictionary(d) => {
            if d.iter().any(|(_, v)| is_ref_to(v, id)) {
                return Some("a dictionary");
            }
            d.iter().find_map(|(_, v)| find_ref(v, id, false))
        }
        Object::Stream(s) => {
            if s.dict.iter().any(|(_, v)| is_ref_to(v, id)) {
                return Some("a stream dictionary");
            }
            s.dict.iter().find_map(|(_, v)| find_ref(v, id, false))
        }
        _ => None,
    }
}


/// where references to `id` survive in anything a traversal from the trailer reaches: the trailer's own entries, the
/// containers under it, and every object reachable from it (whether a dictionary, an array, a STREAM's dictionary or an
/// object that is itself the reference); empty when none is left
fn surviving_refs(doc: &Document, id: ObjectId) -> Vec<String> {
    let mut out = vec![];
    if let Some((k, _)) = doc.trailer.iter().find(|(_, v)| is_ref_to(v, id)) {
        out.push(format!("the trailer (key {})", String::from_utf8_lossy(k)));
    }
    if let Some(w) = doc.trailer.iter().filter(|(_, v)| !is_ref_to(v, id)).find_map(|(_, v)| find_ref(v, id, false)) {
        out.push(format!("{} under the trailer", w));
    }
    for k in reach(doc) {
        if let Some(o) = doc.objects.get(&k) {
            if let Some(w) = find_ref(o, id, true) {
                out.push(format!("{} (object {:?})", w, k));
            }
        }
    }
    out
}

// ---------------- pages, contents, resources: the abstract document of the property ----------------
fn quiet<T>(f: impl FnOnce() -> T) -> Option<T> {
    catch_unwind(AssertUnwindSafe(f)).ok()
}

/// decoded content of every page, in page order (None: error or panic while decoding)
fn page_contents(doc: &Document) -> Vec<(ObjectId, Option<Vec<u8>>)> {
    doc.page_iter().map(|p| (p, quiet(|| doc.get_page_content(p).ok()).flatten())).collect()
}

fn direct_dict(doc: &Document, id: ObjectId) -> Option<&Dictionary> {
    match doc.objects.get(&id) {
        Some(Object::Dictionary(d)) => Some(d),
        _ => None,
    }
}

/// the page tree is a tree: every node listed once, Parent links right, Counts right.  Pages nodes are dictionary objects, a
/// leaf may sit behind reference objects (9 0 obj 3 0 R endobj), a Count may be an indirect object (ISO 32000-1 7.3.10: any
/// value may be indirect)
fn tree_wf(doc: &Document) -> bool {
    fn walk(doc: &Document, id: ObjectId, parent: Option<ObjectId>, seen: &mut BTreeSet<ObjectId>, depth: usize) -> Option<i64> {
        if depth > 64 || !seen.insert(id) {
            return None;
        }
        let d = match direct_dict(doc, id) {
            Some(d) => d,
            None => {
                let d = doc.get_dictionary(id).ok()?;
                if d.get(b"Type").ok()?.as_name().ok()? != b"Page" {
                    return None;
                }
                // two ids that end at the same dictionary are one page listed twice: not a tree (a set_object can make
                // a leaf id a reference to another leaf)
                if !seen.insert(target(doc, id)) {
                    return None;
                }
                d
            }
        };
        match (parent, d.get(b"Parent").ok()) {
            (None, None) => {}
            (Some(p), Some(Object::Reference(q))) if p == *q => {}
            _ => return None,
        }
        match d.get(b"Type").ok()?.as_name().ok()? {
            b"Page" => Some(1),
            b"Pages" => {
                let kids = match d.get(b"Kids").ok()? {
                    Object::Array(k) => k,
                    _ => return None,
                };
                let mut n = 0i64;
                for k in kids {
                    n += walk(doc, k.as_reference().ok()?, Some(id), seen, depth + 1)?;
                }
                if deref(doc, d.get(b"Count").ok()?)?.as_i64().ok()? != n {
                    return None;
                }
                Some(n)
            }
            _ => None,
        }
    }
    let root = match doc.catalog().ok().and_then(|c| c.get(b"Pages").ok()).and_then(|p| p.as_reference().ok()) {
        Some(r) => r,
        None => return false,
    };
    walk(doc, root, None, &mut BTreeSet::new(), 0).is_some()
}

/// what the pages show before and after a call that may add objects.  On a page tree with a cycle (a set_object can make
/// one) the LIST page_iter gives is cut off by the number of objects, so a call that adds an object lengthens it: when either
/// list repeats an id, each page is looked at once (first occurrence); otherwise the lists are compared as they are.
fn page_views(before: &Document, after: &Document) -> (Vec<(ObjectId, Option<Vec<u8>>)>, Vec<(ObjectId, Option<Vec<u8>>)>) {
    let once = |d: &Document| -> Vec<(ObjectId, Option<Vec<u8>>)> {
        let mut seen = BTreeSet::new();
        page_contents(d).into_iter().filter(|(p, _)| seen.insert(*p)).collect()
    };
    if tree_ids_once(before) && tree_ids_once(after) {
        (page_contents(before), page_contents(after))
    } else {
        (once(before), once(after))
    }
}

/// page_iter lists no id twice (it does when the page tree has a cycle or a shared node)
fn tree_ids_once(doc: &Document) -> bool {
    let mut seen = BTreeSet::new();
    doc.page_iter().all(|p| seen.insert(p))
}

fn deref<'a>(doc: &'a Document, o: &'a Object) -> Option<&'a Object> {
    doc.dereference(o).ok().map(|(_, x)| x)
}

/// the resource dictionary in effect for a page: the nearest Resources up the Parent chain;
/// flattened to (category, name) -> value ("" for a category that is not a dictionary)
fn eff_resources(doc: &Document, page: ObjectId) -> Option<BTreeMap<(Vec<u8>, Vec<u8>), Object>> {
    let mut node = doc.get_dictionary(page).ok()?;
    for _ in 0..64 {
        if let Ok(r) = node.get(b"Resources") {
            let rd = match deref(doc, r) {
                Some(Object::Dictionary(d)) => d,
                _ => return None,
            };
            let mut m = BTreeMap::new();
            for (cat, v) in rd.iter() {
                match deref(doc, v) {
                    Some(Object::Dictionary(cd)) => {
                        m.insert((cat.clone(), vec![]), Object::Null);
                        for (n, x) in cd.iter() {
                            m.insert((cat.clone(), n.clone()), x.clone());
                        }
                    }
                    Some(x) => {
                        m.insert((cat.clone(), vec![]), x.clone());
                    }
                    None => {}
                }
            }
            return Some(m);
        }
        node = doc.get_dictionary(node.get(b"Parent").ok()?.as_reference().ok()?).ok()?;
    }
    None
}

/// the ids passed when references are followed from `o` (at most 64)
fn ref_chain<'a>(doc: &'a Document, mut o: &'a Object, out: &mut BTreeSet<ObjectId>) {
    for _ in 0..64 {
        match o {
            Object::Reference(id) => {
                out.insert(*id);
                match doc.objects.get(id) {
                    Some(x) => o = x,
                    None => return,
                }
            }
            _ => return,
        }
    }
}

/// every object the effective resources of `page` are read from: the nodes up the Parent chain to the one that has
/// Resources, the reference objects and the dictionary object that entry leads to, and those of every category in it
fn res_support(doc: &Document, page: ObjectId) -> BTreeSet<ObjectId> {
    let mut s = BTreeSet::new();
    let mut id = page;
    for _ in 0..64 {
        ref_chain(doc, &Object::Reference(id), &mut s);
        let node = match doc.get_dictionary(id) {
            Ok(d) => d,
            Err(_) => break,
        };
        if let Ok(r) = node.get(b"Resources") {
            ref_chain(doc, r, &mut s);
            if let Some(Object::Dictionary(rd)) = deref(doc, r) {
                rd.iter().for_each(|(_, v)| ref_chain(doc, v, &mut s));
            }
            break;
        }
        match node.get(b"Parent").and_then(Object::as_reference) {
            Ok(p) => id = p,
            Err(_) => break,
        }
    }
    s
}

/// what a resource call for `page` may rewrite: the page dictionary, the objects its OWN Resources entry leads through,
/// and the objects the category entry (of its own or, when it has none, of the nearest inherited dictionary, whose
/// entries the page's copy starts with) leads through.  An inherited dictionary object itself is NOT in it.
fn res_scope(doc: &Document, page: ObjectId, cat: Option<&[u8]>) -> BTreeSet<ObjectId> {
    let mut s = BTreeSet::new();
    s.insert(target(doc, page));
    let mut own = true;
    let mut id = page;
    for _ in 0..64 {
        let node = match doc.get_dictionary(id) {
            Ok(d) => d,
            Err(_) => break,
        };
        if let Ok(r) = node.get(b"Resources") {
            if own {
                ref_chain(doc, r, &mut s);
            }
            if let (Some(cat), Some(Object::Dictionary(rd))) = (cat, deref(doc, r)) {
                if let Ok(c) = rd.get(cat) {
                    ref_chain(doc, c, &mut s);
                }
            }
            break;
        }
        own = false;
        match node.get(b"Parent").and_then(Object::as_reference) {
            Ok(p) => id = p,
            Err(_) => break,
        }
    }
    s
}

/// every reference occurring anywhere in the document names an object
fn no_dangling(doc: &Document) -> bool {
    let mut v = vec![];
    doc.trailer.iter().for_each(|(_, x)| refs_in(x, &mut v));
    doc.objects.values().for_each(|o| refs_in(o, &mut v));
    v.iter().all(|id| doc.objects.contains_key(id))
}

fn mentioned(doc: &Document, id: ObjectId) -> bool {
    let mut v = vec![];
    doc.trailer.iter().for_each(|(_, x)| refs_in(x, &mut v));
    doc.objects.values().for_each(|o| refs_in(o, &mut v));
    v.contains(&id)
}

/// the object a page id ends at when reference objects are followed (two ids with the same target are one page)
fn target(doc: &Document, id: ObjectId) -> ObjectId {
    match doc.dereference(&Object::Reference(id)) {
        Ok((Some(last), _)) => last,
        _ => id,
    }
}

/// the page has no Resources entry of its own but an ancestor provides one (class of the repaired finding C11-resources-shadow)
#[allow(dead_code)]
fn inherits_only(doc: &Document, page: ObjectId) -> bool {
    match doc.get_dictionary(page) {
        Ok(d) => !d.has(b"Resources") && eff_resources(doc, page).map(|m| !m.is_empty()).unwrap_or(false),
        Err(_) => false,
    }
}

fn alloc_inv(doc: &Document) -> bool {
    doc.objects.keys().all(|k| k.0 <= doc.max_id)
}

fn same_header(a: &Document, b: &Document) -> bool {
    a.version == b.version && a.binary_mark == b.binary_mark
}

/// objects of `after` that differ from `before` (added, removed or changed)
fn changed(before: &Document, after: &Document) -> Vec<ObjectId> {
    let mut v = vec![];
    for (k, o) in &before.objects {
        if after.objects.get(k) != Some(o) {
            v.push(*k);
        }
    }
    for k in after.objects.keys() {
        if !before.objects.contains_key(k) {
            v.push(*k);
        }
    }
    v
}

struct Check {
    fails: Vec<String>,
}
impl Check {
    fn req(&mut self, step: usize, ok: bool, msg: impl FnOnce() -> String) {
        if !ok && self.fails.len() < 3 {
            self.fails.push(format!("step {}: {}", step, msg()));
        }
    }
}

/// canonical dump of the whole Document: the objects, trailer, max_id and (once there are any) the bookmark fields
fn state_to_sx(doc: &Document) -> Sx {
    if doc.bookmark_table.is_empty() {
        return doc_to_sx(doc);
    }
    let mut tbl: Vec<_> = doc.bookmark_table.iter().collect();
    tbl.sort_by_key(|(k, _)| **k);
    Sx::tagged(
        "st",
        vec![
            doc_to_sx(doc),
            Sx::tagged(
                "bm",
                vec![
                    Sx::num(doc.max_bookmark_id),
                    Sx::tagged("roots", doc.bookmarks.iter().map(Sx::num).collect()),
                    Sx::tagged(
                        "tbl",
                        tbl.iter().map(|(k, b)| Sx::L(vec![Sx::num(**k), oid_to_sx(b.page), Sx::L(b.children.iter().map(Sx::num).collect())])).collect(),
                    ),
                ],
            ),
        ],
    )
}

/// how many outline items build_outline has to create: the bookmarks reachable from the roots, with multiplicity
fn outline_items(doc: &Document, ids: &[u32], depth: usize) -> usize {
    if depth > 4096 {
        return 0;
    }
    ids.iter().map(|i| 1 + doc.bookmark_table.get(i).map(|b| outline_items(doc, &b.children, depth + 1)).unwrap_or(0)).sum()
}

fn same_bookmarks(a: &Document, b: &Document) -> bool {
    a.max_bookmark_id == b.max_bookmark_id && a.bookmarks == b.bookmarks && a.bookmark_table.len() == b.bookmark_table.len()
        && a.bookmark_table.iter().all(|(k, x)| b.bookmark_table.get(k).map(|y| x.children == y.children && x.page == y.page && x.title == y.title
                                                                              && x.format == y.format && x.id == y.id).unwrap_or(false))
}

fn out_id(id: ObjectId) -> Sx {
    Sx::tagged("id", vec![oid_to_sx(id)])
}

fn main() {
    lvh::drive(|x| {
        let a = x.args();
        let (mut doc, ops) = match (
            a.first().and_then(doc_of_sx),
            a.get(1).and_then(|o| o.args().iter().map(op_of_sx).collect::<Option<Vec<_>>>()),
        ) {
            (Some(d), Some(o)) => (d, o),
            _ => return (Sx::id("badcase"), "skip".into()),
        };
        let mut trace = vec![];
        let mut prev = state_to_sx(&doc).print();
        let mut ck = Check { fails: vec![] };
        for (n, op) in ops.iter().enumerate() {
            let before = doc.clone();
            let inv_before = alloc_inv(&before);
            let res = catch_unwind(AssertUnwindSafe(|| apply(&mut doc, op)));
            let out = match res {
                Ok(o) => o,
                Err(_) => Sx::id("panic"),
            };
            let panicked = out.is_id("panic");
            // ---------------- verdicts ----------------
            ck.req(n, same_header(&before, &doc), || "version or binary mark changed".into());
            if !matches!(op, Op::Bm { .. } | Op::Renumber) {
                ck.req(n, same_bookmarks(&before, &doc), || "an operation other than add_bookmark / renumber_objects changed the bookmark fields".into());
            }
            let mut in_domain = true;
            match op {
                Op::Bm { parent, page, .. } => {
                    ck.req(n, changed(&before, &doc).is_empty() && before.trailer == doc.trailer && before.max_id == doc.max_id,
                           || "add_bookmark changed objects, trailer or max_id".into());
                    if !panicked {
                        // the new bookmark is a root (no parent), the last child of its parent (known parent), or an orphan; nothing else moves
                        let id = doc.max_bookmark_id;
                        let mut want_roots = before.bookmarks.clone();
                        if parent.is_none() {
                            want_roots.push(id);
                        }
                        ck.req(n, doc.bookmarks == want_roots, || format!("add_bookmark: the top-level bookmarks are {:?}, expected {:?}", doc.bookmarks, want_roots));
                        ck.req(n, doc.bookmark_table.get(&id).map(|b| b.page == *page && b.children.is_empty() && b.id == id).unwrap_or(false),
                               || "add_bookmark: the table entry of the new bookmark is wrong".into());
                        for (k, b0) in &before.bookmark_table {
                            let mut want = b0.children.clone();
                            if *parent == Some(*k) {
                                want.push(id);
                            }
                            ck.req(n, doc.bookmark_table.get(k).map(|b| b.children == want && b.page == b0.page).unwrap_or(false),
                                   || format!("add_bookmark: children / page of bookmark {} are not what the call implies", k));
                        }
                    }
                    ck.req(n, panicked || (doc.max_bookmark_id == before.max_bookmark_id + 1 && doc.bookmark_table.len() == before.bookmark_table.len() + 1
                                           && out.args().first().and_then(|x| x.as_u64()) == Some(doc.max_bookmark_id as u64)),
                           || "add_bookmark did not hand out max_bookmark_id + 1".into());
                }
                Op::Outline => {
                    ck.req(n, before.trailer == doc.trailer, || "build_outline changed the trailer".into());
                    let ch = changed(&before, &doc);
                    if panicked {
                        ck.req(n, ch.is_empty() && before.max_id == doc.max_id, || "a panicking build_outline changed the document".into());
                    } else {
                        let root = out.args().first().and_then(oid_of_sx);
                        ck.req(n, root.is_some() == !before.bookmarks.is_empty(), || "build_outline returned None although there are bookmarks (or Some without any)".into());
                        ck.req(n, doc.max_id >= before.max_id, || "build_outline moved max_id backwards".into());
                        if let Some(r) = root {
                            ck.req(n, r == (before.max_id + 1, 0), || format!("build_outline returned {:?}, expected max_id + 1 = {}", r, before.max_id + 1));
                            ck.req(n, matches!(doc.objects.get(&r), Some(Object::Dictionary(_))), || "build_outline: the returned id does not name a dictionary".into());
                        } else {
                            ck.req(n, ch.is_empty() && before.max_id == doc.max_id, || "build_outline without bookmarks changed the document".into());
                        }
                        if inv_before {
                            // no existing object is overwritten: every object written is new, numbered above the old cursor
                            for k in &ch {
                                ck.req(n, !before.objects.contains_key(k), || format!("build_outline overwrote the existing object {:?}", k));
                                ck.req(n, k.0 > before.max_id && k.1 == 0, || format!("build_outline wrote {:?}, not above the old max_id {}", k, before.max_id));
                            }
                            if root.is_some() {
                                let want = 1 + 2 * outline_items(&before, &before.bookmarks, 0);
                                ck.req(n, ch.len() == want, || format!("build_outline created {} objects, the bookmarks need {}", ch.len(), want));
                                // the cursor ends at the last id handed out: every created number is <= max_id, and none is skipped
                                ck.req(n, doc.max_id as u64 == before.max_id as u64 + ch.len() as u64,
                                       || format!("build_outline created {} objects above max_id {} but left max_id at {} (the next allocation would collide / skip)", ch.len(), before.max_id, doc.max_id));
                            }
                            // the links between the created objects (Parent / Prev / Next / First / Last / A) name created objects
                            for k in &ch {
                                match doc.objects.get(k) {
                                    Some(Object::Dictionary(d)) => {
                                        for key in [&b"Parent"[..], b"Prev", b"Next", b"First", b"Last", b"A"] {
                                            if let Ok(v) = d.get(key) {
                                                ck.req(n, matches!(v, Object::Reference(r) if ch.contains(r)), || format!("outline object {:?}: /{} does not name an object build_outline created", k, String::from_utf8_lossy(key)));
                                            }
                                        }
                                    }
                                    _ => ck.req(n, false, || format!("build_outline created {:?}, not a dictionary", k)),
                                }
                            }
                            let (v0, v1) = page_views(&before, &doc);
                            ck.req(n, v0 == v1, || "build_outline changed what a page shows".into());
                        }
                    }
                }
                Op::Save(stream) => {
                    if !out.is_id("skipped") {
                        ck.req(n, changed(&before, &doc).is_empty(), || "save changed an object".into());
                        ck.req(n, doc.max_id >= before.max_id, || "save moved max_id backwards".into());
                        let touched: &[&[u8]] = if *stream { &[b"Type", b"Size", b"W", b"Index", b"Filter", b"Length"] } else { &[b"Size"] };
                        let rest = |d: &Document| -> Vec<(Vec<u8>, Object)> { d.trailer.iter().filter(|(k, _)| !touched.contains(&k.as_slice())).map(|(k, v)| (k.clone(), v.clone())).collect() };
                        ck.req(n, rest(&before) == rest(&doc), || "save changed a trailer entry that is not cross-reference bookkeeping".into());
                        // save_internal first raises max_id to the largest object number (also when it then fails)
                        let raised = before.objects.keys().map(|k| k.0).max().map_or(before.max_id, |t| t.max(before.max_id));
                        if out.is_id("ok") {
                            ck.req(n, doc.max_id == raised + if *stream { 1 } else { 0 }, || "save: max_id is not max(old max_id, largest object number) (+1 for the cross-reference stream object)".into());
                            ck.req(n, doc.trailer.get(b"Size").and_then(Object::as_i64).ok() == Some(doc.max_id as i64 + 1), || "save: trailer Size is not max_id + 1".into());
                        } else if !panicked {
                            ck.req(n, before.trailer == doc.trailer && doc.max_id == raised, || "a failed save changed the document beyond raising max_id".into());
                        }
                        ck.req(n, alloc_inv(&doc), || "after save max_id is below an object number in use".into());
                    }
                }
                Op::New | Op::Add(_) => {
                    if panicked {
                        ck.req(n, before.max_id == u32::MAX, || "allocation panicked below u32::MAX".into());
                        ck.req(n, changed(&before, &doc).is_empty() && before.trailer == doc.trailer && before.max_id == doc.max_id,
                               || "a panicking allocation changed the document".into());
                    } else {
                        let id = out.args().first().and_then(oid_of_sx).unwrap_or((0, 0));
                        if inv_before {
                            ck.req(n, !before.objects.contains_key(&id) && !before.objects.keys().any(|k| k.0 == id.0),
                                   || format!("allocated id {:?} collides with an existing object", id));
                        }
                        ck.req(n, id.0 > before.max_id && doc.max_id == id.0, || format!("allocated id {:?} not above the old max_id {}", id, before.max_id));
                        ck.req(n, before.trailer == doc.trailer, || "allocation changed the trailer".into());
                        let ch = changed(&before, &doc);
                        match op {
                            Op::Add(o) => ck.req(n, (ch.is_empty() && before.objects.get(&id) == Some(o)) || (ch == vec![id] && doc.objects.get(&id) == Some(o)),
                                                 || format!("add_object changed {:?}, expected only the new id {:?}", ch, id)),
                            _ => ck.req(n, ch.is_empty(), || format!("new_object_id changed objects {:?}", ch)),
                        }
                    }
                }
                Op::Set(id, o) => {
                    in_domain = id.0 <= before.max_id;
                    let ch = changed(&before, &doc);
                    ck.req(n, ch.iter().all(|k| k == id) && doc.objects.get(id) == Some(o), || format!("set_object({:?}) changed {:?}", id, ch));
                    ck.req(n, before.trailer == doc.trailer && before.max_id == doc.max_id, || "set_object changed trailer or max_id".into());
                }
                Op::Del(id) => {
                    ck.req(n, !doc.objects.contains_key(id), || format!("delete_object({:?}) left the object in place", id));
                    ck.req(n, before.max_id == doc.max_id, || "delete_object changed max_id".into());
                    // frame: every other object is what it was, or what it was without references to id
                    for (k, o) in &before.objects {
                        if k == id {
                            continue;
                        }
                        match doc.objects.get(k) {
                            None => ck.req(n, false, || format!("delete_object({:?}) also removed {:?}", id, k)),
                            Some(o2) => ck.req(n, o2 == o || *o2 == strip_spec(o, *id),
                                               || format!("delete_object({:?}) altered {:?} beyond removing references to it", id, k)),
                        }
                    }
                    ck.req(n, doc.objects.keys().all(|k| before.objects.contains_key(k)), || "delete_object added an object".into());
                    ck.req(n, doc.trailer == before.trailer || doc.trailer == strip_dict_spec(&before.trailer, *id),
                           || "delete_object altered the trailer beyond removing references".into());
                    // no reference to the deleted id anywhere a traversal from the trailer reaches
                    for w in surviving_refs(&doc, *id) {
                        ck.req(n, false, || format!("delete_object({:?}) left a reference to it in {}", id, w));
                    }
                    // the returned object is the one that was stored (possibly without self references)
                    let want = before.objects.get(id);
                    let got = out.args().first().map(|s| s.print());
                    let ok = match want {
                        None => got.as_deref() == Some("none"),
                        Some(o) => got == Some(obj_to_sx(o).print()) || got == Some(obj_to_sx(&strip_spec(o, *id)).print()) || {
                            // dictionary order may differ after swap_remove: compare as objects
                            out.args().first().and_then(obj_of_sx).map(|g| g == *o || g == strip_spec(o, *id)).unwrap_or(false)
                        },
                    };
                    ck.req(n, ok, || format!("delete_object({:?}) returned something else than the stored object", id));
                }
                Op::RmAnnot(id) => {
                    ck.req(n, before.trailer == doc.trailer && before.max_id == doc.max_id, || "remove_object changed trailer or max_id".into());
                    for k in changed(&before, &doc) {
                        let ok = match (before.objects.get(&k), doc.objects.get(&k)) {
                            (Some(Object::Dictionary(d1)), Some(Object::Dictionary(d2))) => {
                                let mut e = d1.clone();
                                if let Ok(Object::Array(arr)) = d1.get(b"Annots") {
                                    e.set("Annots", Object::Array(arr.iter().filter(|x| !is_ref_to(x, *id)).cloned().collect()));
                                }
                                e == *d2
                            }
                            _ => false,
                        };
                        ck.req(n, ok, || format!("remove_object({:?}) altered {:?} beyond its Annots array", id, k));
                    }
                    if out.is_id("ok") {
                        for (_, p) in before.get_pages() {
                            let gone = doc.get_dictionary(p).ok().and_then(|d| d.get(b"Annots").ok()).and_then(|x| x.as_array().ok())
                                .map(|arr| !arr.iter().any(|x| is_ref_to(x, *id))).unwrap_or(false);
                            ck.req(n, gone, || format!("remove_object({:?}) returned Ok but page {:?} still lists it", id, p));
                        }
                    }
                }
                Op::Prune => {
                    let r = reach(&before);
                    let want: Vec<ObjectId> = before.objects.keys().filter(|k| !r.contains(k)).cloned().collect();
                    let got: Vec<ObjectId> = out.args().iter().filter_map(oid_of_sx).collect();
                    ck.req(n, got == want, || format!("prune_objects removed {:?}, the unreachable objects are {:?}", got, want));
                    let keep: BTreeMap<ObjectId, Object> = before.objects.iter().filter(|(k, _)| r.contains(k)).map(|(k, o)| (*k, o.clone())).collect();
                    ck.req(n, keep == doc.objects, || "prune_objects altered or removed a reachable object".into());
                    ck.req(n, before.trailer == doc.trailer && before.max_id == doc.max_id, || "prune_objects changed trailer or max_id".into());
                }
                Op::DelPages(nums) => {
                    ck.req(n, before.trailer == doc.trailer || true, || String::new());
                    ck.req(n, before.max_id == doc.max_id, || "delete_pages changed max_id".into());
                    if !panicked {
                        // every page the call names is deleted with delete_object: the object is gone and no reference to
                        // its id survives anywhere a traversal from the trailer reaches (whatever the shape of the page tree)
                        let listed = before.get_pages();
                        let mut named: Vec<ObjectId> = vec![];       // in the order of the call, each page once
                        for k in nums {
                            if let Some(p) = listed.get(k) {
                                if !named.contains(p) {
                                    named.push(*p);
                                }
                            }
                        }
                        for pid in &named {
                            ck.req(n, !doc.objects.contains_key(pid), || format!("delete_pages({:?}) left the page object {:?} in place", nums, pid));
                            for w in surviving_refs(&doc, *pid) {
                                ck.req(n, false, || format!("delete_pages({:?}) left a reference to the deleted page {:?} in {}", nums, pid, w));
                            }
                        }
                        // frame: every other object is what it was, or what it was without the references to the pages deleted
                        // so far (an object that a deletion cuts off from the trailer is not touched by the later ones), and a
                        // dictionary may in addition have its integer Count changed (the Pages nodes above a deleted page)
                        let same_but_count = |x: &Object, y: &Object| match (x, y) {
                            (Object::Dictionary(a), Object::Dictionary(b)) => {
                                matches!((a.get(b"Count"), b.get(b"Count")), (Ok(Object::Integer(_) | Object::Reference(_)), Ok(Object::Integer(_)))) && {
                                    let (mut a, mut b) = (a.clone(), b.clone());
                                    a.remove(b"Count");
                                    b.remove(b"Count");
                                    a == b
                                }
                            }
                            _ => false,
                        };
                        for (k, o) in &before.objects {
                            if named.contains(k) {
                                continue;
                            }
                            if let Some(o2) = doc.objects.get(k) {
                                let mut cur = o.clone();
                                let mut ok = cur == *o2 || same_but_count(&cur, o2);
                                for pid in &named {
                                    cur = strip_spec(&cur, *pid);
                                    ok = ok || cur == *o2 || same_but_count(&cur, o2);
                                }
                                ck.req(n, ok, || format!("delete_pages({:?}) altered {:?} beyond removing references to the deleted pages {:?} and adjusting Count", nums, k, named));
                            }
                        }
                        let mut tcur = before.trailer.clone();
                        let mut tok = tcur == doc.trailer;
                        for pid in &named {
                            tcur = strip_dict_spec(&tcur, *pid);
                            tok = tok || tcur == doc.trailer;
                        }
                        ck.req(n, tok, || format!("delete_pages({:?}) altered the trailer beyond removing references to the deleted pages", nums));
                    }
                    if !panicked && tree_wf(&before) {
                        let old: Vec<ObjectId> = before.page_iter().collect();
                        let want: Vec<ObjectId> = old.iter().enumerate().filter(|(i, _)| !nums.contains(&((*i + 1) as u32))).map(|(_, p)| *p).collect();
                        let got: Vec<ObjectId> = doc.page_iter().collect();
                        ck.req(n, got == want, || format!("delete_pages({:?}): pages are {:?}, expected {:?}", nums, got, want));
                        ck.req(n, tree_wf(&doc), || format!("delete_pages({:?}) left a page tree whose Counts / Kids / Parents are inconsistent", nums));
                        let gone: Vec<ObjectId> = old.iter().filter(|p| !want.contains(p)).cloned().collect();
                        ck.req(n, before.objects.keys().filter(|k| !gone.contains(k)).all(|k| doc.objects.contains_key(k)) && gone.iter().all(|k| !doc.objects.contains_key(k)),
                               || format!("delete_pages({:?}) removed other objects than the pages {:?}", nums, gone));
                        let pc0 = page_contents(&before);
                        let pc1 = page_contents(&doc);
                        let want_c: Vec<_> = pc0.iter().filter(|(p, _)| want.contains(p)).cloned().collect();
                        ck.req(n, pc1 == want_c, || "delete_pages changed the content of a remaining page".into());
                    }
                }
                Op::Renumber => {
                    if !panicked {
                        ck.req(n, alloc_inv(&doc), || "renumber_objects left max_id below an object number".into());
                        ck.req(n, doc.objects.len() == before.objects.len(), || "renumber_objects changed the number of objects".into());
                        if no_dangling(&before) {
                            let c0: Vec<_> = page_contents(&before).into_iter().map(|(_, c)| c).collect();
                            let c1: Vec<_> = page_contents(&doc).into_iter().map(|(_, c)| c).collect();
                            ck.req(n, c0 == c1, || "renumber_objects changed the content of a page".into());
                        }
                    }
                }
                Op::Compress | Op::Decompress => {
                    let what = if matches!(op, Op::Compress) { "compress" } else { "decompress" };
                    ck.req(n, before.trailer == doc.trailer && before.max_id == doc.max_id, || format!("{} changed trailer or max_id", what));
                    ck.req(n, before.objects.len() == doc.objects.len(), || format!("{} added or removed objects", what));
                    for k in changed(&before, &doc) {
                        let ok = match (before.objects.get(&k), doc.objects.get(&k)) {
                            (Some(Object::Stream(s0)), Some(Object::Stream(s1))) => {
                                let d0 = quiet(|| s0.decompressed_content().ok()).flatten().unwrap_or_else(|| s0.content.clone());
                                let d1 = quiet(|| s1.decompressed_content().ok()).flatten().unwrap_or_else(|| s1.content.clone());
                                d0 == d1
                            }
                            _ => false,
                        };
                        ck.req(n, ok, || format!("{} altered {:?}: not a stream, or its decoded data changed", what, k));
                    }
                    if !panicked {
                        ck.req(n, page_contents(&before) == page_contents(&doc), || format!("{} changed the decoded content of a page", what));
                    }
                }
                Op::Ccs(id, c) => {
                    ck.req(n, before.trailer == doc.trailer && before.max_id == doc.max_id, || "change_content_stream changed trailer or max_id".into());
                    ck.req(n, changed(&before, &doc).iter().all(|k| k == id), || "change_content_stream changed another object".into());
                    if let Some(Object::Stream(s)) = doc.objects.get(id) {
                        let d1 = quiet(|| s.decompressed_content().ok()).flatten().unwrap_or_else(|| s.content.clone());
                        ck.req(n, d1 == *c, || format!("change_content_stream({:?}): the stream does not decode to the new content", id));
                    }
                }
                Op::Cpc(p, c) => {
                    ck.req(n, before.trailer == doc.trailer, || "change_page_content changed the trailer".into());
                    if out.is_id("ok") {
                        let (pc0, pc1) = page_views(&before, &doc);
                        let fresh_clash = doc.max_id != before.max_id && mentioned(&before, (doc.max_id, 0));
                        if pc0.iter().any(|(q, _)| q == p) && !fresh_clash {
                            ck.req(n, pc0.len() == pc1.len() && pc0.iter().zip(pc1.iter()).all(|((q0, c0), (q1, c1))| q0 == q1 && if target(&before, *q0) == target(&before, *p) { c1.as_deref() == Some(c.as_slice()) } else { c0 == c1 }),
                                   || format!("change_page_content({:?}): afterwards the page does not show exactly the new content, or another page changed", p));
                        }
                    } else {
                        ck.req(n, panicked || changed(&before, &doc).is_empty(), || "change_page_content failed but changed the document".into());
                    }
                }
                Op::Apc(p, _) | Op::Atpc(p, _) => {
                    let c: Vec<u8> = match op {
                        Op::Apc(_, c) => c.clone(),
                        Op::Atpc(_, ops) => Content { operations: ops.clone() }.encode().unwrap_or_default(),
                        _ => vec![],
                    };
                    ck.req(n, before.trailer == doc.trailer, || "add_page_contents changed the trailer".into());
                    if out.is_id("ok") {
                        let (pc0, pc1) = page_views(&before, &doc);
                        let fresh_clash = mentioned(&before, (doc.max_id, 0));
                        if pc0.iter().any(|(q, _)| q == p) && !fresh_clash {
                            ck.req(n, pc0.len() == pc1.len() && pc0.iter().zip(pc1.iter()).all(|((q0, c0), (q1, c1))| q0 == q1 && if target(&before, *q0) == target(&before, *p) {
                                       match (c0, c1) { (Some(a), Some(b)) => { let mut w = a.clone(); w.extend_from_slice(&c); w == *b } _ => false }
                                   } else { c0 == c1 }),
                                   || format!("add_page_contents({:?}): afterwards the page does not show its old content followed by the new one, or another page changed", p));
                        }
                        let ch = changed(&before, &doc);
                        ck.req(n, ch.len() <= 2 && before.objects.keys().all(|k| doc.objects.contains_key(k)), || format!("add_page_contents changed {:?}", ch));
                    }
                }
                Op::Gocr(p) | Op::AddX(p, _, _) | Op::AddGs(p, _, _) => {
                    ck.req(n, before.trailer == doc.trailer && before.max_id == doc.max_id, || "a resource operation changed trailer or max_id".into());
                    let ch = changed(&before, &doc);
                    // frame: at most the page (it may get its own Resources entry) and ONE object holding the resource / category
                    // dictionary change, and each changes only by gaining or updating the entries the call is about
                    ck.req(n, ch.len() <= 2 && before.objects.len() == doc.objects.len(), || format!("a resource operation on {:?} changed the objects {:?}", p, ch));
                    let (cat, nm): (&[u8], &[u8]) = match op {
                        Op::AddX(_, nm, _) => (b"XObject", nm.as_slice()),
                        Op::AddGs(_, nm, _) => (b"ExtGState", nm.as_slice()),
                        _ => (b"Resources", b"Resources"),
                    };
                    let pt = target(&before, *p);
                    // the call writes into the page and into the page's OWN resources only: an inherited dictionary (or any
                    // other object) is never edited where it is, and a page that reads none of these objects keeps exactly
                    // the resources (names AND what they denote) it had
                    let scope = res_scope(&before, *p, if matches!(op, Op::Gocr(_)) { None } else { Some(cat) });
                    for k in &ch {
                        ck.req(n, scope.contains(k), || format!("the resource operation on {:?} rewrote {:?}, which is neither the page nor an object its own Resources entry leads to (a dictionary other nodes inherit or use was edited in place)", p, k));
                    }
                    if !ch.is_empty() {
                        let mut seen_pages = BTreeSet::new();
                        for q in before.page_iter().take(4096) {
                            if !seen_pages.insert(q) || target(&before, q) == pt {
                                continue;
                            }
                            let r0 = eff_resources(&before, q);
                            if r0 != eff_resources(&doc, q) && res_support(&before, q).is_disjoint(&scope) {
                                let what = match (&r0, eff_resources(&doc, q)) {
                                    (Some(a), Some(b)) => a.iter().find(|(k, v)| b.get(*k) != Some(*v)).map(|(k, _)| format!("/{} /{} is gone or denotes another object", String::from_utf8_lossy(&k.0), String::from_utf8_lossy(&k.1)))
                                        .unwrap_or_else(|| "it gained an entry".into()),
                                    _ => "defined / undefined".into(),
                                };
                                ck.req(n, false, || format!("the resource operation on {:?} changed the effective resources of the other page {:?}: {}", p, q, what));
                                break;
                            }
                        }
                    }
                    for k in &ch {
                        let ok = match (before.objects.get(k), doc.objects.get(k)) {
                            (Some(Object::Dictionary(d0)), Some(Object::Dictionary(d1))) => {
                                let may = |key: &[u8]| key == cat || key == nm || (*k == pt && key == b"Resources");
                                d0.iter().all(|(key, v)| may(key) || d1.get(key).ok() == Some(v)) && d1.iter().all(|(key, _)| may(key) || d0.has(key))
                            }
                            _ => false,
                        };
                        ck.req(n, ok, || format!("a resource operation on {:?} altered {:?} beyond the entries it is about", p, k));
                    }
                    if ch.len() == 2 {
                        ck.req(n, ch.contains(&pt), || format!("a resource operation on {:?} changed two objects {:?}, neither is the page", p, ch));
                    }
                    ck.req(n, page_contents(&before) == page_contents(&doc), || "a resource operation changed the content of a page".into());
                    // no page loses a resource it could use before
                    let set: Option<(Vec<u8>, Vec<u8>)> = match op {
                        Op::AddX(_, nm, _) => Some((b"XObject".to_vec(), nm.clone())),
                        Op::AddGs(_, nm, _) => Some((b"ExtGState".to_vec(), nm.clone())),
                        _ => None,
                    };
                    for q in before.page_iter() {
                        if let Some(r0) = eff_resources(&before, q) {
                            let r1 = eff_resources(&doc, q).unwrap_or_default();
                            for (k, v) in &r0 {
                                // the name must still be there (its value may be the very dictionary the call wrote into)
                                let _ = v;
                                let kept = r1.contains_key(k);
                                if !kept {
                                    let tag = "";      // C11-resources-shadow is repaired: losing an inherited resource is a violation again
                                    ck.req(n, false, || format!("{}after the resource operation on {:?}, page {:?} can no longer use /{} /{}", tag, p, q,
                                                                 String::from_utf8_lossy(&k.0), String::from_utf8_lossy(&k.1)));
                                    break;
                                }
                            }
                        }
                    }
                    // and the added resource is there
                    if out.is_id("ok") && !matches!(op, Op::Gocr(_)) {
                        if let (Some(k), Some(r1)) = (set.as_ref(), eff_resources(&doc, *p)) {
                            let want = match op { Op::AddX(_, _, x) | Op::AddGs(_, _, x) => Object::Reference(*x), _ => Object::Null };
                            if before.get_dictionary(*p).is_ok() && eff_resources(&before, *p).is_some() {
                                ck.req(n, r1.get(k) == Some(&want), || format!("the resource operation on {:?} returned Ok but the page does not list the resource", p));
                            }
                        }
                    }
                }
                Op::Content(_) => {
                    ck.req(n, changed(&before, &doc).is_empty() && before.trailer == doc.trailer && before.max_id == doc.max_id, || "get_page_content changed the document".into());
                }
            }
            // operations that must not touch what the pages show
            if !panicked && matches!(op, Op::New | Op::Add(_) | Op::Prune | Op::RmAnnot(_)) {
                let clash = matches!(op, Op::Add(_)) && mentioned(&before, (doc.max_id, 0));
                if !clash {
                    let (v0, v1) = page_views(&before, &doc);
                    let same = v0 == v1;
                    ck.req(n, same,
                           || "an operation that does not edit content changed what a page shows".into());
                }
            }
            if inv_before && in_domain {
                ck.req(n, alloc_inv(&doc), || format!("max_id {} is below an object number in use", doc.max_id));
            }
            let dump = state_to_sx(&doc);
            let txt = dump.print();
            trace.push(Sx::L(vec![out, if txt == prev { Sx::id("=") } else { dump }]));
            prev = txt;
        }
        let verdict = if ck.fails.is_empty() { "ok".to_string() } else { format!("FAIL {}", ck.fails.join("; ")) };
        (Sx::tagged("trace", trace), verdict)
    });
}

fn okerr<T>(r: lopdf::Result<T>) -> Sx {
    match r {
        Ok(_) => Sx::id("ok"),
        Err(_) => Sx::id("err"),
    }
}

fn apply(doc: &mut Document, op: &Op) -> Sx {
    match op {
        Op::New => out_id(doc.new_object_id()),
        Op::Add(o) => out_id(doc.add_object(o.clone())),
        Op::Set(id, o) => {
            doc.set_object(*id, o.clone());
            Sx::id("unit")
        }
        Op::Del(id) => match doc.delete_object(*id) {
            Some(o) => Sx::tagged("obj", vec![obj_to_sx(&o)]),
            None => Sx::tagged("obj", vec![Sx::id("none")]),
        },
        Op::RmAnnot(id) => match doc.remove_object(id) {
            Ok(()) => Sx::id("ok"),
            Err(_) => Sx::id("err"),
        },
        Op::Prune => Sx::tagged("ids", doc.prune_objects().into_iter().map(oid_to_sx).collect()),
        Op::DelPages(nums) => {
            doc.delete_pages(nums);
            Sx::id("unit")
        }
        Op::Renumber => {
            doc.renumber_objects();
            Sx::id("unit")
        }
        Op::Compress => {
            doc.compress();
            Sx::id("unit")
        }
        Op::Decompress => {
            doc.decompress();
            Sx::id("unit")
        }
        Op::Ccs(id, c) => {
            doc.change_content_stream(*id, c.clone());
            Sx::id("unit")
        }
        Op::Cpc(p, c) => okerr(doc.change_page_content(*p, c.clone())),
        Op::Apc(p, c) => okerr(doc.add_page_contents(*p, c.clone())),
        Op::Atpc(p, ops) => okerr(doc.add_to_page_content(*p, Content { operations: ops.clone() })),
        Op::Gocr(p) => match doc.get_or_create_resources(*p) {
            Ok(o) => Sx::tagged("okobj", vec![obj_to_sx(o)]),
            Err(_) => Sx::id("err"),
        },
        Op::AddX(p, nm, x) => okerr(doc.add_xobject(*p, nm.clone(), *x)),
        Op::AddGs(p, nm, x) => okerr(doc.add_graphics_state(*p, nm.clone(), *x)),
        Op::Content(p) => match doc.get_page_content(*p) {
            Ok(b) => Sx::tagged("bytes", vec![Sx::bytes(&b)]),
            Err(_) => Sx::tagged("bytes", vec![Sx::id("none")]),
        },
        Op::Save(stream) => {
            if doc.max_id > SAVE_MAX {
                return Sx::id("skipped");
            }
            doc.reference_table.cross_reference_type = if *stream { XrefType::CrossReferenceStream } else { XrefType::CrossReferenceTable };
            let mut sink: Vec<u8> = Vec::new();
            match doc.save_to(&mut sink) {
                Ok(()) => Sx::id("ok"),
                Err(_) => Sx::id("err"),
            }
        }
        Op::Bm { title, format, color, page, parent } => {
            Sx::tagged("num", vec![Sx::num(doc.add_bookmark(Bookmark::new(title.clone(), *color, *format, *page), *parent))])
        }
        Op::Outline => match doc.build_outline() {
            Some(id) => Sx::tagged("root", vec![oid_to_sx(id)]),
            None => Sx::tagged("root", vec![Sx::id("none")]),
        },
    }
}
