//! C11: editing operations keep the document sound.
//! Case: (case <doc> (ops <op>...) (orc ...))      (the oracle table is for the model only)
//!   op ::= (new) | (add <obj>) | (set (i g) <obj>) | (del (i g)) | (rmannot (i g)) | (prune)
//! Result: (trace (<out> <doc-or-=>)...) -- what each call returned and the canonical dump of the
//!   document after it ("=" when the dump equals the previous one).
//! Verdict: the invariants of the property evaluated directly on the implementation after EVERY
//!   step, by code that shares nothing with the model (own reachability, own "remove every
//!   reference" function, order-insensitive dictionary comparison).
use lopdf::{Dictionary, Document, Object, ObjectId};
use lvh::conv::*;
use lvh::sx::Sx;
use std::collections::{BTreeMap, BTreeSet};
use std::panic::{catch_unwind, AssertUnwindSafe};

enum Op {
    New,
    Add(Object),
    Set(ObjectId, Object),
    Del(ObjectId),
    RmAnnot(ObjectId),
    Prune,
}

fn op_of_sx(x: &Sx) -> Option<Op> {
    let a = x.args();
    Some(match x.tag()? {
        "new" => Op::New,
        "add" => Op::Add(obj_of_sx(a.first()?)?),
        "set" => Op::Set(oid_of_sx(a.first()?)?, obj_of_sx(a.get(1)?)?),
        "del" => Op::Del(oid_of_sx(a.first()?)?),
        "rmannot" => Op::RmAnnot(oid_of_sx(a.first()?)?),
        "prune" => Op::Prune,
        _ => return None,
    })
}

// ---------------------------------------------------------------------------------------------
// independent helpers for the verdicts
// ---------------------------------------------------------------------------------------------
fn refs_in(o: &Object, out: &mut Vec<ObjectId>) {
    match o {
        Object::Reference(id) => out.push(*id),
        Object::Array(a) => a.iter().for_each(|x| refs_in(x, out)),
        Object::Dictionary(d) => d.iter().for_each(|(_, v)| refs_in(v, out)),
        Object::Stream(s) => s.dict.iter().for_each(|(_, v)| refs_in(v, out)),
        _ => {}
    }
}

/// ids reachable from the trailer (targets of references, whether or not they name an object)
fn reach(doc: &Document) -> BTreeSet<ObjectId> {
    let mut seen = BTreeSet::new();
    let mut todo = vec![];
    doc.trailer.iter().for_each(|(_, v)| refs_in(v, &mut todo));
    while let Some(id) = todo.pop() {
        if !seen.insert(id) {
            continue;
        }
        if let Some(o) = doc.objects.get(&id) {
            refs_in(o, &mut todo);
        }
    }
    seen
}

fn is_ref_to(o: &Object, id: ObjectId) -> bool {
    matches!(o, Object::Reference(r) if *r == id)
}

fn strip_dict_spec(d: &Dictionary, id: ObjectId) -> Dictionary {
    let mut n = Dictionary::new();
    for (k, v) in d.iter() {
        if !is_ref_to(v, id) {
            n.set(k.clone(), strip_spec(v, id));
        }
    }
    n
}

/// the object with every reference to `id` taken out of its arrays and dictionaries
fn strip_spec(o: &Object, id: ObjectId) -> Object {
    match o {
        Object::Array(a) => Object::Array(a.iter().filter(|x| !is_ref_to(x, id)).map(|x| strip_spec(x, id)).collect()),
        Object::Dictionary(d) => Object::Dictionary(strip_dict_spec(d, id)),
        Object::Stream(s) => {
            let mut t = s.clone();
            t.dict = strip_dict_spec(&s.dict, id);
            Object::Stream(t)
        }
        Object::Reference(r) if *r == id => Object::Null,
        _ => o.clone(),
    }
}

/// where a reference to `id` sits inside `o` (for the message), None if nowhere
fn find_ref(o: &Object, id: ObjectId, top: bool) -> Option<&'static str> {
    match o {
        Object::Reference(r) if *r == id => Some(if top { "an object that is itself the reference" } else { "?" }),
        Object::Array(a) => {
            if a.iter().any(|x| is_ref_to(x, id)) {
                return Some("an array");
            }
            a.iter().find_map(|x| find_ref(x, id, false))
        }
        Object::Dictionary(d) => {
            if d.iter().any(|(_, v)| is_ref_to(v, id)) {
                return Some("a dictionary");
            }
            d.iter().find_map(|(_, v)| find_ref(v, id, false))
        }
        Object::Stream(s) => {
            if s.dict.iter().any(|(_, v)| is_ref_to(v, id)) {
                return Some("a stream dictionary");
            }
            s.dict.iter().find_map(|(_, v)| find_ref(v, id, false))
        }
        _ => None,
    }
}

fn alloc_inv(doc: &Document) -> bool {
    doc.objects.keys().all(|k| k.0 <= doc.max_id)
}

fn same_header(a: &Document, b: &Document) -> bool {
    a.version == b.version && a.binary_mark == b.binary_mark
}

/// objects of `after` that differ from `before` (added, removed or changed)
fn changed(before: &Document, after: &Document) -> Vec<ObjectId> {
    let mut v = vec![];
    for (k, o) in &before.objects {
        if after.objects.get(k) != Some(o) {
            v.push(*k);
        }
    }
    for k in after.objects.keys() {
        if !before.objects.contains_key(k) {
            v.push(*k);
        }
    }
    v
}

struct Check {
    fails: Vec<String>,
}
impl Check {
    fn req(&mut self, step: usize, ok: bool, msg: impl FnOnce() -> String) {
        if !ok && self.fails.len() < 3 {
            self.fails.push(format!("step {}: {}", step, msg()));
        }
    }
}

fn out_id(id: ObjectId) -> Sx {
    Sx::tagged("id", vec![oid_to_sx(id)])
}

fn main() {
    lvh::drive(|x| {
        let a = x.args();
        let (mut doc, ops) = match (
            a.first().and_then(doc_of_sx),
            a.get(1).and_then(|o| o.args().iter().map(op_of_sx).collect::<Option<Vec<_>>>()),
        ) {
            (Some(d), Some(o)) => (d, o),
            _ => return (Sx::id("badcase"), "skip".into()),
        };
        let mut trace = vec![];
        let mut prev = doc_to_sx(&doc).print();
        let mut ck = Check { fails: vec![] };
        for (n, op) in ops.iter().enumerate() {
            let before = doc.clone();
            let inv_before = alloc_inv(&before);
            let res = catch_unwind(AssertUnwindSafe(|| apply(&mut doc, op)));
            let out = match res {
                Ok(o) => o,
                Err(_) => Sx::id("panic"),
            };
            let panicked = out.is_id("panic");
            // ---------------- verdicts ----------------
            ck.req(n, same_header(&before, &doc), || "version or binary mark changed".into());
            let mut in_domain = true;
            match op {
                Op::New | Op::Add(_) => {
                    if panicked {
                        ck.req(n, before.max_id == u32::MAX, || "allocation panicked below u32::MAX".into());
                        ck.req(n, changed(&before, &doc).is_empty() && before.trailer == doc.trailer && before.max_id == doc.max_id,
                               || "a panicking allocation changed the document".into());
                    } else {
                        let id = out.args().first().and_then(oid_of_sx).unwrap_or((0, 0));
                        if inv_before {
                            ck.req(n, !before.objects.contains_key(&id) && !before.objects.keys().any(|k| k.0 == id.0),
                                   || format!("allocated id {:?} collides with an existing object", id));
                        }
                        ck.req(n, id.0 > before.max_id && doc.max_id == id.0, || format!("allocated id {:?} not above the old max_id {}", id, before.max_id));
                        ck.req(n, before.trailer == doc.trailer, || "allocation changed the trailer".into());
                        let ch = changed(&before, &doc);
                        match op {
                            Op::Add(o) => ck.req(n, (ch.is_empty() && before.objects.get(&id) == Some(o)) || (ch == vec![id] && doc.objects.get(&id) == Some(o)),
                                                 || format!("add_object changed {:?}, expected only the new id {:?}", ch, id)),
                            _ => ck.req(n, ch.is_empty(), || format!("new_object_id changed objects {:?}", ch)),
                        }
                    }
                }
                Op::Set(id, o) => {
                    in_domain = id.0 <= before.max_id;
                    let ch = changed(&before, &doc);
                    ck.req(n, ch.iter().all(|k| k == id) && doc.objects.get(id) == Some(o), || format!("set_object({:?}) changed {:?}", id, ch));
                    ck.req(n, before.trailer == doc.trailer && before.max_id == doc.max_id, || "set_object changed trailer or max_id".into());
                }
                Op::Del(id) => {
                    ck.req(n, !doc.objects.contains_key(id), || format!("delete_object({:?}) left the object in place", id));
                    ck.req(n, before.max_id == doc.max_id, || "delete_object changed max_id".into());
                    // frame: every other object is what it was, or what it was without references to id
                    for (k, o) in &before.objects {
                        if k == id {
                            continue;
                        }
                        match doc.objects.get(k) {
                            None => ck.req(n, false, || format!("delete_object({:?}) also removed {:?}", id, k)),
                            Some(o2) => ck.req(n, o2 == o || *o2 == strip_spec(o, *id),
                                               || format!("delete_object({:?}) altered {:?} beyond removing references to it", id, k)),
                        }
                    }
                    ck.req(n, doc.objects.keys().all(|k| before.objects.contains_key(k)), || "delete_object added an object".into());
                    ck.req(n, doc.trailer == before.trailer || doc.trailer == strip_dict_spec(&before.trailer, *id),
                           || "delete_object altered the trailer beyond removing references".into());
                    // no reference to the deleted id anywhere a traversal from the trailer reaches
                    if let Some((k, _)) = doc.trailer.iter().find(|(_, v)| is_ref_to(v, *id)) {
                        ck.req(n, false, || format!("delete_object({:?}) left a reference to it in the trailer (key {})", id, String::from_utf8_lossy(k)));
                    }
                    if let Some(w) = doc.trailer.iter().filter(|(_, v)| !is_ref_to(v, *id)).find_map(|(_, v)| find_ref(v, *id, false)) {
                        ck.req(n, false, || format!("delete_object({:?}) left a reference to it in {} under the trailer", id, w));
                    }
                    for k in reach(&doc) {
                        if let Some(o) = doc.objects.get(&k) {
                            if let Some(w) = find_ref(o, *id, true) {
                                ck.req(n, false, || format!("delete_object({:?}) left a reference to it in {} (object {:?})", id, w, k));
                            }
                        }
                    }
                    // the returned object is the one that was stored (possibly without self references)
                    let want = before.objects.get(id);
                    let got = out.args().first().map(|s| s.print());
                    let ok = match want {
                        None => got.as_deref() == Some("none"),
                        Some(o) => got == Some(obj_to_sx(o).print()) || got == Some(obj_to_sx(&strip_spec(o, *id)).print()) || {
                            // dictionary order may differ after swap_remove: compare as objects
                            out.args().first().and_then(obj_of_sx).map(|g| g == *o || g == strip_spec(o, *id)).unwrap_or(false)
                        },
                    };
                    ck.req(n, ok, || format!("delete_object({:?}) returned something else than the stored object", id));
                }
                Op::RmAnnot(id) => {
                    ck.req(n, before.trailer == doc.trailer && before.max_id == doc.max_id, || "remove_object changed trailer or max_id".into());
                    for k in changed(&before, &doc) {
                        let ok = match (before.objects.get(&k), doc.objects.get(&k)) {
                            (Some(Object::Dictionary(d1)), Some(Object::Dictionary(d2))) => {
                                let mut e = d1.clone();
                                if let Ok(Object::Array(arr)) = d1.get(b"Annots") {
                                    e.set("Annots", Object::Array(arr.iter().filter(|x| !is_ref_to(x, *id)).cloned().collect()));
                                }
                                e == *d2
                            }
                            _ => false,
                        };
                        ck.req(n, ok, || format!("remove_object({:?}) altered {:?} beyond its Annots array", id, k));
                    }
                    if out.is_id("ok") {
                        for (_, p) in before.get_pages() {
                            let gone = doc.get_dictionary(p).ok().and_then(|d| d.get(b"Annots").ok()).and_then(|x| x.as_array().ok())
                                .map(|arr| !arr.iter().any(|x| is_ref_to(x, *id))).unwrap_or(false);
                            ck.req(n, gone, || format!("remove_object({:?}) returned Ok but page {:?} still lists it", id, p));
                        }
                    }
                }
                Op::Prune => {
                    let r = reach(&before);
                    let want: Vec<ObjectId> = before.objects.keys().filter(|k| !r.contains(k)).cloned().collect();
                    let got: Vec<ObjectId> = out.args().iter().filter_map(oid_of_sx).collect();
                    ck.req(n, got == want, || format!("prune_objects removed {:?}, the unreachable objects are {:?}", got, want));
                    let keep: BTreeMap<ObjectId, Object> = before.objects.iter().filter(|(k, _)| r.contains(k)).map(|(k, o)| (*k, o.clone())).collect();
                    ck.req(n, keep == doc.objects, || "prune_objects altered or removed a reachable object".into());
                    ck.req(n, before.trailer == doc.trailer && before.max_id == doc.max_id, || "prune_objects changed trailer or max_id".into());
                }
            }
            if inv_before && in_domain {
                ck.req(n, alloc_inv(&doc), || format!("max_id {} is below an object number in use", doc.max_id));
            }
            let dump = doc_to_sx(&doc);
            let txt = dump.print();
            trace.push(Sx::L(vec![out, if txt == prev { Sx::id("=") } else { dump }]));
            prev = txt;
        }
        let verdict = if ck.fails.is_empty() { "ok".to_string() } else { format!("FAIL {}", ck.fails.join("; ")) };
        (Sx::tagged("trace", trace), verdict)
    });
}

fn apply(doc: &mut Document, op: &Op) -> Sx {
    match op {
        Op::New => out_id(doc.new_object_id()),
        Op::Add(o) => out_id(doc.add_object(o.clone())),
        Op::Set(id, o) => {
            doc.set_object(*id, o.clone());
            Sx::id("unit")
        }
        Op::Del(id) => match doc.delete_object(*id) {
            Some(o) => Sx::tagged("obj", vec![obj_to_sx(&o)]),
            None => Sx::tagged("obj", vec![Sx::id("none")]),
        },
        Op::RmAnnot(id) => match doc.remove_object(id) {
            Ok(()) => Sx::id("ok"),
            Err(_) => Sx::id("err"),
        },
        Op::Prune => Sx::tagged("ids", doc.prune_objects().into_iter().map(oid_to_sx).collect()),
    }
}
