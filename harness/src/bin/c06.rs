//! C06: the standard security handler agrees with the ISO 32000 algorithms.
//! The independent implementation is the extracted specification (coq/Spec/Crypto/Iso.v, runner c06).
//!
//! (enc <doc> <ver> (rnd ..) (ivs ..))   encrypt <doc> under <ver> with lopdf (own randomness) -> (encdoc <doc'>) | (err C)
//! (case <doc> <ver> <isoenc> <implenc> (pws (right|wrong xPW) ..) (flags [noverdict] [noreenc]))
//!     <isoenc>: <doc> encrypted by the ISO specification, <implenc>: <doc> encrypted by lopdf.
//!     result : (res (dec r ..) (reenc 1|skipped)),  r = lopdf opening <isoenc> with each password:
//!              (ok <objects> <trailer sorted by key> xFILEKEY) | (rejected) | (err C) | (panic)
//!              (the runner prints the specification opening <implenc>, and whether re-encrypting with lopdf's
//!               random choices reproduces <implenc>)
//!     verdict: every `right` password opens <isoenc>: Ok, all objects and the trailer equal to <doc>'s, the Encrypt
//!              entry and the encryption dictionary gone; every `wrong` password is rejected.
//!
//!     An optional last element (isoref (o xO) (u xU) (auth (xPW a6 a7) ..)) (revisions 2-4) is the extracted specification's
//!     answer to the runner line `isoref` about <implenc>, the file LOPDF wrote: O by Algorithm 3 for the passwords and key
//!     length of <ver>, U by Algorithm 4 / 5 (for that O, P, the file identifier, lopdf's 16 arbitrary bytes), and whether
//!     Algorithm 6 / 7 of the standard authenticate each password against lopdf's dictionary.  Verdict: lopdf's O and U
//!     entries EQUAL the standard's, and the standard authenticates exactly the right passwords in the right role: as user
//!     the user password; as owner the owner password -- which is the user password when there is no owner password
//!     (Algorithm 3 a) and only then; nothing else (the empty string included).  Passwords are compared as the standard
//!     uses them: padded / truncated to 32 bytes.
//!
//! Passwords.  The specification's algorithms are defined on the password bytes AFTER preparation (PDFDocEncoding for
//! revisions 2-4, SASLprep + UTF-8 for revisions 5-6); lopdf's API takes the Unicode text and prepares it itself.  So:
//!   * in a `case` line <ver> and the `pws` hold the PREPARED bytes (what the specification side reads); an optional
//!     seventh element (raw xTEXT ..), parallel to `pws`, holds the UTF-8 text handed to lopdf (absent: the same bytes,
//!     printable ASCII).  The harness re-prepares every text by the crate's own route and answers (badprep) if the
//!     line's prepared bytes are not what lopdf makes of the text; for revisions 5-6 the crate's route must also agree
//!     with the stringprep crate's SASLprep (verdict).
//!   * in an `enc` line given to this harness <ver> holds the UTF-8 texts.
//!   (prep 4|6 xTEXT ..) -> (prepared xBYTES|(err) ..)      the crate's preparation (generator aid)
//!
//! Algorithm 2.B aids (src/pwaid.rs; not trusted, they only choose inputs -- the extracted specification decides):
//!   (find2b xUSER xOWNER (want c c c c) xSEED) -> (found xRND8 xRND9 (cls ..) (cls ..) (cls ..) (cls ..)) | (notfound)
//!       salts for Algorithms 8 / 9 such that the user validation, user key, owner validation, owner key hashes of a
//!       revision 6 document with these (prepared) passwords end exactly on the boundary `last byte = round - 32` of the
//!       exit test (c = eq), one below it (below), after a round just above it (above), in the 64th round (r64, eq64), any
//!   (enc .. (opts (aim2b user|owner|any))): lopdf encrypts again (fresh random salts) until one of the hashes the user /
//!       owner password goes through ends exactly on the boundary (at most 600 times); verdict text `skip aimed=<classes>`
use lopdf::encryption::crypt_filters::*;
use lopdf::{Dictionary, Document, EncryptionState, EncryptionVersion, Object, Permissions};
use lvh::conv::*;
use lvh::sx::Sx;
use std::collections::BTreeMap;
use std::panic::{catch_unwind, AssertUnwindSafe};
use std::sync::Arc;

#[path = "../pwaid.rs"]
mod pwaid;

struct Ver {
    tag: String,
    em: bool,
    cfs: BTreeMap<Vec<u8>, Arc<dyn CryptFilter>>,
    fek: Vec<u8>,
    stmf: Vec<u8>,
    strf: Vec<u8>,
    owner: Vec<u8>,
    user: Vec<u8>,
    key_length: usize,
    perms: Permissions,
}

fn cfs_of_sx(x: &Sx) -> Option<BTreeMap<Vec<u8>, Arc<dyn CryptFilter>>> {
    let mut m: BTreeMap<Vec<u8>, Arc<dyn CryptFilter>> = BTreeMap::new();
    for e in x.args() {
        let l = e.as_list()?;
        let f: Arc<dyn CryptFilter> = match std::str::from_utf8(l.get(1)?.as_atom()?).ok()? {
            "id" => Arc::new(IdentityCryptFilter),
            "rc4" => Arc::new(Rc4CryptFilter),
            "aesv2" => Arc::new(Aes128CryptFilter),
            "aesv3" => Arc::new(Aes256CryptFilter),
            _ => return None,
        };
        m.insert(l.first()?.as_bytes()?, f);
    }
    Some(m)
}

fn ver_of_sx(x: &Sx) -> Option<Ver> {
    let tag = x.tag()?.to_string();
    let a = x.args();
    let perms = |s: &Sx| Some(Permissions::from_bits_truncate(s.as_u64()?));
    let mut v = Ver {
        tag: tag.clone(),
        em: true,
        cfs: BTreeMap::new(),
        fek: vec![],
        stmf: vec![],
        strf: vec![],
        owner: vec![],
        user: vec![],
        key_length: 40,
        perms: Permissions::all(),
    };
    match (tag.as_str(), a.len()) {
        ("v1", 3) => {
            v.owner = a[0].as_bytes()?;
            v.user = a[1].as_bytes()?;
            v.perms = perms(&a[2])?;
        }
        ("v2", 4) => {
            v.owner = a[0].as_bytes()?;
            v.user = a[1].as_bytes()?;
            v.key_length = a[2].as_u64()? as usize;
            v.perms = perms(&a[3])?;
        }
        ("v4", 7) => {
            v.em = a[0].as_bool()?;
            v.cfs = cfs_of_sx(&a[1])?;
            v.stmf = a[2].as_bytes()?;
            v.strf = a[3].as_bytes()?;
            v.owner = a[4].as_bytes()?;
            v.user = a[5].as_bytes()?;
            v.perms = perms(&a[6])?;
        }
        ("r5", 8) | ("v5", 8) => {
            v.em = a[0].as_bool()?;
            v.cfs = cfs_of_sx(&a[1])?;
            v.fek = a[2].as_bytes()?;
            v.stmf = a[3].as_bytes()?;
            v.strf = a[4].as_bytes()?;
            v.owner = a[5].as_bytes()?;
            v.user = a[6].as_bytes()?;
            v.perms = perms(&a[7])?;
        }
        _ => return None,
    }
    Some(v)
}

fn err_class(e: &lopdf::Error) -> String {
    let s = match e {
        lopdf::Error::Decryption(d) => format!("{:?}", d),
        other => format!("{:?}", other),
    };
    s.chars().take_while(|c| c.is_ascii_alphanumeric() || *c == '_').collect()
}

#[allow(deprecated)]
fn make_state(v: &Ver, doc: &Document) -> Result<EncryptionState, lopdf::Error> {
    // the UTF-8 texts; lopdf prepares them itself
    let owner = String::from_utf8_lossy(&v.owner).to_string();
    let user = String::from_utf8_lossy(&v.user).to_string();
    let version = match v.tag.as_str() {
        "v1" => EncryptionVersion::V1 { document: doc, owner_password: &owner, user_password: &user, permissions: v.perms },
        "v2" => EncryptionVersion::V2 {
            document: doc,
            owner_password: &owner,
            user_password: &user,
            key_length: v.key_length,
            permissions: v.perms,
        },
        "v4" => EncryptionVersion::V4 {
            document: doc,
            encrypt_metadata: v.em,
            crypt_filters: v.cfs.clone(),
            stream_filter: v.stmf.clone(),
            string_filter: v.strf.clone(),
            owner_password: &owner,
            user_password: &user,
            permissions: v.perms,
        },
        "r5" => EncryptionVersion::R5 {
            encrypt_metadata: v.em,
            crypt_filters: v.cfs.clone(),
            file_encryption_key: &v.fek,
            stream_filter: v.stmf.clone(),
            string_filter: v.strf.clone(),
            owner_password: &owner,
            user_password: &user,
            permissions: v.perms,
        },
        _ => EncryptionVersion::V5 {
            encrypt_metadata: v.em,
            crypt_filters: v.cfs.clone(),
            file_encryption_key: &v.fek,
            stream_filter: v.stmf.clone(),
            string_filter: v.strf.clone(),
            owner_password: &owner,
            user_password: &user,
            permissions: v.perms,
        },
    };
    EncryptionState::try_from(version)
}

fn decrypt_with(d: &mut Document, pw: &[u8]) -> Result<(), lopdf::Error> {
    match std::str::from_utf8(pw) {
        Ok(s) => d.decrypt(s),
        Err(_) => d.decrypt_raw(pw),
    }
}

/// ISO 32000-1 7.6.3.3, Algorithm 2 step (a): the padding string
const PADDING: [u8; 32] = [
    0x28, 0xBF, 0x4E, 0x5E, 0x4E, 0x75, 0x8A, 0x41, 0x64, 0x00, 0x4E, 0x56, 0xFF, 0xFA, 0x01, 0x08, 0x2E, 0x2E, 0x00, 0xB6, 0xD0, 0x68,
    0x3E, 0x80, 0x2F, 0x0C, 0xA9, 0xFE, 0x64, 0x53, 0x69, 0x7A,
];

/// "pad or truncate the password string to exactly 32 bytes"
fn pad32(pw: &[u8]) -> Vec<u8> {
    pw.iter().chain(PADDING.iter()).take(32).copied().collect()
}

fn hex(b: &[u8]) -> String {
    b.iter().map(|c| format!("{:02x}", c)).collect()
}

/// the encryption dictionary of a document: the trailer's Encrypt entry, a dictionary or a reference to one
fn encrypt_dict(d: &Document) -> Option<&Dictionary> {
    match d.trailer.get(b"Encrypt").ok()? {
        Object::Reference(id) => match d.objects.get(id)? {
            Object::Dictionary(e) => Some(e),
            _ => None,
        },
        Object::Dictionary(e) => Some(e),
        _ => None,
    }
}

/// the direct verdict on the file lopdf wrote (revisions 2-4), against the extracted specification's reference values
fn isoref_inner(v: &Ver, implenc: &Document, ir: &Sx) -> Option<Option<String>> {
    let field = |name: &str| ir.args().iter().find(|y| y.tag() == Some(name));
    let (o_ref, u_ref) = (field("o")?.args().first()?.as_bytes()?, field("u")?.args().first()?.as_bytes()?);
    let who = format!("(owner password x{}, user password x{}, {})", hex(&v.owner), hex(&v.user), match v.tag.as_str() {
        "v1" => "revision 2, 40 bit".to_string(),
        "v2" => format!("revision 3, {} bit", v.key_length),
        _ => "revision 4, 128 bit".to_string(),
    });
    let Some(e) = encrypt_dict(implenc) else { return Some(Some(format!("FAIL the document lopdf encrypted has no encryption dictionary {}", who))) };
    let entry = |k: &[u8]| match e.get(k) { Ok(Object::String(s, _)) => s.clone(), _ => vec![] };
    let (o, u) = (entry(b"O"), entry(b"U"));
    if o != o_ref {
        return Some(Some(format!("FAIL the O entry lopdf wrote is not the O value of the standard's Algorithm 3 {}: lopdf x{}, the standard x{}", who, hex(&o), hex(&o_ref))));
    }
    if u != u_ref {
        return Some(Some(format!("FAIL the U entry lopdf wrote is not the U value of the standard's Algorithm {} {}: lopdf x{}, the standard x{}",
                            if v.tag == "v1" { "4" } else { "5" }, who, hex(&u), hex(&u_ref))));
    }
    let pu = pad32(&v.user);
    let po = if v.owner.is_empty() { None } else { Some(pad32(&v.owner)) };
    for y in field("auth")?.args() {
        let l = y.as_list()?;
        let (pw, a6, a7) = (l.first()?.as_bytes()?, l.get(1)?.as_bool()?, l.get(2)?.as_bool()?);
        let p = pad32(&pw);
        let is_user = p == pu;
        // "If there is no owner password, use the user password instead" (Algorithm 3 a)
        let is_owner = match &po { Some(po) => p == *po, None => is_user };
        if a6 != is_user {
            return Some(Some(format!("FAIL the standard's Algorithm 6 {} x{} as user password of the file lopdf wrote {}",
                                if a6 { "accepts the wrong password" } else { "refuses the user password" }, hex(&pw), who)));
        }
        if a7 != is_owner {
            return Some(Some(format!("FAIL the standard's Algorithm 7 {} x{} as owner password of the file lopdf wrote {}",
                                if a7 { "accepts" } else { "refuses" }, hex(&pw), who)));
        }
    }
    Some(None)
}

fn isoref_verdict(v: &Ver, implenc: &Document, ir: &Sx) -> Option<String> {
    isoref_inner(v, implenc, ir).unwrap_or_else(|| Some("FAIL machinery: the (isoref ..) element of the case cannot be read".into()))
}

fn sorted_dict_sx(d: &Dictionary) -> Sx {
    let mut es: Vec<(&Vec<u8>, &Object)> = d.iter().collect();
    es.sort_by(|a, b| a.0.cmp(b.0));
    Sx::tagged("d", es.into_iter().map(|(k, v)| Sx::L(vec![Sx::bytes(k), obj_to_sx(v)])).collect())
}

fn objs_sx(d: &Document) -> Sx {
    Sx::tagged("objs", d.objects.iter().map(|(id, o)| Sx::L(vec![oid_to_sx(*id), obj_to_sx(o)])).collect())
}

fn main() {
    lvh::drive(|x| {
        let a = x.args();
        let bad = (Sx::id("badcase"), "skip".to_string());
        let Some(tag) = x.tag() else { return bad };
        if tag == "prep" && !a.is_empty() {
            let r6 = a[0].as_u64().map(|r| r >= 5).unwrap_or(false);
            let alg = catch_unwind(|| pwaid::prep_algorithm(r6)).ok().flatten();
            let out = a[1..].iter().map(|t| {
                let p = match (&alg, t.as_bytes()) {
                    (Some(alg), Some(raw)) => catch_unwind(AssertUnwindSafe(|| pwaid::prepare(alg, &raw))).ok().flatten(),
                    _ => None,
                };
                p.map(|b| Sx::bytes(&b)).unwrap_or_else(|| Sx::L(vec![Sx::id("err")]))
            }).collect();
            return (Sx::tagged("prepared", out), "skip".into());
        }
        if tag == "find2b" && a.len() == 4 {
            let (Some(user), Some(owner), Some(seed)) = (a[0].as_bytes(), a[1].as_bytes(), a[3].as_bytes()) else { return bad };
            let w: Vec<String> = a[2].args().iter().filter_map(|y| y.as_atom().map(|b| String::from_utf8_lossy(b).to_string())).collect();
            if w.len() != 4 {
                return bad;
            }
            return match pwaid::find_r6_salts(&user, &owner, [&w[0], &w[1], &w[2], &w[3]], &seed) {
                None => (Sx::L(vec![Sx::id("notfound")]), "skip".into()),
                Some((r0, r1, ts)) => {
                    let mut out = vec![Sx::bytes(&r0), Sx::bytes(&r1)];
                    out.extend(ts.iter().map(|t| Sx::tagged("cls", t.classes().into_iter().map(Sx::id).collect())));
                    (Sx::tagged("found", out), "skip".into())
                }
            };
        }
        if a.len() < 4 {
            return bad;
        }
        let (Some(doc0), Some(v)) = (doc_of_sx(&a[0]), ver_of_sx(&a[1])) else { return bad };
        let r6prep = v.tag == "r5" || v.tag == "v5";
        if tag == "enc" {
            // (opts .. (aim2b user|owner|any)): revision 6 only
            let aim: Option<String> = a.get(4).and_then(|o| o.args().iter().find(|y| y.tag() == Some("aim2b")))
                .and_then(|y| y.args().first().and_then(|z| z.as_atom().map(|b| String::from_utf8_lossy(b).to_string())));
            let mut aimed = String::from("none");
            let r = catch_unwind(AssertUnwindSafe(|| {
                let tries = if aim.is_some() && v.tag == "v5" { 600 } else { 1 };
                let prepared = match (&aim, pwaid::prep_algorithm(true)) {
                    (Some(_), Some(alg)) => pwaid::prepare(&alg, &v.user).zip(pwaid::prepare(&alg, &v.owner)),
                    _ => None,
                };
                let mut last = None;
                for _ in 0..tries {
                    let st = make_state(&v, &doc0)?;
                    let mut d = doc0.clone();
                    d.encrypt(&st)?;
                    let hit = match (&aim, &prepared) {
                        (Some(which), Some((pu, po))) => pwaid::r6_traces_of(&d, pu, po).map(|ts| {
                            let idx: &[usize] = match which.as_str() { "user" => &[0, 1], "owner" => &[2, 3], _ => &[0, 1, 2, 3] };
                            if idx.iter().any(|i| ts[*i].is("eq")) {
                                aimed = idx.iter().map(|i| format!("{}:{}", ["uv", "uk", "ov", "ok"][*i], ts[*i].classes().join("+"))).collect::<Vec<_>>().join(",");
                                true
                            } else {
                                false
                            }
                        }).unwrap_or(false),
                        _ => true,
                    };
                    last = Some(d);
                    if hit {
                        break;
                    }
                }
                Ok::<Document, lopdf::Error>(last.unwrap())
            }));
            let verdict = if aim.is_some() { format!("skip aimed={}", aimed) } else { "skip".to_string() };
            return match r {
                Err(_) => (Sx::L(vec![Sx::id("panic")]), "skip".into()),
                Ok(Ok(d)) => (Sx::tagged("encdoc", vec![doc_to_sx(&d)]), verdict),
                Ok(Err(e)) => (Sx::tagged("err", vec![Sx::id(&err_class(&e))]), "skip".into()),
            };
        }
        if tag != "case" || a.len() < 6 {
            return bad;
        }
        let Some(isoenc) = doc_of_sx(&a[2]) else { return bad };
        let flag = |name: &str| a[5].args().iter().any(|y| y.is_id(name));
        let want_objs = objs_sx(&doc0).print();
        let want_trailer = sorted_dict_sx(&doc0.trailer).print();
        let mut dec = vec![];
        let mut verdict = "ok".to_string();
        let raws: Option<Vec<Vec<u8>>> = a.get(6).filter(|y| y.tag() == Some("raw"))
            .map(|y| y.args().iter().filter_map(|t| t.as_bytes()).collect());
        if raws.as_ref().map(|r| r.len() != a[4].args().len()).unwrap_or(false) {
            return bad;
        }
        let alg = catch_unwind(|| pwaid::prep_algorithm(r6prep)).ok().flatten();
        for (i, p) in a[4].args().iter().enumerate() {
            let (Some(kind), Some(prepared)) = (p.tag(), p.args().first().and_then(|s| s.as_bytes())) else { return bad };
            // the text lopdf gets, and what the crate's own preparation makes of it: must be the line's prepared bytes
            let text = raws.as_ref().map(|r| r[i].clone()).unwrap_or_else(|| prepared.clone());
            let mine = alg.as_ref().and_then(|alg| catch_unwind(AssertUnwindSafe(|| pwaid::prepare(alg, &text))).ok().flatten());
            if mine.as_ref() != Some(&prepared) {
                dec.push(Sx::L(vec![Sx::id("badprep")]));
                continue;
            }
            if r6prep && verdict == "ok" && pwaid::saslprep_direct(&text).as_ref() != Some(&prepared) {
                verdict = format!("FAIL the prepared password x{} of the text x{} is not its SASLprep (RFC 4013) form",
                                  prepared.iter().map(|c| format!("{:02x}", c)).collect::<String>(),
                                  text.iter().map(|c| format!("{:02x}", c)).collect::<String>());
            }
            let pw = text;
            let mut d = isoenc.clone();
            let r = catch_unwind(AssertUnwindSafe(|| decrypt_with(&mut d, &pw)));
            let hexpw: String = pw.iter().map(|c| format!("{:02x}", c)).collect();
            match r {
                Err(_) => {
                    dec.push(Sx::L(vec![Sx::id("panic")]));
                    if verdict == "ok" {
                        verdict = format!("FAIL panic while opening the ISO-encrypted document with password x{}", hexpw);
                    }
                }
                Ok(Err(e)) => {
                    let c = err_class(&e);
                    dec.push(if c == "IncorrectPassword" { Sx::L(vec![Sx::id("rejected")]) } else { Sx::tagged("err", vec![Sx::id(&c)]) });
                    if kind == "right" && verdict == "ok" {
                        verdict = format!("FAIL the ISO-encrypted document does not open with the {} password x{}: {}",
                                          if prepared == v.user { "user" } else { "owner" }, hexpw, c);
                    }
                }
                Ok(Ok(())) => {
                    let key = d.encryption_state.as_ref().map(|s| s.file_encryption_key().to_vec()).unwrap_or_default();
                    let (o, t) = (objs_sx(&d), sorted_dict_sx(&d.trailer));
                    if verdict == "ok" {
                        if kind != "right" {
                            verdict = format!("FAIL wrong password x{} opens the ISO-encrypted document", hexpw);
                        } else if o.print() != want_objs {
                            let which = doc0.objects.iter()
                                .find(|(id, ob)| d.objects.get(id).map(|x| obj_to_sx(x).print()) != Some(obj_to_sx(ob).print()))
                                .map(|(id, _)| format!("{:?}", id)).unwrap_or_else(|| "an extra object".into());
                            verdict = format!("FAIL plaintext not recovered from the ISO-encrypted document (password x{}): object {} differs", hexpw, which);
                        } else if t.print() != want_trailer {
                            verdict = format!("FAIL trailer not restored after opening the ISO-encrypted document (password x{})", hexpw);
                        }
                    }
                    dec.push(Sx::tagged("ok", vec![o, t, Sx::bytes(&key)]));
                }
            }
        }
        let res = Sx::tagged(
            "res",
            vec![
                Sx::tagged("dec", dec),
                Sx::tagged("reenc", vec![if flag("noreenc") { Sx::id("skipped") } else { Sx::id("1") }]),
            ],
        );
        // the other direction, judged directly: the deterministic entries of the dictionary lopdf wrote are the standard's
        if let Some(ir) = a.iter().skip(6).find(|y| y.tag() == Some("isoref")) {
            if matches!(v.tag.as_str(), "v1" | "v2" | "v4") && ir.args().iter().any(|y| y.tag() == Some("o")) {
                let Some(implenc) = doc_of_sx(&a[3]) else { return bad };
                match isoref_verdict(&v, &implenc, ir) {
                    Some(f) if verdict == "ok" => verdict = f,
                    _ => {}
                }
            }
        }
        if flag("noverdict") {
            verdict = "skip".to_string();
        }
        (res, verdict)
    });
}
