(* driver.ml -- generic line driver for an extracted runner.
   Compiled together with the extracted file copied to runmod.ml; reads one case per line on
   stdin, prints run_line's answer per line on stdout.  Conversions go through the extracted
   N_of_byte / R.byte_of_N (no Obj.magic, no Extract Constant). *)
module R = Runmod

let rec pos_of_int n =
  if n = 1 then R.XH
  else if n land 1 = 0 then R.XO (pos_of_int (n lsr 1))
  else R.XI (pos_of_int (n lsr 1))
let n_of_int n = if n = 0 then R.N0 else R.Npos (pos_of_int n)
let rec int_of_pos = function
  | R.XH -> 1
  | R.XO p -> 2 * int_of_pos p
  | R.XI p -> 2 * int_of_pos p + 1
let int_of_n = function R.N0 -> 0 | R.Npos p -> int_of_pos p

let table = Array.init 256 (fun i -> R.byte_of_N (n_of_int i))

let bytes_of_string (s : string) =
  let r = ref [] in
  for i = String.length s - 1 downto 0 do
    r := table.(Char.code s.[i]) :: !r
  done;
  !r

let string_of_bytes l =
  let b = Buffer.create 256 in
  List.iter (fun x -> Buffer.add_char b (Char.chr (int_of_n (R.n_of_byte x)))) l;
  Buffer.contents b

let () =
  try
    while true do
      let line = input_line stdin in
      let out =
        try string_of_bytes (R.run_line (bytes_of_string line))
        with Stack_overflow -> "(model-stack-overflow)"
           | Out_of_memory -> "(model-out-of-memory)" in
      print_string out;
      print_newline ()
    done
  with End_of_file -> ()
