"""propcheck.py -- the standard shape of one property check:
   translator -> proof obligations -> runner + harness build -> corpus + generated cases through
   model and implementation -> diff + direct property verdicts -> known findings -> evidence."""
import json, os, time
import vlib


def load_corpus(prop):
    d = os.path.join(vlib.ROOT, 'corpus', prop)
    out = []
    if os.path.isdir(d):
        for fn in sorted(os.listdir(d)):
            if fn.endswith('.sx'):
                for line in open(os.path.join(d, fn)):
                    line = line.strip()
                    if line and not line.startswith('#'):
                        out.append((line, {'corpus': fn}))
    return out


def standard_check(ctx, spec):
    """spec: dict with
       gen_parts: translator parts (list) ; allowed_axioms ; runner (e.g. 'c12') ; bin (harness bin)
       gen_cases(rng, tier) -> list of (line, tags dict) ; tags['nontrivial'] bool ; tags['kind'] str
       classify(line, tags, model_out, impl_out, verdict) -> known finding id or None     (optional)
       extra_trusted: list ; partial_note: str|None ; features (None|'seq') ; hooks (bool)
       compare(model_out, impl_out) -> bool  (optional; default string equality)
    """
    prop = ctx.prop
    assumptions = list(vlib.BASE_TRUSTED) + list(spec.get('extra_trusted', []))
    cov = {'trusted_base': assumptions, 'samples': []}
    # 1. translator
    ok, tlog = vlib.translate(spec.get('gen_parts'))
    translator_ok = ok
    if not ok:
        ctx.notes.append('translator failed: ' + tlog[-300:])
    # 2. obligations
    ob = vlib.check_obligations(prop, spec.get('allowed_axioms', ())) if translator_ok else \
        {'ok': False, 'theorems': [], 'discharged': [], 'failed': 'translator could not read the source: ' + tlog[-300:], 'axioms': {}}
    cov['obligations'] = max(1, len(ob['theorems']))
    cov['discharged'] = len(ob['discharged'])
    cov['theorems'] = ob['theorems']
    cov['axioms'] = ob.get('axioms', {})
    cov['checker_cmd'] = 'make -C coq Props/%s.vo  (coqc 8.16.1; Print Assumptions allow-list; forbidden-vernacular grep)' % prop
    # 3. build runner and harness
    runner, rlog = vlib.build_runner(spec['runner'])
    impl, ilog = vlib.build_harness(spec['bin'], spec.get('features'), spec.get('hooks', False))
    if impl is None:
        # the repository does not build: cannot decide anything; this is a broken tree, not a verdict
        print(ilog[-3000:])
        print('ERROR: harness build failed')
        ctx.violation('build', {'kind': 'harness-build-failed', 'log': ilog[-3000:]}, found_input=False)
        return ctx.finish(cov_fill(cov, 0, 0, 0, 'harness build failed'), assumptions)
    # 4. cases
    cases = load_corpus(prop) + spec['gen_cases'](ctx.rng, ctx.tier)
    lines = [c[0] for c in cases]
    impl_raw = vlib.run_lines(impl, lines, timeout=spec.get('impl_timeout', 300), shards=spec.get('impl_shards', 8))
    impl_out, verdicts = zip(*[vlib.split_impl(l) for l in impl_raw]) if impl_raw else ((), ())
    model_out = None
    if runner is not None:
        model_out = vlib.run_lines(runner, lines, timeout=spec.get('model_timeout', 900), shards=spec.get('model_shards', 16))
    compare = spec.get('compare', lambda a, b: a == b)
    classify = spec.get('classify', lambda *a: None)
    kf = {e['id']: e for e in vlib.known_findings(prop)}
    disagreements = []
    failures = []
    known_hits = {}
    kinds = {}
    distinct = set()
    for i, (line, tags) in enumerate(cases):
        kinds[tags.get('kind', '?')] = kinds.get(tags.get('kind', '?'), 0) + 1
        if tags.get('nontrivial', True):
            distinct.add(line)
        v = verdicts[i]
        mo = model_out[i] if model_out is not None else None
        cls = None
        bad_v = v.startswith('FAIL')
        bad_d = mo is not None and not compare(mo, impl_out[i])
        if bad_v or bad_d:
            cls = classify(line, tags, mo, impl_out[i], v)
            if cls is not None and cls in kf:
                known_hits.setdefault(cls, []).append(i)
                continue
        if bad_v:
            failures.append(i)
        elif bad_d:
            disagreements.append(i)
    # 5. known findings: re-confirm each listed witness on the implementation
    for fid, e in sorted(kf.items()):
        w = e.get('witness_case')
        confirmed = None
        if w:
            r = vlib.run_lines(impl, [w], timeout=120)
            _, v = vlib.split_impl(r[0])
            confirmed = v.startswith('FAIL')
        if confirmed is False:
            ctx.notes.append('known finding %s: witness no longer fails on the implementation' % fid)
        else:
            ctx.known.append('%s: %s' % (fid, e.get('what', '')))
    # 6. decide
    shrink = spec.get('shrink')
    if failures:
        i = failures[0]
        line = lines[i]
        if shrink:
            line = shrink(line, lambda l: vlib.split_impl(vlib.run_lines(impl, [l], timeout=120)[0])[1].startswith('FAIL'))
        ctx.violation('fail_%d' % ctx.seed, {
            'kind': 'property-fails-on-implementation', 'property': prop, 'case': line, 'tags': cases[i][1],
            'verdict': verdicts[i], 'impl_out': impl_out[i], 'model_out': model_out[i] if model_out else None,
            'n_failing_cases': len(failures), 'obligations_ok': ob['ok'], 'obligation_failure': ob.get('failed'),
            'replay': './check %s --replay <this file>' % prop})
    elif not ob['ok']:
        ctx.violation('obligation_%d' % ctx.seed, {
            'kind': 'proof-obligation-broken', 'property': prop, 'theorem_or_file': ob.get('failed'),
            'searched': {'cases': len(cases), 'failing_inputs_found': 0},
            'note': 'the property is no longer shown to hold; no failing input was found by the search'},
            found_input=False)
    elif runner is None:
        ctx.violation('runner_%d' % ctx.seed, {
            'kind': 'model-runner-broken', 'property': prop, 'log': rlog[-2000:]}, found_input=False)
    elif disagreements:
        i = disagreements[0]
        ctx.violation('corr_%d' % ctx.seed, {
            'kind': 'correspondence-broken', 'property': prop, 'correspondence': 'model %s vs harness bin %s' % (spec['runner'], spec['bin']),
            'case': lines[i], 'tags': cases[i][1], 'impl_out': impl_out[i], 'model_out': model_out[i],
            'n_disagreements': len(disagreements), 'direct_property_verdict_on_impl': verdicts[i],
            'note': 'model and implementation differ on this case but the direct evaluation of the property on the '
                    'implementation found no failing input in %d cases' % len(cases)},
            found_input=False)
    # 7. evidence
    n = len(cases)
    skipped = sum(1 for mo in (model_out or []) if '(model-skipped' in mo or '(model-stack-overflow' in mo or '(model-timeout' in mo)
    cov_fill(cov, n, len(distinct), (n - skipped) if model_out is not None else 0, spec.get('rule', ''))
    cov['model_skipped'] = skipped
    cov['kinds'] = kinds
    cov['known_finding_hits'] = {k: len(v) for k, v in known_hits.items()}
    cov['disagreements'] = len(disagreements)
    cov['direct_failures'] = len(failures)
    cov['notes'] = ctx.notes
    if spec.get('partial_note'):
        cov['partial'] = spec['partial_note']
    step = max(1, n // 3)
    for i in range(0, n, step):
        cov['samples'].append({'case': lines[i][:600], 'model': (model_out[i][:300] if model_out else None),
                               'impl': impl_out[i][:300], 'verdict': verdicts[i][:200]})
    cov['samples'] = cov['samples'][:4]
    cov['samples'].append({'obligations': ob['theorems']})
    return ctx.finish(cov, assumptions)


def cov_fill(cov, evaluations, distinct, validated, rule):
    cov['evaluations'] = evaluations
    cov['distinct_nontrivial'] = distinct
    cov['traces_validated_against_impl'] = validated
    cov['rule'] = rule
    if not cov.get('samples'):
        cov['samples'] = [{'note': 'no case was run'}]
    cov.setdefault('obligations', 1)
    cov.setdefault('discharged', 0)
    cov.setdefault('checker_cmd', 'make -C coq')
    return cov
