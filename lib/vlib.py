"""vlib.py -- shared machinery of ./check: translator, Coq obligations, extraction runners,
Rust harness, case execution, diffing, known findings, replays, evidence."""
import fcntl, hashlib, json, os, random, re, shutil, subprocess, sys, time

ROOT = os.path.dirname(os.path.dirname(os.path.abspath(__file__)))
COQ = os.path.join(ROOT, 'coq')
BUILD = os.path.join(ROOT, '.build')
REPO = os.environ.get('VERIF_REPO', '/repo')
CARGO_TARGET = os.path.join(BUILD, 'cargo')
GUARD_RUSTFLAGS = '--cfg lopdf_verif'

FORBIDDEN = re.compile(
    r'\b(Admitted|admit|Axiom|Axioms|Parameter|Parameters|Conjecture|Conjectures|Hypothesis|Hypotheses|Variable|Variables|'
    r'Admit Obligations|Unset Guard Checking|bypass_check|Unset Positivity Checking|Unset Universe Checking|'
    r'type-in-type|impredicative-set)\b')

BASE_TRUSTED = [
    'Coq 8.16.1 kernel + vm_compute (no native_compute)',
    'translator/extract.py (anchored regexps over /repo sources, fails loudly on shape change)',
    'extraction with ExtrOcamlBasic only (bool, option, unit, list, prod, sumbool, sumor, andb, orb); OCaml 4.13.1; ocaml/driver.ml',
    'harness/ (Rust, path dependency on /repo working tree), gen/ Python generators, canonicalisation and diff in lib/vlib.py',
    'hand-written Gallina models correspond to the Rust code only as far as the differential check exercises them',
]


class Lock:
    def __init__(self, name):
        os.makedirs(BUILD, exist_ok=True)
        self.path = os.path.join(BUILD, name + '.lock')

    def __enter__(self):
        self.f = open(self.path, 'w')
        fcntl.flock(self.f, fcntl.LOCK_EX)
        return self

    def __exit__(self, *a):
        fcntl.flock(self.f, fcntl.LOCK_UN)
        self.f.close()


def sh(cmd, timeout, cwd=None, env=None, input=None):
    """run, return (rc, stdout+stderr text).  rc 124 on timeout."""
    e = dict(os.environ)
    e.setdefault('CARGO_NET_OFFLINE', 'true')
    if env:
        e.update(env)
    try:
        p = subprocess.run(cmd, cwd=cwd, env=e, input=input, stdout=subprocess.PIPE, stderr=subprocess.STDOUT,
                           timeout=timeout, shell=isinstance(cmd, str))
        out = p.stdout if isinstance(p.stdout, str) else p.stdout.decode('utf-8', 'replace')
        return p.returncode, out
    except subprocess.TimeoutExpired as ex:
        out = ex.stdout or b''
        if not isinstance(out, str):
            out = out.decode('utf-8', 'replace')
        return 124, out + '\n[timeout after %ss]' % timeout


# ------------------------------------------------------------------------------------------
# translator
# ------------------------------------------------------------------------------------------
def translate(only=None):
    cmd = [sys.executable, os.path.join(ROOT, 'translator', 'extract.py'), '--repo', REPO]
    if only:
        cmd += ['--only', ','.join(only)]
    with Lock('coq'):
        rc, out = sh(cmd, 120)
    return rc == 0, out


# ------------------------------------------------------------------------------------------
# Coq obligations
# ------------------------------------------------------------------------------------------
def coq_sources_closure(vfile):
    """all LV sources a .v file depends on (transitively), via coqdep"""
    seen = set()
    todo = [vfile]
    while todo:
        f = todo.pop()
        if f in seen:
            continue
        seen.add(f)
        try:
            txt = open(os.path.join(COQ, f)).read()
        except OSError:
            continue
        for m in re.finditer(r'From LV Require (?:Import |Export )?([^.]*(?:\.[A-Za-z_][A-Za-z0-9_\']*)*)\s*\.\s', txt + ' ', re.S):
            for mod in m.group(1).split():
                todo.append(mod.replace('.', '/') + '.v')
    return sorted(seen)


def grep_forbidden(files):
    bad = []
    for f in files:
        try:
            txt = open(os.path.join(COQ, f)).read()
        except OSError:
            continue
        # strip comments (non-nested approximation is enough: we only want to avoid false hits in prose)
        depth = 0
        out = []
        i = 0
        while i < len(txt):
            if txt.startswith('(*', i):
                depth += 1; i += 2; continue
            if txt.startswith('*)', i) and depth > 0:
                depth -= 1; i += 2; continue
            if depth == 0:
                out.append(txt[i])
            i += 1
        code = ''.join(out)
        # Variables / Hypotheses are allowed inside Sections only
        sect = 0
        for ln, line in enumerate(code.split('\n'), 1):
            if re.match(r'\s*Section\b', line):
                sect += 1
            if re.match(r'\s*End\b', line) and sect > 0:
                sect -= 1
            for m in FORBIDDEN.finditer(line):
                w = m.group(1)
                if w in ('Variable', 'Variables', 'Hypothesis', 'Hypotheses') and sect > 0:
                    continue
                if w in ('Variable', 'Variables', 'Hypothesis', 'Hypotheses', 'Parameter', 'Parameters') and \
                   not re.match(r'\s*(Local |Global |#\[[^\]]*\] *)?' + w + r'\b', line):
                    continue  # the word inside an identifier/statement, not a vernacular command
                bad.append('%s:%d: %s' % (f, ln, line.strip()[:100]))
    return bad


def coq_make(targets, timeout=2400, jobs=16):
    with Lock('coq'):
        rc, out = sh([os.path.join(ROOT, 'tools', 'mkcoq.sh')], 120)
        if rc != 0:
            return False, out
        rc, out2 = sh('ulimit -v 12000000; exec make -j%d -k COQC="timeout 1500 coqc" %s' % (jobs, ' '.join(targets)), timeout, cwd=COQ)
    return rc == 0, out + out2


def check_obligations(prop, allowed_axioms=()):
    """Compile Props/<prop>.v from the current Gen files; returns dict with
    ok, theorems (list), discharged (list), failed (str|None), axioms {thm: [..]}, log"""
    vfile = 'Props/%s.v' % prop
    vo = os.path.join(COQ, 'Props', prop + '.vo')
    res = {'ok': False, 'theorems': [], 'discharged': [], 'failed': None, 'axioms': {}, 'log': '', 'forbidden': []}
    src = open(os.path.join(COQ, vfile)).read()
    res['theorems'] = re.findall(r'^\s*Theorem\s+([A-Za-z0-9_\']+)', src, re.M)
    files = coq_sources_closure(vfile)
    res['sources'] = files
    res['forbidden'] = grep_forbidden(files)
    # force recompilation of the Props file so that Print Assumptions output is fresh
    with Lock('coq'):
        for ext in ('.vo', '.vok', '.vos', '.glob'):
            try:
                os.remove(os.path.join(COQ, 'Props', prop + ext))
            except OSError:
                pass
    ok, log = coq_make([vfile + 'o'])
    res['log'] = log
    if not ok or not os.path.exists(vo):
        m = re.search(r'File "\./([^"]+)", line (\d+).*?\n(Error:.*?)(?:\n\n|\nmake|\Z)', log, re.S)
        res['failed'] = ('%s:%s %s' % (m.group(1), m.group(2), ' '.join(m.group(3).split())[:300])) if m else log[-400:]
        return res
    # parse Print Assumptions blocks, in order of the Print Assumptions commands
    printed = re.findall(r'^\s*Print Assumptions\s+([A-Za-z0-9_\']+)\s*\.', src, re.M)
    blocks = re.findall(r'(Closed under the global context|Axioms:\n(?:.+\n?)*?(?=\n(?:Closed under|Axioms:|COQC|make|\Z)|\Z))', log)
    # simpler robust parse: walk the log lines
    blocks = []
    cur = None
    for line in log.split('\n'):
        if line.startswith('Closed under the global context'):
            if cur is not None:
                blocks.append(cur)
                cur = None
            blocks.append([])
        elif line.startswith('Axioms:'):
            if cur is not None:
                blocks.append(cur)
            cur = []
        elif cur is not None:
            if line.startswith(' ') or line.startswith('\t'):
                # continuation (type of the axiom)
                continue
            m = re.match(r'^([A-Za-z0-9_\'.]+)\s*:', line)
            if m:
                cur.append(m.group(1))
            elif line.strip() == '' or line.startswith('COQ') or line.startswith('make'):
                blocks.append(cur)
                cur = None
    if cur is not None:
        blocks.append(cur)
    if len(blocks) != len(printed):
        res['failed'] = 'Print Assumptions output could not be matched (%d blocks for %d commands)' % (len(blocks), len(printed))
        return res
    bad = []
    for name, axs in zip(printed, blocks):
        res['axioms'][name] = axs
        for a in axs:
            if a not in allowed_axioms:
                bad.append('%s depends on non-allow-listed axiom %s' % (name, a))
    missing = [t for t in res['theorems'] if t not in printed]
    if missing:
        bad.append('theorems without Print Assumptions: ' + ', '.join(missing))
    if res['forbidden']:
        bad.append('forbidden vernacular: ' + '; '.join(res['forbidden'][:5]))
    if bad:
        res['failed'] = '; '.join(bad)
        return res
    res['discharged'] = list(res['theorems'])
    res['ok'] = True
    return res


def coqchk(prop, timeout=3000):
    """independent re-check of Props/<prop>.vo and everything it depends on; returns (ok, report dict)"""
    with Lock('coq'):
        rc, out = sh('ulimit -v 16000000; exec coqchk -o -silent -Q . LV LV.Props.%s' % prop, timeout, cwd=COQ)
    rep = {'cmd': 'coqchk -o -silent -Q coq LV LV.Props.%s' % prop, 'rc': rc}
    sections = {}
    cur = None
    for line in out.split('\n'):
        m = re.match(r'^\* (.*?):\s*(<none>)?\s*$', line)
        if m:
            cur = m.group(1)
            sections[cur] = []
            continue
        if cur is not None and line.strip():
            sections[cur].append(line.strip())
    rep['axioms'] = sections.get('Axioms', None)
    rep['type_in_type'] = sections.get('Constants/Inductives relying on type-in-type', None)
    rep['unsafe_fixpoints'] = sections.get('Constants/Inductives relying on unsafe (co)fixpoints', None)
    rep['assumed_positivity'] = sections.get('Inductives whose positivity is assumed', None)
    ok = (rc == 0 and rep['axioms'] == [] and rep['type_in_type'] == [] and rep['unsafe_fixpoints'] == []
          and rep['assumed_positivity'] == [])
    if not ok:
        rep['log_tail'] = out[-1500:]
    return ok, rep


# ------------------------------------------------------------------------------------------
# extraction runner
# ------------------------------------------------------------------------------------------
def build_runner(name):
    """name e.g. 'c12': coq/Run/RunC12.v + coq/Run/ExtractC12.v -> .build/ocaml/c12/run"""
    up = name.upper() if name[0] == 'c' and name[1:].isdigit() else name
    run_v = 'Run/Run%s.v' % up
    ok, log = coq_make([run_v + 'o'])
    if not ok:
        return None, log
    d = os.path.join(BUILD, 'ocaml', name)
    os.makedirs(d, exist_ok=True)
    exe = os.path.join(d, 'run')
    vo = os.path.join(COQ, 'Run', 'Run%s.vo' % up)
    stamp = os.path.join(d, 'stamp')
    h = hashlib.sha256(open(vo, 'rb').read() + open(os.path.join(ROOT, 'ocaml', 'driver.ml'), 'rb').read()).hexdigest()
    with Lock('ocaml_' + name):
        if os.path.exists(exe) and os.path.exists(stamp) and open(stamp).read() == h:
            return exe, log
        rc, out = sh(['coqc', '-Q', COQ, 'LV', os.path.join(COQ, 'Run', 'Extract%s.v' % up), '-o',
                      os.path.join(d, 'Extract%s.vo' % up)], 600, cwd=d)
        log += out
        ml = os.path.join(d, 'runmod_%s.ml' % name)
        if rc != 0 or not os.path.exists(ml):
            return None, log
        shutil.copy(ml, os.path.join(d, 'runmod.ml'))
        shutil.copy(ml + 'i', os.path.join(d, 'runmod.mli'))
        shutil.copy(os.path.join(ROOT, 'ocaml', 'driver.ml'), os.path.join(d, 'driver.ml'))
        rc, out = sh(['ocamlfind', 'ocamlopt', '-w', '-a', '-inline', '50',
                      'runmod.mli', 'runmod.ml', 'driver.ml', '-o', 'run'], 600, cwd=d)
        log += out
        if rc != 0:
            return None, log
        open(stamp, 'w').write(h)
    return exe, log


# ------------------------------------------------------------------------------------------
# Rust harness
# ------------------------------------------------------------------------------------------
def build_harness(bin_name, features=None, hooks=False, timeout=1500):
    """cargo build of harness bin against /repo's working tree.  features: None = default (full);
    'seq' = --no-default-features (sequential reader).  Returns (exe|None, log)."""
    hd = os.path.join(ROOT, 'harness')
    target = CARGO_TARGET + ('-hooks' if hooks else '')
    if REPO != '/repo':
        # scratch copy of the repository (mutation testing): same harness sources, other path dependency
        tag = hashlib.sha256(REPO.encode()).hexdigest()[:10]
        alt = os.path.join(BUILD, 'harness-' + tag)
        with Lock('cargo-alt-' + tag):
            if os.path.isdir(alt):
                shutil.rmtree(alt)
            shutil.copytree(hd, alt, ignore=shutil.ignore_patterns('target', 'Cargo.lock'))
            ct = open(os.path.join(alt, 'Cargo.toml')).read().replace('path = "/repo"', 'path = "%s"' % REPO)
            open(os.path.join(alt, 'Cargo.toml'), 'w').write(ct)
        hd = alt
        target = os.path.join(BUILD, 'cargo-' + tag) + ('-hooks' if hooks else '')
    lock = os.path.join(hd, 'Cargo.lock')
    env = {'CARGO_TARGET_DIR': target, 'CARGO_NET_OFFLINE': 'true'}
    if hooks:
        env['RUSTFLAGS'] = GUARD_RUSTFLAGS
    with Lock('cargo' + ('-hooks' if hooks else '')):
        if not os.path.exists(lock):
            # Cargo.lock is untracked in /repo, so a scratch git worktree (VERIF_REPO) does not have it
            src = os.path.join(REPO, 'Cargo.lock')
            shutil.copy(src if os.path.exists(src) else '/repo/Cargo.lock', lock)
        cmd = ['cargo', 'build', '--offline', '--release', '--bin', bin_name]
        if features == 'seq':
            cmd += ['--no-default-features']
            env['CARGO_TARGET_DIR'] = target + '-seq'
        rc, out = sh(cmd, timeout, cwd=hd, env=env)
        if rc != 0 and 'Cargo.lock' in out:
            src = os.path.join(REPO, 'Cargo.lock')
            shutil.copy(src if os.path.exists(src) else '/repo/Cargo.lock', lock)
            rc, out = sh(cmd, timeout, cwd=hd, env=env)
    if rc != 0:
        return None, out
    return os.path.join(env['CARGO_TARGET_DIR'], 'release', bin_name), out


# ------------------------------------------------------------------------------------------
# running cases
# ------------------------------------------------------------------------------------------
def _big_stack():
    """the extracted runners (OCaml native code) recurse on their data (List.app, printers): give them a 2 GiB soft stack
    where the hard limit allows it, so that a large case never shows up as a spurious (model-stack-overflow)"""
    try:
        import resource
        soft, hard = resource.getrlimit(resource.RLIMIT_STACK)
        want = 2 << 30
        if hard != resource.RLIM_INFINITY:
            want = min(want, hard)
        if soft == resource.RLIM_INFINITY or soft >= want:
            return
        resource.setrlimit(resource.RLIMIT_STACK, (want, hard))
    except Exception:
        pass


def run_lines(exe, lines, timeout=600, shards=1, args=(), _depth=0):
    """feed lines to exe (one per line), return list of output lines (same length) or raise"""
    if not lines:
        return []
    if shards <= 1 or len(lines) < 4 * shards:
        data = ('\n'.join(lines) + '\n').encode()
        is_model = os.sep + 'ocaml' + os.sep in exe
        try:
            p = subprocess.run([exe] + list(args), input=data, stdout=subprocess.PIPE, stderr=subprocess.PIPE, timeout=timeout,
                               preexec_fn=(_big_stack if is_model else None))
        except subprocess.TimeoutExpired as ex:
            # a case that never returns must become a verdict, not a crash of the check: the lines received so far
            # tell which case hangs (harness and runners flush one line per case); it is reported as a failing input
            # (implementation) or as a model time-out (runner), the rest of the chunk is run in a fresh process
            got = (ex.stdout or b'').decode('utf-8', 'replace').split('\n')
            if got and got[-1] == '':
                got.pop()
            got = got[:len(lines)]
            k = len(got)
            if k >= len(lines):
                return got
            hang = '(model-timeout)' if is_model else \
                   '(hang) ||| FAIL the implementation did not return within %d s on this case (process killed)' % timeout
            rest = lines[k + 1:]
            if _depth >= 3 or not rest:
                tail = ['(not-run)' if is_model else '(not-run) ||| skip'] * len(rest)
            else:
                tail = run_lines(exe, rest, max(60, min(timeout, 300)), 1, args, _depth + 1)
            return got + [hang] + tail
        out = p.stdout.decode('utf-8', 'replace').split('\n')
        if out and out[-1] == '':
            out.pop()
        if len(out) != len(lines):
            # process died mid-way: pad, marking where
            out += ['(crash rc=%d %s)' % (p.returncode, p.stderr.decode('utf-8', 'replace')[-200:].replace('\n', ' '))] \
                   + ['(not-run)'] * (len(lines) - len(out) - 1)
        return out
    # sharded
    import concurrent.futures
    chunks = [lines[i::shards] for i in range(shards)]
    with concurrent.futures.ThreadPoolExecutor(shards) as ex:
        outs = list(ex.map(lambda c: run_lines(exe, c, timeout, 1, args), chunks))
    res = [None] * len(lines)
    for s, o in enumerate(outs):
        for j, v in enumerate(o):
            res[s + j * shards] = v
    return res


# ---- canonicalisation of reals: (r xTEXT) -> (r #f32bits), exact decimal -> nearest f32 (ties to even) ----
def f32_bits_of_decimal(text):
    from fractions import Fraction
    t = text.strip()
    low = t.lower()
    if low in ('nan', '-nan', '+nan'):
        return 0x7fc00000
    neg = t.startswith('-')
    if t[:1] in '+-':
        t = t[1:]
    if t.lower() in ('inf', 'infinity'):
        return 0xff800000 if neg else 0x7f800000
    if not re.fullmatch(r'[0-9]*\.?[0-9]*', t) or not re.search(r'[0-9]', t):
        return None
    ip, _, fp = t.partition('.')
    x = Fraction(int(ip or '0')) + (Fraction(int(fp), 10 ** len(fp)) if fp else 0)
    sign = 0x80000000 if neg else 0
    if x == 0:
        return sign
    # find e with 2^e <= x < 2^(e+1)
    e = x.numerator.bit_length() - x.denominator.bit_length()
    if Fraction(2) ** e > x:
        e -= 1
    elif Fraction(2) ** (e + 1) <= x:
        e += 1
    e = max(e, -126)                    # subnormals share the exponent -126
    q = x / (Fraction(2) ** (e - 23))   # mantissa units
    m = q.numerator // q.denominator
    rem = q - m
    if rem > Fraction(1, 2) or (rem == Fraction(1, 2) and m % 2 == 1):
        m += 1
    if m >= 1 << 24:
        m >>= 1
        e += 1
    if e > 127:
        return sign | 0x7f800000
    if m < (1 << 23):                   # subnormal
        return sign | m
    return sign | ((e + 127) << 23) | (m - (1 << 23))


def canon_reals(s):
    def rep(m):
        try:
            txt = bytes.fromhex(m.group(1)).decode('latin-1')
        except ValueError:
            return m.group(0)
        b = f32_bits_of_decimal(txt)
        return '(r #%08x)' % b if b is not None else m.group(0)
    return re.sub(r'\(r x([0-9a-f]*)\)', rep, s)


def compare_canon_reals(a, b):
    return a == b or canon_reals(a) == canon_reals(b)


def split_impl(line):
    """harness line '<sx> ||| <verdict>'"""
    if ' ||| ' in line:
        a, b = line.split(' ||| ', 1)
        return a, b
    return line, 'skip'


# ------------------------------------------------------------------------------------------
# known findings, replays, evidence
# ------------------------------------------------------------------------------------------
def known_findings(prop):
    try:
        kf = json.load(open(os.path.join(ROOT, 'known_findings.json')))
    except OSError:
        return []
    return [e for e in kf.get('findings', []) if e.get('property') == prop and e.get('status') == 'open']


def write_replay(prop, name, payload):
    d = os.path.join(ROOT, 'replays', prop)
    os.makedirs(d, exist_ok=True)
    p = os.path.join(d, name + '.json')
    with open(p, 'w') as f:
        json.dump(payload, f, indent=1)
    return p


def write_evidence(prop, tier, seed, coverage, wall_s, violations, assumptions):
    os.makedirs(os.path.join(ROOT, 'evidence'), exist_ok=True)
    ev = {
        'property_id': prop, 'tier': tier, 'seed': seed, 'level': 'proof',
        'coverage': coverage, 'assumptions': assumptions, 'wall_s': round(wall_s, 2), 'violations': violations,
    }
    with open(os.path.join(ROOT, 'evidence', prop + '.json'), 'w') as f:
        json.dump(ev, f, indent=1)
    return ev


class Ctx:
    """one check run"""
    def __init__(self, prop, tier, seed):
        self.prop = prop
        self.tier = tier
        self.seed = seed
        self.rng = random.Random(seed * 1000003 + int(prop[1:]))
        self.t0 = time.time()
        self.violations = []      # (replay_path, no_input_found: bool, text)
        self.known = []           # text lines
        self.notes = []
        self.cov = {}

    def violation(self, name, payload, found_input=True):
        p = write_replay(self.prop, name, payload)
        self.violations.append((p, not found_input))
        return p

    def finish(self, coverage, assumptions):
        if self.tier == 'thorough' and os.environ.get('VERIF_NO_COQCHK') != '1' and \
           os.path.exists(os.path.join(COQ, 'Props', self.prop + '.vo')) and not any('obligation' in p for p, _ in self.violations):
            ok, rep = coqchk(self.prop)
            coverage['coqchk'] = rep
            if not ok:
                self.violation('coqchk_%d' % self.seed, {
                    'kind': 'coqchk-rejected', 'property': self.prop, 'theorem_or_file': 'Props/%s.vo closure' % self.prop,
                    'report': rep, 'note': 'the independent checker did not accept the compiled proofs axiom-free; '
                                           'the property is no longer shown to hold; no failing input was found'},
                    found_input=False)
        for k in self.known:
            print('KNOWN-FINDING: property=%s %s' % (self.prop, k))
        for (p, nf) in self.violations:
            print('VIOLATION property=%s replay=%s%s' % (self.prop, p, ' no-failing-input-found' if nf else ''))
        write_evidence(self.prop, self.tier, self.seed, coverage, time.time() - self.t0, len(self.violations), assumptions)
        return 1 if self.violations else 0
