"""C10 -- renumbering objects preserves the document graph."""
import os, re
import propcheck
from sxg import *

U32 = 2 ** 32
VER = os.environ.get('C10_VER', 'v1')   # v0 / vd = models of the pinned code / of the code before the repair of dangling-in-range, for archaeology only


# ------------------------------------------------------------------------------------------
# generator
# ------------------------------------------------------------------------------------------
def pick_ids(rng, n, style):
    """n distinct (num, gen) ids"""
    if style == 'dense1':        # 1..n: old and new numbers collide everywhere
        nums = list(range(1, n + 1))
    elif style == 'dense0':
        nums = list(range(0, n))
    elif style == 'denseb':      # b..b+n-1: with start = b the dense pass has nothing to move
        b = rng.choice([1, 1, 1, 0, 2, 5, rng.randint(1, 40), 1000, 2 ** 31, U32 - n])
        nums = list(range(b, b + n))
    elif style == 'sparse':
        nums = rng.sample(range(1, 4 * n + 10), n)
    elif style == 'high':
        base = rng.choice([1000, 65535, 2 ** 31, U32 - 4 * n - 10])
        nums = [base + k for k in rng.sample(range(0, 4 * n + 5), n)]
    else:                        # 'samenum': several ids share a number and differ in generation
        nums = [rng.randint(1, max(2, n // 2)) for _ in range(n)]
    gstyle = rng.choice(['zero', 'zero', 'zero', 'few', 'mixed'])
    ids = []
    seen = set()
    for k in nums:
        g = 0 if gstyle == 'zero' else rng.choice([0, 0, 0, 1, 2]) if gstyle == 'few' else rng.choice([0, 1, 2, 7, 65535])
        while (k, g) in seen:
            g = (g + 1) % 65536
        seen.add((k, g))
        ids.append((k, g))
    return ids


def numarr(rng, items, depth=0):
    """a mixed array whose FIRST element is a number (integer or real) and that holds the given values further on:
    bare, in a nested number-first array, in a dictionary inside the array, in an ordinary array inside it.
    This is the shape of a number tree (/Nums [0 r 1 r] of PageLabels, ParentTree)."""
    out = [rng.choice([I(0), I(0), I(rng.randint(-3, 99)), R('0.5'), R('2.5')])]
    for k, it in enumerate(items):
        form = rng.random()
        if form < 0.4:
            out.append(it)
        elif form < 0.6 and depth < 2:
            out.append(numarr(rng, [it], depth + 1))
        elif form < 0.8:
            out.append(D([('K', it)]) if rng.random() < 0.6 else D([('Obj', numarr(rng, [it], 2))]))
        else:
            out.append(A([it]))
        if rng.random() < 0.6:
            out.append(I(k + 1))
    return A(out)


def gen_doc(rng, size, style=None):
    """returns (objects list [((n,g), sx)], trailer entries, page ids in page order, all ids, dangling ids used)"""
    n_pages = rng.choice([0, 1, 2, 3, 3, 4, 5, 6, 8]) if size != 'tiny' else rng.choice([0, 1, 2])
    n_mid = rng.randint(0, 2) if n_pages >= 2 else 0
    n_res = rng.randint(0, 4)            # shared resources / content streams
    n_unreach = rng.randint(0, 3)
    n_ind = rng.randint(0, 2)            # objects that are just a reference to something
    n_num = rng.choice([0, 0, 1, 2, 3])  # objects reachable ONLY through arrays that begin with a number
    total = 2 + n_mid + n_pages + n_res + n_unreach + n_ind + n_num + 1
    ids = pick_ids(rng, total, style or rng.choice(['dense1', 'dense1', 'sparse', 'sparse', 'sparse', 'high', 'samenum', 'dense0']))
    rng.shuffle(ids)
    it = iter(ids)
    cat, root = next(it), next(it)
    mids = [next(it) for _ in range(n_mid)]
    pages = [next(it) for _ in range(n_pages)]
    res = [next(it) for _ in range(n_res)]
    unreach = [next(it) for _ in range(n_unreach)]
    inds = [next(it) for _ in range(n_ind)]
    nums = [next(it) for _ in range(n_num)]
    info = next(it)
    have = set(ids)
    # dangling ids: near the numbers in use (so they may fall into the new range) and far away
    dang = []
    def fresh_dangling():
        for _ in range(50):
            style = rng.random()
            if style < 0.6:
                c = (rng.randint(0, total + 3), rng.choice([0, 0, 0, 1]))
            elif style < 0.8:
                k = rng.choice(ids)
                c = (k[0], k[1] + 1 if k[1] < 65535 else 0)
            else:
                c = (rng.choice([10 ** 6, U32 - 1, U32 - 2, 77777]), 0)
            if c not in have:
                return c
        return (999999, 0)
    p_dangling = rng.choice([0, 0, 0.1, 0.3])
    def maybe_dangling():
        c = fresh_dangling()
        dang.append(c)
        return REF(*c)
    objects = []
    # page tree: root -> (mids | pages); each mid holds a slice of the pages
    order = list(pages)            # page order = order of appearance in the tree, unrelated to ids
    groups = []
    if mids:
        cuts = sorted(rng.sample(range(0, len(order) + 1), len(mids) - 1)) if len(mids) > 1 else []
        prev = 0
        for c in cuts + [len(order)]:
            groups.append(order[prev:c]); prev = c
    root_kids = []
    parent_of = {}
    if mids:
        # interleave: some pages directly under the root before/after the mids
        for m, g in zip(mids, groups):
            root_kids.append(m)
            for p in g:
                parent_of[p] = m
    else:
        root_kids = list(order)
        for p in order:
            parent_of[p] = root
    def page_obj(p):
        ent = [('Type', N('Page')), ('Parent', REF(*parent_of[p]))]
        if res and rng.random() < 0.8:
            ent.append(('Contents', REF(*rng.choice(res))))
        if res and rng.random() < 0.5:
            ent.append(('Resources', D([('Font', D([('F1', REF(*rng.choice(res)))]))])))
        if rng.random() < p_dangling:
            ent.append(('Annots', A([maybe_dangling()])))
        if rng.random() < 0.2:
            ent.append(('Self', REF(*p)))
        if rng.random() < 0.2 and order:
            ent.append(('Next', REF(*rng.choice(order))))
        return D(ent)
    # number trees: nums[0] hangs in a number-first array of the catalog / the trailer / a page, nums[i+1] is
    # reachable only through a number-first array held by nums[i]; every one of them refers to other objects
    num_anchor = None
    if nums or rng.random() < 0.25:
        heads = [REF(*nums[0])] if nums else []
        heads += [REF(*rng.choice(ids)) for _ in range(rng.randint(0 if nums else 1, 2))]
        if rng.random() < p_dangling:
            heads.append(maybe_dangling())
        rng.shuffle(heads)
        num_anchor = (rng.choice(['cat-labels', 'cat-labels', 'cat-struct', 'trailer', 'page'] if order else
                                 ['cat-labels', 'cat-struct', 'trailer']), numarr(rng, heads))
    for k, u in enumerate(nums):
        other = REF(*rng.choice(order or ids))
        nxt = [REF(*nums[k + 1])] if k + 1 < len(nums) else []
        form = rng.random()
        if form < 0.4:
            objects.append((u, D([('S', N('D')), ('Pg', other)] + ([('Nums', numarr(rng, nxt + [REF(*rng.choice(ids))]))] if nxt or rng.random() < 0.5 else []))))
        elif form < 0.75:
            objects.append((u, numarr(rng, nxt + [other])))
        else:
            objects.append((u, ST([('Length', I(2)), ('W', numarr(rng, nxt + [other]))], b'nt')))
    num_page = rng.choice(order) if num_anchor and num_anchor[0] == 'page' else None
    for p in pages:
        o = page_obj(p)
        if p == num_page:
            o = o[:-1] + ' ' + L(xb('StructParents'), num_anchor[1]) + ')'
        objects.append((p, o))
    dup_page = rng.random() < 0.12 and len(order) >= 2
    for m, g in zip(mids, groups):
        kids = [REF(*p) for p in g]
        if dup_page and g and rng.random() < 0.5:
            kids.append(REF(*rng.choice(order)))
        objects.append((m, D([('Type', N('Pages')), ('Kids', A(kids)), ('Count', I(len(g))), ('Parent', REF(*root))])))
    rk = []
    for k in root_kids:
        target = k
        if inds and rng.random() < 0.2:
            ind = inds.pop()
            objects.append((ind, REF(*k)))
            target = ind
            parent_of[ind] = root
        rk.append(REF(*target))
    if dup_page and not mids:
        rk.insert(rng.randint(0, len(rk)), REF(*rng.choice(order)))
    if rng.random() < p_dangling:
        rk.insert(rng.randint(0, len(rk)), maybe_dangling())
    objects.append((root, D([('Type', N('Pages')), ('Kids', A(rk)), ('Count', I(len(order)))])))
    cat_ent = [('Type', N('Catalog')), ('Pages', REF(*root))]
    if rng.random() < p_dangling:
        cat_ent.append(('Outlines', maybe_dangling()))
    if num_anchor and num_anchor[0] == 'cat-labels':
        cat_ent.append(('PageLabels', D([('Nums', num_anchor[1])])))
    if num_anchor and num_anchor[0] == 'cat-struct':
        cat_ent.append(('StructTreeRoot', D([('Type', N('StructTreeRoot')), ('ParentTree', D([('Kids', A([D([('Limits', A([I(0), I(9)])), ('Nums', num_anchor[1])])]))]))])))
    objects.append((cat, D(cat_ent)))
    for ind in inds:               # unused indirections: point anywhere
        objects.append((ind, REF(*rng.choice(ids))))
    for r in res:
        kind = rng.random()
        if kind < 0.5:
            ent = [('Length', I(3))]
            if rng.random() < 0.3:
                ent.append(('Link', REF(*rng.choice(ids))))
            if rng.random() < p_dangling:
                ent.append(('Gone', maybe_dangling()))
            objects.append((r, ST(ent, b'abc')))
        elif kind < 0.8:
            objects.append((r, D([('Type', N('Font')), ('Peer', REF(*rng.choice(res)))])))
        else:
            a = [REF(*rng.choice(ids)), I(7), A([REF(*rng.choice(ids))]), NULL, S(b'x')]
            if rng.random() < 0.5:
                a.insert(0, rng.choice([I(3), R('0.5')]))      # the same array with a number in front
            objects.append((r, A(a)))
    for u in unreach:
        ent = [('Orphan', B(True)), ('To', REF(*rng.choice(ids)))]
        if rng.random() < 0.4:
            c = fresh_dangling()
            ent.append(('Gone', REF(*c)))
        objects.append((u, D(ent)))
    info_reach = rng.random() < 0.7
    objects.append((info, D([('Producer', S(b'gen')), ('Loop', REF(*info))])))
    trailer = [('Root', REF(*cat))]
    if info_reach:
        trailer.append(('Info', REF(*info)))
    if rng.random() < 0.3 and inds == []:
        trailer.append(('Extra', A([REF(*rng.choice(ids)), REF(*rng.choice(ids))])))
    if rng.random() < p_dangling:
        trailer.append(('Prev', maybe_dangling()))
    if num_anchor and num_anchor[0] == 'trailer':
        trailer.append(('Nt', num_anchor[1]))
    trailer.append(('Size', I(total + 1)))
    rng.shuffle(objects)
    return objects, trailer, order, ids, dang


def gen_bookmarks(rng, order, ids, dang):
    n = rng.choice([0, 0, 1, 2, 3, 5])
    specs = []
    for k in range(1, n + 1):
        r = rng.random()
        if r < 0.65 and order:
            page = rng.choice(order)
        elif r < 0.8:
            page = rng.choice(ids)
        elif r < 0.9:
            page = (0, 0)
        else:
            page = rng.choice(dang) if dang else (0, 0)
        parent = 'none'
        if k > 1 and rng.random() < 0.5:
            parent = str(rng.randint(1, k - 1))
        elif rng.random() < 0.05:
            parent = str(k + 5)          # parent that does not exist: an orphan entry of the table
        specs.append(L(parent, OID(*page)))
    return specs


def pick_start(rng, n):
    return rng.choice([1, 1, 1, 1, 0, 2, 3, n, n + 1, max(0, n - 1), rng.randint(0, 2 * n + 2), 1000, 2 ** 31,
                       U32 - n - 1, U32 - n, U32 - n + 1 if n else U32 - 1, U32 - 1])


def make_case(objects, trailer, specs, start, max_id=None):
    if max_id is None:
        max_id = max([i for (i, _), _ in objects] + [0])
    doc = DOC('1.5', b'', trailer, objects, max_id)
    return L('case', VER, L('rdoc', doc, L('bms', *specs)), str(start))


def fixed_cases():
    """hand-written boundary cases (kept small so that a replay is readable)"""
    cs = []
    page = lambda parent: D([('Type', N('Page')), ('Parent', REF(parent))])
    # DESIGN 7: ids {1,2,3,4,9} and a dangling `5 0 R`
    objs = [((1, 0), D([('Type', N('Catalog')), ('Pages', REF(2)), ('Gone', REF(5))])),
            ((2, 0), D([('Type', N('Pages')), ('Kids', A([REF(3), REF(4)])), ('Count', I(2))])),
            ((3, 0), page(2)), ((4, 0), page(2)), ((9, 0), D([('Tag', S(b'nine'))]))]
    cs.append((make_case(objs, [('Root', REF(1)), ('Nine', REF(9))], [], 1), {'kind': 'fixed-dangling-5', 'nontrivial': True}))
    # the same dangling reference in the trailer, in an array and behind a chain of references; a bookmark on it
    objs2 = [((1, 0), D([('Type', N('Catalog')), ('Pages', REF(2)), ('A', A([I(1), REF(5), A([REF(6)])]))])),
             ((2, 0), D([('Type', N('Pages')), ('Kids', A([REF(3), REF(5), REF(4)])), ('Count', I(2))])),
             ((3, 0), page(2)), ((4, 0), page(2)), ((9, 0), REF(5)), ((12, 0), D([('Tag', S(b'twelve'))]))]
    cs.append((make_case(objs2, [('Root', REF(1)), ('Nine', REF(9)), ('Gone', REF(5)), ('Twelve', REF(12))],
                         [L('none', OID(5)), L('none', OID(12)), L('1', OID(6))], 1), {'kind': 'fixed-dangling-many', 'nontrivial': True}))
    # bookmarks whose page names no object, start 0: the "no page" id must not be the object numbered 0
    objs3 = [((4, 0), D([('Type', N('Catalog'))])), ((7, 0), D([('Tag', S(b'seven'))]))]
    cs.append((make_case(objs3, [('Root', REF(4))], [L('none', OID(0)), L('none', OID(7)), L('none', OID(2))], 0),
               {'kind': 'fixed-bookmark-nopage-0', 'nontrivial': True}))
    objs4 = [((4, 5), D([('Type', N('Catalog'))])), ((7, 0), D([('Tag', S(b'seven'))]))]
    cs.append((make_case(objs4, [('Root', REF(4, 5))], [L('none', OID(0)), L('none', OID(0, 5)), L('none', OID(0, 1))], 0),
               {'kind': 'fixed-bookmark-nopage-0-gen', 'nontrivial': True}))
    cs.append((make_case(objs4, [('Root', REF(4, 5))], [L('none', OID(0)), L('none', OID(1, 5)), L('none', OID(2))], 1),
               {'kind': 'fixed-bookmark-nopage-1', 'nontrivial': True}))
    # empty document, start 0 and 1
    cs.append((make_case([], [], [], 0, 0), {'kind': 'fixed-empty-0', 'nontrivial': True}))
    cs.append((make_case([], [], [], 1, 0), {'kind': 'fixed-empty-1', 'nontrivial': True}))
    cs.append((make_case([], [('X', REF(3))], [L('none', OID(3))], 7, 0), {'kind': 'fixed-empty-7', 'nontrivial': True}))
    # one object renumbered to u32::MAX, and one too many
    one = [((5, 0), D([('Self', REF(5))]))]
    cs.append((make_case(one, [('Root', REF(5))], [], U32 - 1), {'kind': 'fixed-last-u32', 'nontrivial': True}))
    two = one + [((6, 0), I(1))]
    cs.append((make_case(two, [('Root', REF(5))], [], U32 - 1), {'kind': 'fixed-overflow', 'nontrivial': True}))
    # two pages whose ids are swapped with respect to page order, bookmarks on both
    objs = [((1, 0), D([('Type', N('Catalog')), ('Pages', REF(2))])),
            ((2, 0), D([('Type', N('Pages')), ('Kids', A([REF(5), REF(3)])), ('Count', I(2))])),
            ((3, 0), D([('Type', N('Page')), ('Parent', REF(2)), ('Name', S(b'second'))])),
            ((5, 0), D([('Type', N('Page')), ('Parent', REF(2)), ('Name', S(b'first'))]))]
    cs.append((make_case(objs, [('Root', REF(1))], [L('none', OID(5)), L('none', OID(3)), L('1', OID(3))], 1),
               {'kind': 'fixed-swap-bookmarks', 'nontrivial': True}))
    # bookmarks, dense pass only, start above the old numbers: 1 -> 2, 2 -> 3
    objs = [((1, 0), D([('Type', N('Catalog')), ('Next', REF(2))])), ((2, 0), D([('Tag', S(b'two'))]))]
    cs.append((make_case(objs, [('Root', REF(1))], [L('none', OID(1)), L('none', OID(2))], 2),
               {'kind': 'fixed-chain-bookmarks', 'nontrivial': True}))
    # pages with different generations out of order: 7 0 then 8 0 then 5 0 and 5 1
    objs = [((1, 0), D([('Type', N('Catalog')), ('Pages', REF(2))])),
            ((2, 0), D([('Type', N('Pages')), ('Kids', A([REF(7), REF(8), REF(5), REF(5, 1)])), ('Count', I(4))])),
            ((5, 0), D([('Type', N('Page')), ('Parent', REF(2)), ('Name', S(b'c'))])),
            ((5, 1), D([('Type', N('Page')), ('Parent', REF(2)), ('Name', S(b'd'))])),
            ((7, 0), D([('Type', N('Page')), ('Parent', REF(2)), ('Name', S(b'a'))])),
            ((8, 0), D([('Type', N('Page')), ('Parent', REF(2)), ('Name', S(b'b'))]))]
    cs.append((make_case(objs, [('Root', REF(1))], [], 1), {'kind': 'fixed-page-generations', 'nontrivial': True}))
    # a page listed twice with another page in between, ids ascending
    objs = [((1, 0), D([('Type', N('Catalog')), ('Pages', REF(2))])),
            ((2, 0), D([('Type', N('Pages')), ('Kids', A([REF(3), REF(5), REF(3)])), ('Count', I(3))])),
            ((3, 0), D([('Type', N('Page')), ('Parent', REF(2)), ('Name', S(b'a'))])),
            ((5, 0), D([('Type', N('Page')), ('Parent', REF(2)), ('Name', S(b'b'))]))]
    cs.append((make_case(objs, [('Root', REF(1))], [L('none', OID(3)), L('none', OID(5))], 1),
               {'kind': 'fixed-page-twice', 'nontrivial': True}))
    # already consecutive from the start value, max_id stale: two ids reserved / two objects added and deleted again
    objs = [((1, 0), D([('Type', N('Catalog')), ('Pages', REF(2))])),
            ((2, 0), D([('Type', N('Pages')), ('Kids', A([REF(3), REF(4)])), ('Count', I(2))])),
            ((3, 0), page(2)), ((4, 0), page(2))]
    cs.append((make_case(objs, [('Root', REF(1))], [], 1, 6), {'kind': 'fixed-dense-stale-max', 'nontrivial': True}))
    cs.append((make_case(objs, [('Root', REF(1))], [], 1, 0), {'kind': 'fixed-dense-max-0', 'nontrivial': True}))
    # the same with the pages out of order (only the page pass has work) and with start 13 on ids 13..16
    objs2 = [((1, 0), D([('Type', N('Catalog')), ('Pages', REF(2))])),
             ((2, 0), D([('Type', N('Pages')), ('Kids', A([REF(4), REF(3)])), ('Count', I(2))])),
             ((3, 0), page(2)), ((4, 0), page(2))]
    cs.append((make_case(objs2, [('Root', REF(1))], [L('none', OID(4))], 1, 40), {'kind': 'fixed-dense-stale-max-pages', 'nontrivial': True}))
    objs3 = [((13, 0), D([('Type', N('Catalog')), ('Pages', REF(14))])),
             ((14, 0), D([('Type', N('Pages')), ('Kids', A([REF(15), REF(16)])), ('Count', I(2))])),
             ((15, 0), page(14)), ((16, 0), page(14))]
    cs.append((make_case(objs3, [('Root', REF(13))], [], 13, 17), {'kind': 'fixed-dense-stale-max-13', 'nontrivial': True}))
    cs.append((make_case([], [], [], 1, 40), {'kind': 'fixed-empty-stale-max', 'nontrivial': True}))
    # a number tree: the labels are reachable only through an array that begins with a number
    objs = [((10, 0), D([('Type', N('Catalog')), ('Pages', REF(20)), ('PageLabels', D([('Nums', A([I(0), REF(60), I(1), REF(70)]))]))])),
            ((20, 0), D([('Type', N('Pages')), ('Kids', A([REF(30)])), ('Count', I(1))])),
            ((30, 0), D([('Type', N('Page')), ('Parent', REF(20)), ('StructParents', A([R('0.5'), A([I(1), D([('K', REF(70))])])]))])),
            ((60, 0), D([('S', N('D')), ('Pg', REF(30))])),
            ((70, 0), D([('S', N('r')), ('Pg', REF(30)), ('Prev', REF(60))]))]
    for st in (1, 5):
        cs.append((make_case(objs, [('Root', REF(10))], [L('none', OID(30))], st), {'kind': 'fixed-number-tree', 'nontrivial': True}))
    return cs


# ------------------------------------------------------------------------------------------
# deeply nested containers: traverse_objects must reach a reference however deep it sits inside the direct arrays /
# dictionaries of an object.  Level 1 is the holder's own container (the value of an indirect object, the dictionary
# of a stream, the trailer dictionary, a page dictionary); `depth` is the level of the innermost container.  16 is the
# deepest VALUE the crate's parser accepts (reader::MAX_NESTING); documents built in memory may nest deeper.
# ------------------------------------------------------------------------------------------
DEEP_DEPTHS = list(range(1, 19)) + [30, 100]
DEEP_POS = ['obj', 'stream', 'trailer', 'page', 'chain']
DEEP_SHAPES = ['arr', 'dict', 'alt', 'rand']


def nest(rng, levels, shape, refs_at, first_level=1):
    """`levels` containers inside one another (levels >= 1); the outermost is level `first_level`; refs_at(level) = the
    values put directly into the container of that level (beside the next container).  None when levels == 0."""
    inner = None
    for level in range(first_level + levels - 1, first_level - 1, -1):
        items = list(refs_at(level))
        if rng.random() < 0.3:
            items.append(I(level))
        if inner is not None:
            items.insert(rng.randint(0, len(items)), inner)     # the next level is first, last or in between
        k = {'arr': 'a', 'dict': 'd', 'alt': 'ad'[level % 2]}.get(shape) or rng.choice('ad')
        inner = A(items) if k == 'a' else D([('K%d' % j, v) for j, v in enumerate(items)])
    return inner


def deep_case(rng, depth, pos, shape, mode, start=None, sparse=None):
    """a small document (catalog, one Pages node, two pages out of id order) with ONE deep structure of `depth` levels:
       pos  = obj (value of an indirect object the catalog names) | stream (level 1 = the dictionary of a stream object)
            | trailer (level 1 = the trailer dictionary) | page (level 1 = a page dictionary)
            | chain (an object reachable only through the innermost reference of another deep object holds one itself);
       mode = inner (one reference, in the innermost container) | every (a reference at every level) | both.
    The innermost container always holds a reference to a target reachable ONLY from there, which in turn names a second
    object reachable only through it; every target's number changes under the renumbering (sparse ids, start chosen so)."""
    n_t = 4
    n_hold = 2 if pos == 'chain' else 1
    total = 4 + n_t + n_hold
    while True:
        ids = pick_ids(rng, total, sparse or rng.choice(['sparse', 'sparse', 'high', 'samenum', 'dense1']))
        order = sorted(ids)
        shuffled = list(ids)
        rng.shuffle(shuffled)
        cat, root, p1, p2 = shuffled[:4]
        targets = shuffled[4:4 + n_t]
        holders = shuffled[4 + n_t:]
        cands = [start] if start is not None else [1, 1, 2, 0, 7, len(ids), 1000, rng.randint(0, 60), U32 - total]
        rng.shuffle(cands)
        st = next((s for s in cands if all(s + order.index(t) != t[0] for t in targets + holders)), None)
        if st is not None:
            break
        if start is not None:
            sparse = 'high'
    only, second, shared, other = targets
    def refs_at(depth_):
        def f(level):
            out = []
            if level == depth_:
                out.append(REF(*only))
                if mode != 'inner' or rng.random() < 0.5:
                    out.append(REF(*rng.choice([shared, p1, p2, cat])))
            elif mode in ('every', 'both') or (mode == 'some' and rng.random() < 0.4):
                out.append(REF(*rng.choice([shared, other, p1, p2, root])))
            return out
        return f
    page = lambda p, extra=(): D([('Type', N('Page')), ('Parent', REF(*root))] + list(extra))
    objects = [(only, D([('Tag', S(b'only')), ('Next', REF(*second))])),
               (second, D([('Tag', S(b'second')), ('Back', A([REF(*only), REF(*p2)]))])),
               (shared, ST([('Length', I(1))], b's')),
               (other, A([I(1), REF(*shared)]))]
    cat_ent = [('Type', N('Catalog')), ('Pages', REF(*root)), ('Shared', REF(*shared)), ('Other', REF(*other))]
    trailer = [('Root', REF(*cat))]
    page_extra = []
    if pos in ('obj', 'chain'):
        objects.append((holders[0], nest(rng, depth, shape, refs_at(depth))))
        cat_ent.append(('Deep', REF(*holders[0])))
        if pos == 'chain':
            # `second` is replaced: the only way to the second holder is the innermost reference of the first
            objects[0] = (only, D([('Tag', S(b'only')), ('Next', REF(*holders[1]))]))
            d2 = rng.choice([depth, depth, 16, max(1, depth - 1)])
            def f2(level):
                return [REF(*second)] if level == d2 else []
            objects.append((holders[1], nest(rng, d2, rng.choice(DEEP_SHAPES), f2)))
    else:
        inner = nest(rng, depth - 1, shape, refs_at(depth), first_level=2)
        ent = ([('Deep', inner)] if inner is not None else []) + [('R%d' % j, v) for j, v in enumerate(refs_at(depth)(1))]
        if pos == 'stream':
            objects.append((holders[0], ST([('Length', I(2))] + ent, b'dd')))
            cat_ent.append(('Deep', REF(*holders[0])))
        elif pos == 'trailer':
            trailer += ent
            objects.append((holders[0], D([('Unused', B(True))])))
        else:
            page_extra = ent
            objects.append((holders[0], D([('Unused', B(True))])))
    objects += [(cat, D(cat_ent)),
                (root, D([('Type', N('Pages')), ('Kids', A([REF(*p1), REF(*p2)])), ('Count', I(2))])),
                (p1, page(p1, page_extra)), (p2, page(p2))]
    rng.shuffle(objects)
    specs = [L('none', OID(*only))] if rng.random() < 0.3 else []
    return make_case(objects, trailer, specs, st)


def deep_cases(rng, tier):
    cs = []
    reps = 1 if tier == 'quick' else 12
    for _ in range(reps):
        for depth in DEEP_DEPTHS:
            for pos in DEEP_POS:
                shape = rng.choice(DEEP_SHAPES)
                mode = rng.choice(['inner', 'every', 'both', 'some'])
                cs.append((deep_case(rng, depth, pos, shape, mode),
                           {'kind': 'deep-%s-%s' % (pos, 'le15' if depth <= 15 else '16' if depth == 16 else 'gt16'), 'nontrivial': True}))
    return cs


def deep_fixed_cases():
    """exactly 16 levels (the deepest value the parser accepts), one reference in the innermost container, every shape and
    every position, ids 10, 20, .. renumbered from 1; plus 15 and 17 levels"""
    import random
    rng = random.Random(1016)
    cs = []
    for depth in (16, 15, 17):
        for pos in DEEP_POS:
            for shape in (DEEP_SHAPES if depth == 16 else ['alt']):
                cs.append((deep_case(rng, depth, pos, shape, 'inner', start=1, sparse='sparse'),
                           {'kind': 'fixed-deep-%s-%d' % (pos, depth), 'nontrivial': True}))
    return cs


def pick_max_id(rng, objects):
    """max_id as found in real documents: the highest number in use, or higher (ids reserved by new_object_id, objects
    added and deleted again), or stale / never set (lower than the numbers in use)"""
    mx = max([i for (i, _), _ in objects] + [0])
    return rng.choice([mx, mx, mx, min(U32 - 1, mx + rng.randint(1, 4)), min(U32 - 1, mx + 1000), 0, rng.randint(0, mx), U32 - 1])


def gen_cases(rng, tier):
    n = 400 if tier == 'quick' else 12000
    cases = fixed_cases() + deep_fixed_cases() + deep_cases(rng, tier)
    # documents whose numbers are ALREADY consecutive from the start value (the dense pass has nothing to move; the
    # page pass may) while max_id is not the last number
    for k in range(n // 8):
        objects, trailer, order, ids, dang = gen_doc(rng, rng.choice(['tiny', 'normal']), style=rng.choice(['denseb', 'denseb', 'dense1']))
        specs = gen_bookmarks(rng, order, ids, dang)
        start = min(i for i, _ in ids)
        last = start + len(ids) - 1
        mid = rng.choice([min(U32 - 1, last + 1), min(U32 - 1, last + rng.randint(1, 50)), 0, max(0, last - 1), U32 - 1, rng.randint(0, last)])
        line = make_case(objects, trailer, specs, start, mid)
        cls = former_class(line)
        cases.append((line, {'kind': 'dense-stale-max' + ('-dangling-in-range' if cls else ''), 'nontrivial': len(objects) >= 3}))
    for k in range(n):
        size = rng.choice(['tiny', 'normal', 'normal', 'normal'])
        objects, trailer, order, ids, dang = gen_doc(rng, size)
        specs = gen_bookmarks(rng, order, ids, dang)
        start = pick_start(rng, len(objects))
        r = rng.random()
        kind = 'graph'
        if r < 0.04:
            # malformed stream: damage the page tree
            trailer = [e for e in trailer if e[0] != 'Root'] if rng.random() < 0.5 else [(('Root', I(3)) if e[0] == 'Root' else e) for e in trailer]
            kind = 'mal-root'
        elif r < 0.08:
            objects = [(i, o.replace(xb('Kids'), xb('Kidz'))) for i, o in objects]
            kind = 'mal-kids'
        line = make_case(objects, trailer, specs, start, pick_max_id(rng, objects))
        cls = former_class(line)
        cases.append((line, {'kind': kind + ('-dangling-in-range' if cls else ''), 'nontrivial': len(objects) >= 3}))
    return cases


# ------------------------------------------------------------------------------------------
# the class of the FIXED finding dangling-in-range, decided on the INPUT (mirrors KnownClass of
# coq/Proofs/RenumberProofsTop.v).  It is no longer a known-finding class: SPEC has no 'classify', a failure on
# such an input is a violation like any other.  It is used to label the generated cases (so that the report
# shows how many inputs exercise the repaired behaviour) and is still compared with the Coq predicate.
# ------------------------------------------------------------------------------------------
def parse_sx(s):
    stack = [[]]
    for tok in re.findall(r'\(|\)|[^\s()]+', s):
        if tok == '(':
            stack.append([])
        elif tok == ')':
            top = stack.pop()
            stack[-1].append(top)
        else:
            stack[-1].append(tok)
    return stack[0][0]


def refs_of(o, out):
    if isinstance(o, list) and o:
        if o[0] == 'ref':
            out.append((int(o[1]), int(o[2])))
        elif o[0] in ('a',):
            for x in o[1:]:
                refs_of(x, out)
        elif o[0] == 'd':
            for kv in o[1:]:
                refs_of(kv[1], out)
        elif o[0] == 'st':
            refs_of(o[1], out)
    return out


def former_class(line):
    """C10-dangling-in-range (fixed): some reference reachable from the trailer, or some bookmark target, names no
    object and its NUMBER lies in the new range [start, start+n).  Mirrors KnownClass of
    coq/Proofs/RenumberProofsTop.v (C10_KnownClass_spec): existsb over reach_list ++ bm_targets."""
    try:
        c = parse_sx(line)
        rd, start = c[2], int(c[3])
        doc = rd[1]
        trailer, objs = doc[3], doc[4][1:]
        m = {}
        for e in objs:
            m[(int(e[0][0]), int(e[0][1]))] = e[1]
        n = len(m)
        in_range = lambda r: r not in m and start <= r[0] < start + n
        # reach_list: targets of references reachable from the trailer (followed through the objects they name)
        todo = refs_of(trailer, [])
        seen = set()
        while todo:
            r = todo.pop()
            if r in seen:
                continue
            seen.add(r)
            if r in m:
                todo.extend(refs_of(m[r], []))
            elif in_range(r):
                return 'dangling-in-range'
        # bm_targets: the bookmark targets themselves (an object that only a bookmark names is NOT followed:
        # renumbering does not rename its references, Props/C10.v KnownClass does not look into it)
        for b in rd[2][1:]:
            if in_range((int(b[1][0]), int(b[1][1]))):
                return 'dangling-in-range'
        return None
    except Exception:
        return None


SPEC = {
    'gen_parts': ['Consts'],
    'allowed_axioms': (),
    'runner': 'c10',
    'bin': 'c10',
    'gen_cases': gen_cases,
    'rule': 'random documents: page trees (0-8 pages, optional intermediate Pages nodes, kids behind indirect reference '
            'objects, a page listed twice) whose page order is unrelated to the ids; id styles dense-from-1, dense-from-0, '
            'sparse, high, several generations of one number; generations zero/few/mixed; shared resources, content '
            'streams, self references and Parent cycles, references from the trailer, dangling references near and far '
            'from the new range, unreachable objects, bookmark forests (targets: pages, other objects, (0,0), dangling; '
            'orphan entries) x start values 0, 1, 2, n, n+-1, random, 1000, 2^31, 2^32-n-1, 2^32-n, 2^32-n+1, 2^32-1; '
            'number trees: mixed arrays that BEGIN with an integer or real and hold references further on (bare, in nested '
            'number-first arrays, in dictionaries and ordinary arrays inside them) anchored in the catalog (PageLabels, '
            'StructTreeRoot/ParentTree), the trailer or a page, with chains of objects reachable ONLY through such arrays; '
            'max_id equal to / above (reserved ids, deleted objects) / below the highest number in use; documents already '
            'consecutive from the start value (dense pass has nothing to move) with a stale max_id; '
            'deep nesting: one structure of direct arrays / dictionaries (arrays only, dictionaries only, alternating, random) '
            '1..18, 30 and 100 levels deep (16 = the deepest value the parser accepts, reader::MAX_NESTING; deeper ones exist '
            'only in memory) as the value of an indirect object, under the dictionary of a stream, of the trailer, of a page, '
            'and chained (a second deep object reachable only through the innermost reference of the first), with a '
            'reference in the innermost container to an object reachable only from there, optionally references at every '
            'level, all targets changing their number; 30 fixed cases of 15 / 16 / 17 levels; '
            '8% damaged page trees; 22 fixed boundary cases; non-trivial = at least 3 objects; distinct = distinct case text',
    'extra_trusted': ['C10: traverse_objects is modelled for actions that rename a reference or overwrite it with Null (both actions used by renumbering)',
                      'C10: HashMap<u32, Bookmark> modelled as an association list printed in key order'],
}


def check_classifier(ctx):
    """`former_class` (Python, labels the generated inputs that exercise the repair of dangling-in-range) must be the
    predicate KnownClass of Props/C10.v (C10_KnownClass_spec, the domain of C10_dangling_v1_refuted): evaluate both on
    generated inputs (version `kc` of the model runner)."""
    import random
    import vlib
    runner, rlog = vlib.build_runner(SPEC['runner'])
    if runner is None:
        return            # standard_check reports the broken runner
    rng = random.Random(ctx.seed * 7919 + 10)
    lines = [c[0] for c in fixed_cases()]
    for k in range(300 if ctx.tier == 'quick' else 6000):
        objects, trailer, order, ids, dang = gen_doc(rng, rng.choice(['tiny', 'normal']))
        specs = gen_bookmarks(rng, order, ids, dang)
        n = len(objects)
        start = rng.choice([0, 1, 1, 2, n, n + 1, rng.randint(0, 2 * n + 2), 1000, U32 - n])
        lines.append(make_case(objects, trailer, specs, start))
    kc = [l.replace('(case %s ' % VER, '(case kc ', 1) for l in lines]
    out = vlib.run_lines(runner, kc, timeout=600, shards=8)
    hits = 0
    for l, o in zip(lines, out):
        py = former_class(l) is not None
        hits += py
        if o.strip() != '(known %d)' % (1 if py else 0):
            ctx.violation('classifier_%d' % ctx.seed, {
                'kind': 'known-class-mirror-broken', 'property': 'C10', 'case': l, 'python_classify': py, 'coq_KnownClass': o,
                'note': 'props/c10.py former_class and KnownClass of coq/Proofs/RenumberProofsTop.v disagree'}, found_input=False)
            return
    ctx.notes.append('former_class == KnownClass on %d generated inputs (%d in the class of the fixed finding)' % (len(lines), hits))


def run(ctx):
    check_classifier(ctx)
    return propcheck.standard_check(ctx, SPEC)


MANIFEST = {
    'level_text': 'Machine-checked proof (Coq) about a branch-for-branch model of renumber_objects_with / renumber_objects '
                  '(page-order pass, dense pass with its null-writing action and no-page bookmarks, renumber_bookmarks_with, '
                  'the i32 page counter) and traverse_objects: for EVERY document with sorted keys and every start value '
                  'with start + n <= 2^32 -- no hypothesis on dangling references any more -- the call returns and there is '
                  'a renaming rho, one-to-one on the ids that name objects and onto those of the result, with trailer and '
                  'every reachable object equal to the originals with references renamed, where a reference that names no '
                  'object is written as what it denotes (ISO 32000-1 7.3.10), the null object; bookmark targets renamed, a '
                  'target that names no object becomes the no-page id (number 0, names no object afterwards); same reachable '
                  'set up to rho, no reachable reference dangling afterwards, every reference denoting the same content as '
                  'before, page_iter of the result = map rho of page_iter before (C10_renumber_iso); numbers are '
                  'start..start+n-1 with generations kept and max_id the last one (C10_renumber_dense); start + n > 2^32 '
                  'panics (C10_fits_necessary); the i32 page counter is exact below 2^31 objects and panics above i32::MAX '
                  'distinct pages (C10_page_counter); traverse_objects terminates within its fuel and rewrites each reachable '
                  'reference exactly once, for renaming actions and for the null-writing action (C10_traverse_once, _o). '
                  'Extensions: renumbering a writable document gives one in the domain of the save/load round trip and '
                  'renumber;save;load returns the renumbered document (C10_renumber_savable, C10_renumber_save_load, with '
                  'C01_full); the README merge (second document renumbered from max_id + 1): disjoint consecutive number '
                  'ranges, union keeps both graphs (C10_merge_disjoint). The property was REFUTED on the code before the '
                  'repair e5c19fd (C10_dangling_v1_refuted, C10_dangling_bookmark_v1_refuted over the kept model RenumberV1) '
                  'and on the pinned code in four more ways (C10_*_v0_refuted over RenumberV0); all five are fixed in /repo. '
                  'Tied to the implementation by differential runs on random reference graphs x start values, comparing '
                  'objects, trailer, max_id, bookmark table and page_iter.',
    'level_note': 'Trusted: Coq kernel; hand-written models of renumber_objects_with, traverse_objects (for actions that rename a '
                  'reference or overwrite it with Null), add_bookmark, PageTreeIter (shared with C12) and '
                  'Document::dereference, tied by correspondence; association lists for BTreeMap (sorted_keys is the '
                  'representation invariant, a hypothesis) and HashMap<u32, Bookmark>; the i32 page counter is modelled but '
                  'cannot be exercised (2^31 pages); the save/load corollaries rest on the C01 models (Model/Save.v, '
                  'Model/Loader.v); extraction/OCaml driver; Rust harness whose verdict discovers the renaming by walking '
                  'both documents in lock step and reads "a reference to nothing" as the null object. No axioms '
                  '(Print Assumptions: closed under the global context).',
    'technique': 'Coq proof (loop invariant of the worklist traversal, re-keying lemmas on sorted association lists, composition of '
                 'two pass isomorphisms, simulation of the read-only queries under renaming with failures becoming null) + '
                 'differential correspondence',
    'design_ref': 'DESIGN.md 6 C10',
}
