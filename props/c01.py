"""C01 -- save then load returns the same document."""
import os, re
import propcheck, vlib
from sxg import *
from objgen import ObjGen, RealSource, rbytes, rliteral

SKIP = [b'ObjStm', b'XRef', b'Linearized']
TRICKY_BODIES = [b'endstream', b'\nendstream', b'endobj\n', b'%%EOF', b'startxref\n12\n%%EOF', b'stream\n', b'\r', b'\r\n', b'\n',
                 b'1 0 obj\n<<>>\nendobj\n', b'xref\n0 1\n0000000000 65535 f \ntrailer\n<<>>', b'%PDF-1.9\n', b'>>', b'<<']


def rversion(rng, savable):
    r = rng.random()
    if r < 0.6:
        return rng.choice(['1.0', '1.3', '1.4', '1.5', '1.7', '2.0'])
    if r < 0.7:
        return ''
    if r < 0.8:
        return rng.choice(['1.4 ', ' 1.5', '1.7%x', '%PDF-1.4', 'é中', '1.4\t', '9', '1.4 %\xe2\xe3'])
    if r < 0.9 or savable:
        return ''.join(chr(rng.choice([rng.randint(0x20, 0x7e), 0x25, 0x20, 0x09, 0x00, 0xe9])) for _ in range(rng.randint(0, 6)))
    return rng.choice(['1.4\n', '1.4\r', '1\n5', '\n', '1.4\r\n%x'])


def rmark(rng, savable):
    r = rng.random()
    if r < 0.5:
        return bytes([0xBB, 0xAD, 0xC0, 0xDE])
    if r < 0.6:
        return b''
    if r < 0.92 or savable:
        return bytes(rng.randint(128, 255) for _ in range(rng.randint(1, 6)))
    return rng.choice([b'abc', b'\xe2\xe3\x0a', b'\xff\x7f', b'\x00'])


def rbody(rng):
    r = rng.random()
    if r < 0.15:
        return b''
    if r < 0.45:
        return rbytes(rng, 40)
    if r < 0.75:
        parts = [rng.choice(TRICKY_BODIES + [rbytes(rng, 8)]) for _ in range(rng.randint(1, 4))]
        return b''.join(parts)
    return bytes(rng.randint(0, 255) for _ in range(rng.randint(1, 120)))


def rdict_entries(rng, g, depth, n=None):
    keys = []
    for _ in range(rng.choice([0, 1, 2, 4]) if n is None else n):
        kk = rbytes(rng, 6)
        if kk not in keys and kk not in (b'Length', b'Type', b'Linearized'):
            keys.append(kk)
    return [(kk, g.obj(depth)) for kk in keys]


def rstream(rng, g, savable):
    body = rbody(rng)
    ents = rdict_entries(rng, g, 2)
    length = I(len(body))
    if not savable:
        r = rng.random()
        if r < 0.3:
            length = I(len(body) + rng.choice([-1, 1, 5, -len(body) - 1, 1000]))
        elif r < 0.5:
            length = None
        elif r < 0.7:
            length = REF(rng.choice([1, 2, 3, 99]), 0)
        elif r < 0.8:
            length = rng.choice([NULL, N(b'x'), '(r x%s)' % b'2.5'.hex(), '(r x%s)' % b'3'.hex()])   # real texts must be Rust Display strings
    if length is not None:
        ents.insert(rng.randint(0, len(ents)), (b'Length', length))
    if rng.random() < 0.3:
        ents.insert(rng.randint(0, len(ents)), (b'Type', N(rng.choice([b'XObject', b'Metadata', b'Font', b'ObjSt', b'XRefs']))))
    return ST(ents, body)


def robject(rng, g, savable):
    r = rng.random()
    if r < 0.25:
        return rstream(rng, g, True)
    if not savable and r < 0.45:
        k = rng.random()
        if k < 0.35:
            return rstream(rng, g, False)
        if k < 0.55:      # typed object the writer drops
            t = rng.choice(SKIP)
            ents = rdict_entries(rng, g, 1)
            if rng.random() < 0.3:
                ents.append((b'Linearized', I(1)))
            else:
                ents.insert(rng.randint(0, len(ents)), (b'Type', N(t)))
            return ST(ents + [(b'Length', I(2))], b'ab') if rng.random() < 0.5 else D(ents)
        if k < 0.8:       # stream below the top level
            inner = ST([(b'Length', I(1))], b'x')
            return A([I(1), inner]) if rng.random() < 0.5 else D([(b'K', inner)])
    if r < 0.7:
        return D(rdict_entries(rng, g, 2) + ([(b'Type', N(rng.choice([b'Catalog', b'Pages', b'Page', b'Font'])))] if rng.random() < 0.4 else []))
    return g.obj(rng.choice([0, 1, 2, 3]))


def rtrailer(rng, g, ids, savable, force_id=False):
    ents = []
    if ids and rng.random() < 0.7:
        i = rng.choice(ids)
        ents.append((b'Root', REF(i[0], i[1])))
    if ids and rng.random() < 0.4:
        i = rng.choice(ids)
        ents.append((b'Info', REF(i[0], i[1])))
    if rng.random() < 0.4 or force_id:
        ents.append((b'ID', A([H(rbytes(rng, 16)), H(rbytes(rng, 16))])))
    ents += rdict_entries(rng, g, 2, n=rng.choice([0, 0, 1, 2]))
    # bookkeeping keys already present (set replaces in place, Filter is swap-removed)
    for k, v in ((b'Size', I(rng.randint(0, 50))), (b'Type', N(rng.choice([b'XRef', b'Foo']))), (b'W', A([I(1), I(2), I(1)])),
                 (b'Index', A([I(0), I(3)])), (b'Length', I(7)), (b'Filter', N(b'FlateDecode')), (b'DecodeParms', D([(b'Columns', I(4))]))):
        if rng.random() < 0.12:
            ents.insert(rng.randint(0, len(ents)), (k, v))
    if not savable and rng.random() < 0.3:
        ents.insert(rng.randint(0, len(ents)), rng.choice([(b'Prev', I(rng.choice([0, 9, 10**6, -1]))), (b'Prev', NULL),
                                                            (b'Encrypt', REF(1, 0)), (b'Encrypt', D([])), (b'XRefStm', I(0))]))
    seen = set()
    out = []
    for k, v in ents:
        if k not in seen:
            seen.add(k)
            out.append((k, v))
    return out


def gen_doc(rng, reals, savable, for_encrypt=False):
    """for_encrypt: a document Document::encrypt accepts and restores (C05's domain): a file identifier in the trailer, no
    object number above max_id (add_object numbers the encryption dictionary max_id + 1)"""
    g = ObjGen(rng, reals, allow_ref=True)
    n = rng.choice([0, 1, 1, 2, 3, 4, 6, 9])
    span = rng.choice([n, n + 2, 2 * n + 3, 40])
    nums = sorted(rng.sample(range(1, span + 1), min(n, span)))
    ids = [(i, rng.choice([0, 0, 0, 1, 2, 65535, rng.randint(0, 65535)])) for i in nums]
    max_id = (max(nums) if nums else 0) + rng.choice([0, 0, 0, 1, 5])
    if nums and rng.random() < 0.12:
        # a stale max_id below an object number (objects inserted directly into `objects`): in the domain since
        # the repair 'save raises max_id'; before it the object was dropped / overwritten by the xref stream
        max_id = rng.choice([0, max(0, max(nums) - 1), max(0, max(nums) - rng.randint(1, max(nums))), min(nums)])
    if not savable:
        r = rng.random()
        if r < 0.15 and ids:
            ids.append((ids[0][0], (ids[0][1] + 1) % 65536))        # second generation of one number
        elif r < 0.25:
            ids.append((0, rng.choice([0, 65535])))                 # object number 0
        elif r < 0.4 and ids:
            max_id = max(0, max(nums) - rng.choice([1, 2]))         # an object above max_id
        elif r < 0.45:
            max_id = 4294967295
    objs = sorted(set(ids))
    objects = [(i, robject(rng, g, savable)) for i in objs]
    if for_encrypt:
        max_id = max([max_id] + nums)
    doc = DOC(rversion(rng, savable).encode('utf-8'), rmark(rng, savable), rtrailer(rng, g, objs, savable, force_id=for_encrypt), objects, max_id)
    fmt = rng.choice(['table', 'stream'])
    if max_id == 4294967295 - 1:
        fmt = 'stream'
    return fmt, g.finish(doc)


def damage_encdoc(rng, enc, what=None):
    """an encrypted document (case text) with its encryption dictionary or a ciphertext damaged: the decrypt attempt of
    load_mem and Document::decrypt answer an error, or leave the document as it is -- the same on both sides"""
    doc = sx_parse(enc)
    trailer, objs = doc[3], doc[4]
    ent = [e for e in trailer[1:] if e[0] == xb(b'Encrypt')]
    if not ent or ent[0][1][0] != 'ref':
        return None, None
    eid = ent[0][1][1:3]
    eobj = [o for o in objs[1:] if o[0] == eid]
    if not eobj or eobj[0][1][0] != 'd':
        return None, None
    ed = eobj[0][1]

    def key(k):
        for e in ed[1:]:
            if e[0] == xb(k):
                return e
        return None
    what = what or rng.choice(['cut', 'cut', 'bad-U', 'bad-O', 'no-O', 'no-U', 'V3', 'V9', 'R7', 'Length-7', 'P-name', 'dangling', 'direct', 'no-ID', 'Filter'])
    if what == 'cut':
        # the first ciphertext string of at least 2 bytes loses its last byte (AES: no whole number of blocks any more)
        def cut(o):
            if isinstance(o, list):
                if o and o[0] in ('h', 's') and len(o[1]) >= 5:
                    o[1] = o[1][:-2]
                    return True
                return any(cut(x) for x in o[1:])
            return False
        if not any(cut(o[1]) for o in objs[1:] if o[0] != eid):
            return None, None
    elif what in ('bad-U', 'bad-O'):
        e = key(what[-1].encode())
        if e is None or len(e[1][1]) < 3:
            return None, None
        e[1][1] = 'x' + ('00' if e[1][1][1:3] != '00' else '01') + e[1][1][3:]
    elif what in ('no-O', 'no-U'):
        e = key(what[-1].encode())
        if e is None:
            return None, None
        ed.remove(e)
    elif what in ('V3', 'V9', 'R7'):
        e = key(what[0].encode())
        if e is None:
            return None, None
        e[1] = ['i', what[1]]
    elif what == 'Length-7':
        e = key(b'Length')
        if e is None:
            ed.append([xb(b'Length'), ['i', '7']])
        else:
            e[1] = ['i', '7']
    elif what == 'P-name':
        e = key(b'P')
        if e is None:
            return None, None
        e[1] = ['n', xb(b'All')]
    elif what == 'dangling':
        ent[0][1] = ['ref', '999', '0']
    elif what == 'direct':
        ent[0][1] = ed
        objs.remove(eobj[0])
    elif what == 'no-ID':
        e = [t for t in trailer[1:] if t[0] == xb(b'ID')]
        if not e:
            return None, None
        trailer.remove(e[0])
    elif what == 'Filter':
        e = key(b'Filter')
        if e is None:
            return None, None
        e[1] = ['n', xb(b'Other')]
    return sx_print(doc), what


def hist_obj(rng, ids, depth=0):
    """object AST of gen/histgen.py (its plain serialiser writes only bytes that need no escaping)"""
    k = rng.random()
    if k < 0.2: return ('i', rng.choice([0, 1, -7, 42, 2 ** 31, -2 ** 63, rng.randint(-10 ** 6, 10 ** 6)]))
    if k < 0.3: return ('n', rng.choice([b'Name', b'A', b'Font', b'XYZ', b'Prev', b'XRef']))
    if k < 0.45: return ('s', bytes(rng.choice(b'abcdefgh XYZ09') for _ in range(rng.randint(0, 12))))
    if k < 0.5: return ('h', bytes(rng.randrange(256) for _ in range(rng.randint(0, 6))))
    if k < 0.55: return rng.choice([('null',), ('b', True), ('b', False)])
    if k < 0.65 and ids: return ('ref', rng.choice(ids), rng.choice([0, 0, 1]))
    if depth < 2 and k < 0.8:
        return ('a', [hist_obj(rng, ids, depth + 1) for _ in range(rng.randint(0, 4))])
    if depth < 2:
        keys = rng.sample([b'A', b'B', b'Kids', b'V', b'Ty', b'Next', b'Prev', b'Size'], rng.randint(0, 4))
        return ('d', [(key, hist_obj(rng, ids, depth + 1)) for key in keys])
    return ('i', depth)


def hist_top(rng, ids):
    import histgen
    if rng.random() < 0.25:
        content = rng.choice(TRICKY_BODIES + [bytes(rng.choice(b'BT ET q Q 0123456789\n') for _ in range(rng.randint(0, 30)))])
        return histgen.stream([(b'K', ('i', rng.randint(0, 9)))] if rng.random() < 0.5 else [], content)
    return hist_obj(rng, ids)


def gen_hist_files(rng, n):
    """files with 2-5 revisions APPENDED BY HAND (gen/histgen.py, the reference writer of C07): cross-reference tables and
    streams mixed from revision to revision, replaced / added / freed objects, generation bumps; a few with object
    streams or hybrid sections (the loaded document then holds ObjStm containers: correspondence, verdict skip)"""
    import histgen
    files = []
    for _ in range(n):
        m = rng.randint(2, 9)
        ids = list(range(1, m + 1))
        nrev = rng.choice([2, 2, 3, 3, 4, 5])
        with_os = rng.random() < 0.15
        live = {}
        revs = []
        for rn in range(nrev):
            style = rng.choice(['table', 'stream'])
            if with_os and rng.random() < 0.3:
                style = 'hybrid'
            if rn == 0:
                chosen = [1] + rng.sample(ids[1:], rng.randint(1, len(ids) - 1))
            else:
                old, new = list(live), [i for i in ids if i not in live]
                chosen = rng.sample(old, rng.randint(0, min(3, len(old)))) + rng.sample(new, rng.randint(0, min(2, len(new))))
                if not chosen:
                    chosen = [rng.choice(ids)]
            puts, dels = [], []
            for i in chosen:
                o = ('d', [(b'Type', ('n', b'Catalog')), (b'Pages', ('ref', 2, 0))]) if (i == 1 and rn == 0) else hist_top(rng, ids)
                place = 'plain'
                if with_os and style != 'table' and o[0] != 'st' and rng.random() < 0.6:
                    place = rng.choice([0, 0, 1])
                g = 0
                if place == 'plain':
                    g = live.get(i, rng.choice([0, 0, 0, 0, 1, 3]))
                    if i in live and rng.random() < 0.2:
                        g = live[i] + 1
                live[i] = g
                puts.append((i, g, o, place))
            if rn > 0 and rng.random() < 0.3:
                cand = [i for i in live if i != 1 and i not in [q[0] for q in puts]]
                for i in rng.sample(cand, min(len(cand), 1)):
                    dels.append((i, live[i] + 1))
                    del live[i]
            rng.shuffle(puts)
            revs.append(histgen.Rev(style, puts, dels))
        outs = histgen.assemble(revs, (1, 0), junk=rng.choice([b'', b'', b'', b'junk before the header\n']),
                                version=rng.choice([b'1.5', b'1.4', b'1.7', b'2.0']), entry0=rng.random() < 0.8, upto=[nrev])
        files.append(('os' if with_os else 'plain', outs[-1]['bytes']))
    return files


def gen_hist_cases(rng, tier, impl, reals):
    """rt-hist: the property on documents OBTAINED BY LOADING a file with several cross-reference sections (seeded C01/p1:
    what the loader leaves in the trailer of such a document -- Prev -- goes into the next save).  Two sources of files:
    (a) generated documents of the domain saved by lopdf and updated 1-3 times through IncrementalDocument (hist-prep:
    set_object on existing identifiers, add_object), (b) revisions appended by hand.  Each file is loaded, the loaded
    document saved in BOTH formats, loaded, compared, and cycled a second time."""
    cases = []
    n_inc = 28 if tier == 'quick' else 600
    prep = []
    for k in range(n_inc):
        fmt, doc = gen_doc(rng, reals, True)
        ids = [(int(io[0][0]), int(io[0][1])) for io in sx_parse(doc)[4][1:]]
        g = ObjGen(rng, reals, allow_ref=True)
        revs = []
        for _ in range(rng.choice([1, 1, 2, 3])):
            edits = []
            for _ in range(rng.choice([0, 1, 1, 2, 3])):
                if ids and rng.random() < 0.55:
                    edits.append(L('set', OID(*rng.choice(ids)), robject(rng, g, True)))
                else:
                    edits.append(L('add', robject(rng, g, True)))
            revs.append(L('rev', *edits))
        prep.append(g.finish(L('hist-prep', fmt, doc, *revs)))
    files = []
    for line, o in zip(prep, vlib.run_lines(impl, prep, timeout=600, shards=8)):
        m = re.match(r'^\(histfile x([0-9a-f]*)\)', o)
        if m:
            files.append(('inc-' + line.split(' ')[1], bytes.fromhex(m.group(1))))
    files += [('appended-' + k, f) for k, f in gen_hist_files(rng, 20 if tier == 'quick' else 400)]
    for kind, f in files:
        for fmt in ('table', 'stream'):
            cases.append((L('rt-hist', fmt, xb(f)), {'kind': 'rt-hist-%s-to-%s' % (kind, fmt), 'nontrivial': True}))
    return cases


_MEMO = {}


def mutate(rng, b):
    """damage a saved file: the loader must answer like load_mem (same document or same error class)"""
    b = bytearray(b)
    k = rng.randrange(14)
    def sub(old, new, which='any'):
        idx = [m.start() for m in re.finditer(re.escape(old), bytes(b))]
        if not idx:
            return False
        i = idx[-1] if which == 'last' else (idx[0] if which == 'first' else rng.choice(idx))
        b[i:i + len(old)] = new
        return True
    if k == 0 and b:
        for _ in range(rng.randint(1, 3)):
            b[rng.randrange(len(b))] = rng.choice([0x20, 0x0a, 0x0d, 0x25, 0x28, 0x29, 0x3c, 0x3e, 0x2f, 0x30, 0x39, 0x00, 0xff, 0x6e, 0x66])
    elif k == 1:
        del b[rng.randint(max(0, len(b) - 60), len(b)):]
    elif k == 2:
        m = re.search(rb'startxref\n(\d+)\n%%EOF$', bytes(b))
        if m:
            v = int(m.group(1))
            nv = rng.choice([v + 1, max(0, v - 1), 0, len(b), len(b) + 1, 10 ** 12, v + rng.randint(-9, 9)])
            txt = rng.choice([str(nv), ' ' + str(nv) + '  ', '-1', '+' + str(nv), str(nv) + '.0', ''])
            b[m.start(1):m.end(1)] = txt.encode()
    elif k == 3:
        b[0:0] = rng.choice([b'garbage', b'%PDF-9.9', b'\n\n', b'%PD', b'x' * 30 + b'%%EOF'])
    elif k == 4:
        ms = list(re.finditer(rb'\n(\d{10}) (\d{5}) ([nf]) \n', bytes(b)))
        if ms:
            m = rng.choice(ms)
            r = rng.randrange(4)
            if r == 0:
                v = int(m.group(1)) + rng.choice([1, -1, 7, 100000])
                b[m.start(1):m.end(1)] = b'%010d' % max(0, v)
            elif r == 1:
                b[m.start(2):m.end(2)] = rng.choice([b'00001', b'65535', b'65536', b'99999'])
            elif r == 2:
                b[m.start(3):m.end(3)] = b'f' if m.group(3) == b'n' else b'n'
            else:
                b[m.end(3):m.end(3) + 2] = rng.choice([b'\r\n', b' \r', b'\n\n', b'  '])
    elif k == 5:
        b += rng.choice([b'\n', b'\r\n', b' ', b'\n%%EOF', b'\nstartxref\n0\n%%EOF', b'x' * 600, b'%comment'])
    elif k == 6:
        sub(b'endobj', rng.choice([b'      ', b'endobk', b'', b'endobj endobj']))
    elif k == 7:
        m = list(re.finditer(rb'/Length (\d+)', bytes(b)))
        if m:
            mm = rng.choice(m)
            b[mm.start(1):mm.end(1)] = str(max(0, int(mm.group(1)) + rng.choice([-1, 1, 2, 50, 100000]))).encode() if rng.random() < 0.8 else b'-3'
    elif k == 8:
        sub(b'/Size', rng.choice([b'/Prev 0/Size', b'/Prev 9/Size', b'/Prev -1/Size', b'/Prev 999999/Size', b'/Prev(x)/Size', b'/Siz',
                                   b'/XRefStm 0/Prev 0/Size', b'/XRefStm -1/Prev 0/Size', b'/XRefStm 999999/Prev 0/Size', b'/XRefStm 0/Prev -1/Size',
                                   b'/XRefStm(x)/Prev 0/Size', b'/Encrypt 1 0 R/Size']), 'last')
    elif k == 9:
        sub(b'xref\n', rng.choice([b'xref\r\n', b'xref\r', b'xref \n', b'xreg\n', b'xref\n\n']), 'last')
    elif k == 10:
        sub(b' obj\n', rng.choice([b' obj', b' obj\r\n%c\n', b' obj ', b' obk\n', b'  obj\n']))
    elif k == 11:
        sub(b'trailer\n', rng.choice([b'trailer', b'trailer\r\n', b'trailer %x\n', b'trailor\n', b'']), 'last')
    elif k == 12:
        sub(b'%%EOF', rng.choice([b'%%EOF\n', b'%%EOG', b'%EOF', b'%%EOF%%EOF']), 'last')
    else:
        sub(b'stream\n', rng.choice([b'stream\r\n', b'stream\r', b'stream \t\n', b'stream', b'strean\n']))
    return bytes(b)


def build_file(rng, objs, use_stream, ostm=None, trailer_extra=b'', lie=None):
    """A small PDF assembled by hand.  objs: [(num, gen, body bytes)] written as `num gen obj\n body \nendobj\n`;
    ostm: (container number, [(num, text)], extra dict bytes) -- an unfiltered object stream; its members get type-2
    entries (only possible with a cross-reference stream); lie: {num: entry override} to misplace entries."""
    out = bytearray(b'%PDF-1.5\n%\xbb\xad\xc0\xde\n')
    entries = {}
    for num, gen, body in objs:
        entries[num] = (1, len(out), gen)
        out += b'%d %d obj\n' % (num, gen) + body + b'\nendobj\n'
    if ostm is not None:
        cnum, members, extra = ostm
        head, data, pos = b'', b'', 0
        for i, (num, text) in enumerate(members):
            head += b'%d %d ' % (num, pos)
            data += text + b' '
            pos += len(text) + 1
            if num not in entries or rng.random() < 0.5:
                entries[num] = (2, cnum, i)
        content = head + data
        entries[cnum] = (1, len(out), 0)
        out += b'%d 0 obj\n<</Type/ObjStm/N %d/First %d%s/Length %d>>stream\n' % (cnum, len(members), len(head), extra, len(content)) \
               + content + b'\nendstream\nendobj\n'
    for k, v in (lie or {}).items():
        entries[k] = v
    size = max(entries) + 2 if entries else 1
    start = len(out)
    if use_stream:
        xnum = size - 1
        entries[xnum] = (1, start, 0)
        nums = sorted(entries)
        index, rows = [], b''
        for n_ in nums:
            t, a, b_ = entries[n_]
            if index and index[-1][0] + index[-1][1] == n_:
                index[-1][1] += 1
            else:
                index.append([n_, 1])
            rows += bytes([t]) + (a % 2**32).to_bytes(4, 'big') + (b_ % 65536).to_bytes(2, 'big')
        idx = b' '.join(b'%d %d' % (a, c) for a, c in index)
        out += b'%d 0 obj\n<</Type/XRef/Size %d/W[1 4 2]/Index[%s]%s/Length %d>>stream\n' % (xnum, size, idx, trailer_extra, len(rows)) \
               + rows + b'\nendstream\nendobj\n'
    else:
        out += b'xref\n0 1\n0000000000 65535 f \n'
        for n_ in sorted(entries):
            t, a, b_ = entries[n_]
            if t == 1:
                out += b'%d 1\n%010d %05d n \n' % (n_, a, b_)
        out += b'trailer\n<</Size %d%s>>' % (size, trailer_extra)
    out += b'\nstartxref\n%d\n%%%%EOF' % start
    return bytes(out)


def gen_ext_files(rng, n):
    """files that use what Model/LoaderExt.v adds: Length given as a reference (resolved while parsing, through a chain,
    in a cycle, to a non-integer, to an object kept in an object stream), object streams (members named by the table or
    not, colliding with top-level objects and with each other, damaged index)"""
    files = []
    for _ in range(n):
        kind = rng.randrange(8)
        body = rng.choice([b'abc', b'', b'endstream', b'x' * 20, b'\r\n', b'12345\nendstream\nendobj'])
        objs, ostm, lie, use_stream = [], None, None, rng.random() < 0.5
        if kind == 0:       # Length reference to an integer object, before or after the stream, right or wrong generation
            g = rng.choice([0, 0, 3])
            ln = (2, g, b'%d' % (len(body) + rng.choice([0, 0, 0, 1, -1, 50])))
            st = (1, 0, b'<</Length 2 %d R/K(v)>>stream\n' % rng.choice([g, g, 0]) + body + b'\nendstream')
            objs = [ln, st] if rng.random() < 0.5 else [st, ln]
        elif kind == 1:     # chain of references / of streams
            depth = rng.randint(1, 6)
            st = (1, 0, b'<</Length 2 0 R>>stream\n' + body + b'\nendstream')
            objs = [st]
            for i in range(depth):
                last = i == depth - 1
                if rng.random() < 0.5:
                    objs.append((2 + i, 0, (b'%d' % len(body)) if last else b'%d 0 R' % (3 + i)))
                else:
                    objs.append((2 + i, 0, b'<</Length %s>>stream\nzz\nendstream' % ((b'2') if last else b'%d 0 R' % (3 + i))))
        elif kind == 2:     # cycle, self reference, missing target, non-integer target
            tgt = rng.choice([b'1 0 R', b'2 0 R', b'9 0 R'])
            objs = [(1, 0, b'<</Length %s>>stream\n' % tgt + body + b'\nendstream'),
                    (2, 0, rng.choice([b'1 0 R', b'2 0 R', b'/Name', b'(3)', b'3.0', b'null', b'-1', b'99999']))]
        elif kind == 3:     # the length lives in an object stream
            use_stream = True
            objs = [(1, 0, b'<</Length 5 0 R/A 1>>stream\n' + body + b'\nendstream'), (3, 0, b'<</Type/Catalog>>')]
            ostm = (4, [(5, b'%d' % (len(body) + rng.choice([0, 0, 1, -1, 1000]))), (6, b'[1 2 3]')], b'')
        elif kind == 4:     # plain object stream, members of every direct kind
            use_stream = True
            objs = [(1, 0, b'<</Type/Catalog/P 5 0 R>>')]
            members = [(5, b'<</A(x)/B[1 2.5 /N]>>'), (6, b'42'), (7, b'(str)'), (8, b'/Name'), (9, b'[5 0 R null true]')]
            rng.shuffle(members)
            ostm = (3, members[:rng.randint(0, 5)], rng.choice([b'', b'/Extends 9 0 R']))
        elif kind == 5:     # collisions: a member with the number of a top-level object / two members with one number
            use_stream = True
            objs = [(1, 0, b'<</Type/Catalog>>'), (5, 0, b'(top level 5)')]
            ostm = (3, [(5, b'(member 5)'), (6, b'(first 6)'), (6, b'(second 6)'), (1, b'(member 1)')], b'')
        elif kind == 6:     # the table names a member in ANOTHER container / as a Normal entry elsewhere
            use_stream = True
            objs = [(1, 0, b'<</Type/Catalog>>')]
            ostm = (3, [(5, b'(five)'), (6, b'(six)')], b'')
            lie = {5: (2, rng.choice([3, 4, 1]), 0), 6: rng.choice([(2, 3, 7), (1, 9, 0), (0, 0, 0)])}
        else:               # object stream in a file with a cross-reference TABLE (members unlisted), damaged First / N
            objs = [(1, 0, b'<</Type/Catalog>>')]
            ostm = (3, [(5, b'(five)'), (6, b'<</K 1>>')], b'')
            f = build_file(rng, objs, use_stream, ostm)
            f = f.replace(b'/First ', rng.choice([b'/First ', b'/First -', b'/Firs ', b'/First 9', b'/First 0']), 1)
            f = f.replace(b'/N ', rng.choice([b'/N ', b'/M ', b'/N /x ']), 1)
            files.append(f)
            continue
        files.append(build_file(rng, objs, use_stream, ostm, lie=lie))
    return files


def gen_cases(rng, tier):
    key = tier        # one seed per process: run() needs the same cases twice
    if key in _MEMO:
        return _MEMO[key]
    exe, log = vlib.build_harness('f32disp')
    reals = RealSource(exe)
    n = 330 if tier == 'quick' else 8000
    cases = []
    for k in range(n):
        savable = rng.random() < 0.8
        fmt, doc = gen_doc(rng, reals, savable)
        tag = 'rt' if rng.random() < 0.85 else 'save'
        line = L(tag, fmt, doc)
        cases.append((line, {'kind': '%s-%s-%s' % (tag, fmt, 'savable' if savable else 'any'), 'nontrivial': '(objs (' in line}))
    # the stream format's panic boundary (max_id + 2 overflows): cheap only for the stream format
    cases.append((L('save', 'stream', DOC(b'1.5', b'\xbb\xad', [], [((3, 0), I(7))], 4294967294)), {'kind': 'save-edge', 'nontrivial': True}))
    cases.append((L('save', 'table', DOC(b'1.5', b'\xbb\xad', [], [((3, 0), I(7))], 4294967295)), {'kind': 'save-edge', 'nontrivial': True}))
    # (the cycles_fit boundary max_id = 2^32 - 4 / 2^32 - 3 is not run: the sectioning loop walks over every number up to max_id,
    #  4 * 10^9 iterations on the crate and a unary counter in the extracted model)
    # stale max_id (fixed finding C01-stale-max-id): object numbers above max_id, both formats, incl. the collision max_id + 1
    for fmt in ('table', 'stream'):
        for mx in (0, 1, 2):
            cases.append((L('rt', fmt, DOC(b'1.5', b'\xbb\xad\xc0\xde', [(b'Root', REF(1, 0))],
                                           [((1, 0), D([(b'Type', N(b'Catalog'))])), ((2, 0), I(7)), ((3, 1), ST([(b'Length', I(2))], b'ab'))], mx)),
                          {'kind': 'rt-stale-max-id', 'nontrivial': True}))
    # container nesting around the reader's limit (reader::MAX_NESTING levels, 16 since /repo ce95661): one more and deeper is the
    # known finding C01-deep-nesting
    M = MAX_DEPTH
    for depth in (M - 1, M, M + 1, M + 2, M + 30, 101) if tier == 'quick' else (1, M // 2, M - 1, M, M + 1, M + 2, M + 3, M + 30, 101, 200, 400):
        for kind in ('a', 'd', 'st', 'tr'):
            o = I(7)
            for _ in range(depth - (1 if kind in ('st', 'tr') else 0)):
                o = A([o]) if kind in ('a', 'st') or rng.random() < 0.3 else D([(b'K', o)])
            if kind == 'st':
                obj, tr = ST([(b'Length', I(1)), (b'K', o)], b'x'), []
            elif kind == 'tr':
                obj, tr = NULL, [(b'K', o)]
            else:
                obj, tr = o, []
            cases.append((L('rt', rng.choice(['table', 'stream']), DOC(b'1.5', b'\xbb\xad\xc0\xde', tr, [((1, 0), obj)], 1)),
                          {'kind': 'rt-nesting-%d' % depth, 'nontrivial': True}))
    # damaged files: bytes saved by the implementation itself, then mutated
    impl, log = vlib.build_harness('c01')
    if impl is not None:
        base = [L('save', rng.choice(['table', 'stream']), gen_doc(rng, reals, True)[1]) for _ in range(60 if tier == 'quick' else 1500)]
        outs = vlib.run_lines(impl, base, timeout=600, shards=8)
        files = []
        for o in outs:
            m = re.match(r'^\(saved x([0-9a-f]*) ', o)
            if m:
                files.append(bytes.fromhex(m.group(1)))
        for f in files:
            for _ in range(3):
                cases.append((L('load', xb(mutate(rng, f))), {'kind': 'load-mutated', 'nontrivial': True}))
        for f in gen_ext_files(rng, 64 if tier == 'quick' else 1500):
            cases.append((L('load', xb(f)), {'kind': 'load-ext', 'nontrivial': True}))
            if rng.random() < 0.3:
                cases.append((L('load', xb(mutate(rng, f))), {'kind': 'load-ext-mutated', 'nontrivial': True}))
        # ENCRYPTED documents (Model/LoaderEnc.v + LoaderCrypt.v: the reader's Encrypt branch): documents of the domain encrypted
        # by lopdf itself (enc-prep: RC4 40 / RC4 128 / AESV2 / AESV3 revision 5) with an EMPTY user password (load_mem decrypts
        # on the way) or a non-empty one (load_mem returns the document still encrypted; decrypt(PW) with the user or the owner
        # password follows), saved and loaded in both formats; then files saved from them, damaged
        n_enc = 24 if tier == 'quick' else 600
        plain, prep = [], []
        for k in range(n_enc):
            fmt, doc = gen_doc(rng, reals, True, for_encrypt=True)
            kind = ['v1', 'v2', 'v4', 'r5'][k % 4]
            alpha = b'abcdefXYZ0189 _-!()\\'
            user = b'' if (k // 4) % 2 == 0 else bytes(rng.choice(alpha) for _ in range(rng.randint(1, 12)))
            owner = bytes(rng.choice(alpha) for _ in range(rng.randint(1, 12)))
            if owner == user:
                owner += b'!'
            plain.append((fmt, doc, kind, user, owner))
            prep.append(L('enc-prep', kind, xb(user), xb(owner), doc))
        if tier != 'quick':
            # revision 6 (V5, AES-256, Algorithm 2.B): the same composition, thorough tier only -- one 2.B hash costs about 4 s in
            # the extracted model, an rt-enc case about 22 s; one document with an empty user password (load_mem decrypts on the
            # way) and one with a non-empty one (decrypt(PW) afterwards)
            for user in (b'', b'us(er\\6'):
                fmt, doc = gen_doc(rng, reals, True, for_encrypt=True)
                owner = b'own)er 6'
                plain.append((fmt, doc, 'v5', user, owner))
                prep.append(L('enc-prep', 'v5', xb(user), xb(owner), doc))
        encs = vlib.run_lines(impl, prep, timeout=600, shards=8)
        enc_files = []
        for (fmt, doc, kind, user, owner), o in zip(plain, encs):
            o = vlib.split_impl(o)[0]
            if not o.startswith('(encdoc '):
                continue
            enc = o[len('(encdoc '):-1]
            pw = owner if (user == b'' or rng.random() < 0.4) else user
            cases.append((L('rt-enc', fmt, doc, enc, xb(pw)),
                          {'kind': 'rt-enc-%s-%s-%s' % (kind, fmt, 'auto' if user == b'' else ('owner' if pw == owner else 'user')), 'nontrivial': True}))
            enc_files.append(L('save', fmt, enc))
            # the same with a damaged encryption dictionary / ciphertext: error classes and "left as it is" (no verdict:
            # the plain-document slot holds no document)
            # (AES under an empty user password: a cut ciphertext makes the load itself fail with the decryption error)
            for forced in ([None, None] + (['cut'] if kind in ('v4', 'r5') and user == b'' else [])):
                dmg, what = damage_encdoc(rng, enc, forced)
                if dmg:
                    cases.append((L('rt-enc', fmt, L('none'), dmg, xb(rng.choice([user, owner, b'']))),
                                  {'kind': 'rt-enc-damaged-%s-%s' % (what, 'auto' if user == b'' else 'keep'), 'nontrivial': True}))
        for o in vlib.run_lines(impl, enc_files, timeout=600, shards=8):
            m = re.match(r'^\(saved x([0-9a-f]*) ', o)
            if m:
                f = bytes.fromhex(m.group(1))
                cases.append((L('load', xb(f)), {'kind': 'load-enc', 'nontrivial': True}))
                for _ in range(2):
                    cases.append((L('load', xb(mutate(rng, f))), {'kind': 'load-enc-mutated', 'nontrivial': True}))
        for f in (b'', b'%PDF-1.4', b'%PDF-1.5\n%%EOF\n', b'%PDF-1.4\nstartxref\n0\n%%EOF', b'x' * 40 + b'\nstartxref\n5\n%%EOF',
                  b'%PDF-\xff\n' + b' ' * 30 + b'startxref\n0\n%%EOF'):
            cases.append((L('load', xb(f)), {'kind': 'load-fixed', 'nontrivial': True}))
        cases += gen_hist_cases(rng, tier, impl, reals)
    _MEMO[key] = cases
    return cases


UNMODELLED = {'n': 0}


def compare(model, impl):
    """equal up to real canonicalisation; a model answer that stops at (unmodelled) -- Length given as a reference, object
    streams, a filtered cross-reference stream, Encrypt -- is compared up to that point only (and counted)"""
    if vlib.compare_canon_reals(model, impl):
        return True
    cm, ci = vlib.canon_reals(model), vlib.canon_reals(impl)
    i = cm.find('(unmodelled)')
    if i >= 0 and cm[:i] == ci[:i]:
        UNMODELLED['n'] += 1
        return True
    return False


def sx_parse(s):
    """case text -> nested lists of atoms"""
    stack = [[]]
    for tok in re.findall(r'[()]|[^\s()]+', s):
        if tok == '(':
            stack.append([])
        elif tok == ')':
            top = stack.pop()
            stack[-1].append(top)
        else:
            stack[-1].append(tok)
    return stack[0][0]


def sx_print(x):
    return x if isinstance(x, str) else '(' + ' '.join(sx_print(y) for y in x) + ')'


def sx_nest(o):
    """container nesting depth of an object term (a stream dictionary counts as one level)"""
    if isinstance(o, str) or not o:
        return 0
    if o[0] == 'a':
        return 1 + max([sx_nest(x) for x in o[1:]] or [0])
    if o[0] == 'd':
        return 1 + max([sx_nest(kv[1]) for kv in o[1:] if len(kv) == 2] or [0])
    if o[0] == 'st':
        return sx_nest(o[1])
    return 0


def _max_nesting():
    """reader::MAX_NESTING of the repository under test (the Coq side reads the same constant through Gen/Lex.v)"""
    src = open(os.path.join(vlib.REPO, 'src', 'reader.rs')).read()
    m = re.search(r'pub const MAX_NESTING: usize = (\d+);', src)
    if not m:
        raise RuntimeError('props/c01.py: pub const MAX_NESTING not found in src/reader.rs')
    return int(m.group(1))


MAX_DEPTH = _max_nesting()


def classify(line, tags, model_out, impl_out, verdict):
    """known-finding class, decided on the INPUT: C01-deep-nesting = some object or the trailer nests containers deeper than
    reader::MAX_NESTING (mirrors known_deep in coq/Spec/SaveSpec.v)"""
    try:
        case = sx_parse(line)
        if case[0] not in ('save', 'rt') or case[2][0] != 'doc':
            return None
        doc = case[2]
        if sx_nest(doc[3]) > MAX_DEPTH or any(sx_nest(io[1]) > MAX_DEPTH for io in doc[4][1:]):
            return 'C01-deep-nesting'
    except Exception:
        return None
    return None


def shrink(line, fails):
    """drop objects, then trailer entries, then object sub-terms, while the case keeps failing"""
    try:
        case = sx_parse(line)
        doc = case[2]
        if doc[0] != 'doc':
            return line
    except Exception:
        return line
    best = line
    for part in (4, 3):          # (objs ...), (d trailer...)
        i = 1
        while i < len(doc[part]):
            saved = doc[part][i]
            del doc[part][i]
            cand = sx_print(case)
            if fails(cand):
                best = cand
            else:
                doc[part].insert(i, saved)
                i += 1
    return best


SPEC = {
    'gen_parts': ['Lex', 'SaveFmt'],
    'allowed_axioms': (),
    'runner': 'c01',
    'bin': 'c01',
    'gen_cases': gen_cases,
    'compare': compare,
    'shrink': shrink,
    'classify': classify,
    'rule': 'generated documents (0-9 objects of all ten kinds nested to depth 3, streams with tricky bodies, adversarial bytes in names/'
            'strings/keys, sparse object numbers, generations up to 65535, f32 reals printed by Rust itself, version/binary-mark variants, '
            'trailers with and without bookkeeping keys; 20% outside the property domain) saved in both cross-reference formats: model save '
            'bytes and post-save document = Document::save_to byte for byte; direct verdict = save_to, load_mem, compare, second cycle; '
            'non-trivial = at least one object; distinct = distinct case text.  ENCRYPTED documents (rt-enc): documents of the domain '
            'encrypted by lopdf itself (RC4 40 / RC4 128 / AESV2 / AESV3 revision 5; empty user password = load_mem decrypts on the way, '
            'non-empty = it returns the document still encrypted and decrypt(user or owner password) follows), saved and loaded in both '
            'formats: model (Model/LoaderEnc.v + LoaderCrypt.v) = save_to + load_mem + decrypt, direct verdict = what comes back is the plain '
            'document in the property sense; the same with a damaged encryption dictionary / ciphertext (error classes, no verdict); files '
            'saved from encrypted documents, as they are and damaged (load).  DOCUMENTS OBTAINED BY LOADING (rt-hist): files with several '
            'cross-reference sections (documents saved by lopdf and updated 1-3 times through IncrementalDocument; 2-5 revisions appended by hand, '
            'table / stream sections mixed, freed objects, generation bumps) are loaded and the loaded document goes through save (both formats) '
            '-> load -> compare -> second cycle, model and direct verdict as for generated documents',
    'extra_trusted': ['C01: reals are compared as f32 bit patterns (exact decimal->f32 rounding in lib/vlib.py); '
                      'f32 Display/FromStr are Rust std (assumed: from_str(to_string x) = x, Display is shortest round-trip without exponent)'],
    'partial_note': 'PROVED (C01_full): for every document of the domain outside the known class, both cross-reference formats: load (save d) = '
                    'reloaded d with same_doc d (reloaded d), and a second cycle on what came back returns the same document again (same as the '
                    'first reload and as the original). Remaining hypotheses: each of the two files below 4 GiB (small_file for the second file is '
                    'NOT derived from the first: normal forms and Size may differ in length), and for the stream format one spare object number '
                    'for the second cycle (cycles_fit). C01_full_enc: the same for documents whose trailer carries Encrypt (savable_enc), read by '
                    'Model/LoaderEnc.v -- the decrypt attempt gets exactly the reloaded document; C05_encrypt_save_load_decrypt composes it with '
                    'the security handler. Loader model: Length given as a reference, object streams, filtered cross-reference streams and Encrypt '
                    'are answered (unmodelled) by Model/Loader.v; LoaderExt.v / LoaderEnc.v / LoaderCrypt.v answer them (conservative extensions, '
                    'tied by correspondence; a filtered stream without a filter model stays unmodelled and is counted in the notes). '
                    'Open known finding: container nesting deeper than reader::MAX_NESTING (16) is not reloaded (price of the repairs 61b571d / ce95661).',
}

MANIFEST = {
    'level_text': 'Machine-checked proof (Coq) about a branch-faithful model of the save pipeline (Model/Save.v, both cross-reference formats) '
                  'and of Reader::read (Model/Loader.v): C01_full -- for every document of the domain outside the recorded known class, in both '
                  'formats, load (save d) succeeds, remembers the format and returns a document with the same version, the same identifiers with '
                  'every object in normal form (an integral real becomes the integer, nothing else changes) and the same trailer apart from '
                  'bookkeeping keys (the stream format additionally keeps its own cross-reference stream object, which is bookkeeping), and a '
                  'second save/load cycle on that document returns the same document again (C01_full_slack: with ONE size hypothesis, on the first '
                  'file: |save d| + slack < 2^32, slack 0 for the table format and 16 for the stream format; C01_second_file_size proves that the '
                  'file written from the reloaded document is at most that much longer). Built from: offsets_exact and startxref_exact '
                  '(byte-counter invariant, all documents), the printer/parser round trip of every object incl. streams (C14 object_rt), header / '
                  'binary mark / startxref / trailer read-back, the printed cross-reference table parsed back, and lopdf cross-reference stream '
                  'writer shown to BE the ISO 32000-1 7.5.8 encoder of Spec/XrefSpec.v at W = [1 4 2] so that C02 decoder theorem reads it back. '
                  'The model is tied to the crate by byte-for-byte equality of model and Document::save_to output, loader correspondence on saved '
                  'and mutated files, and the direct save->load->compare verdict on the crate (two cycles, both formats, default features and '
                  '--no-default-features).',
    'technique': 'Coq proof (byte-counter invariant, printer/parser round trip by mutual induction, refinement of the xref-stream writer to the spec encoder, loader composition) + byte-for-byte differential correspondence',
    'design_ref': 'DESIGN.md 6 C01, notes/C01.md',
    'level_note': 'Trusted: Coq kernel; translator parts SaveFmt/Lex; extraction + OCaml driver; Rust harness; f32 Display/FromStr assumptions of DESIGN 3. '
                  'Rungs 1-3 complete: C01_full is a theorem for both formats and two cycles. Hypotheses that remain: savable (data-model invariants; '
                  'max_id need NOT bound the object numbers since the repair 19ab1a6), known_deep = false (open known finding), small_file_slack of '
                  'the FIRST file only (u32 offsets; the bound for the second file is derived: Proofs/SaveSizeProofs.v), cycles_fit (stream format: one spare '
                  'object number for the second cycle). Loader features a saved file never uses (Length as reference, object streams, filtered '
                  'xref streams, Encrypt) are outside Model/Loader.v and tied by correspondence through Model/LoaderExt.v / LoaderEnc.v / LoaderCrypt.v '
                  '(C01_full_enc: a document whose trailer carries Encrypt is handed to the decrypt attempt exactly as reloaded; '
                  'C01_loader_enc_agrees: no Encrypt entry = the reader of LoaderExt.v).',
    'known_findings': ['C01-deep-nesting (open)', 'C01-stale-max-id (fixed 19ab1a6)'],
}


def seq_pass(ctx):
    """same cases through a harness built with --no-default-features (sequential reader): outputs and verdicts must be identical"""
    if os.environ.get('C01_SKIP_SEQ'):
        ctx.notes.append('no-default-features pass skipped (C01_SKIP_SEQ set: hand-made mutation run)')
        return
    cases = gen_cases(ctx.rng, ctx.tier)
    lines = [c[0] for c in cases]
    full, _ = vlib.build_harness('c01')
    seq, log = vlib.build_harness('c01', 'seq')
    if full is None:
        return
    if seq is None:
        ctx.notes.append('sequential-reader harness (--no-default-features) did not build: ' + log[-200:])
        return
    a = vlib.run_lines(full, lines, timeout=900, shards=8)
    b = vlib.run_lines(seq, lines, timeout=900, shards=8)
    diff = [i for i in range(len(lines)) if a[i] != b[i]]
    def tally(outs):
        t = {'ok': 0, 'skip': 0, 'FAIL': 0}
        for o in outs:
            v = o.rsplit(' ||| ', 1)[-1].split(' ')[0] if ' ||| ' in o else 'FAIL'
            t[v if v in t else 'FAIL'] += 1
        return 'ok %(ok)d / skip %(skip)d / FAIL %(FAIL)d' % t
    ctx.notes.append('feature configurations, same %d cases through both harness builds: default features (rayon parallel reader) verdicts %s; '
                     '--no-default-features (sequential reader) verdicts %s; outputs differing between the two: %d'
                     % (len(lines), tally(a), tally(b), len(diff)))
    if diff:
        i = diff[0]
        fail = ' ||| FAIL' in b[i]
        ctx.violation('seq_%d' % ctx.seed, {
            'kind': 'property-fails-on-implementation' if fail else 'feature-configurations-disagree', 'property': 'C01',
            'features': '--no-default-features', 'case': lines[i], 'default_out': a[i][:2000], 'seq_out': b[i][:2000],
            'n_differences': len(diff)}, found_input=fail)


def run(ctx):
    seq_pass(ctx)
    UNMODELLED['n'] = 0
    rc = propcheck.standard_check(ctx, SPEC)
    # record how many cases were compared only up to an (unmodelled) answer of the loader model
    import json
    p = os.path.join(vlib.ROOT, 'evidence', 'C01.json')
    try:
        ev = json.load(open(p))
        ev['coverage'].setdefault('notes', []).append('cases compared up to an (unmodelled) loader answer: %d' % UNMODELLED['n'])
        json.dump(ev, open(p, 'w'), indent=1)
    except OSError:
        pass
    return rc
