"""C03 -- saved files are valid PDF for a strict third-party reader.

Two stages per case:
  1. harness bin c03 builds the document with the real crate, calls the REAL Document::save_to /
     IncrementalDocument::save_to and prints every produced file (hex) with the document as it was
     before the save and the trailer after it;
  2. the strict reader of coq/Spec/StrictReader.v (extracted, runner c03) is run on those very bytes.
Verdict FAIL when the strict reader rejects a file produced from a document of the property's
domain, when it recovers different objects / trailer / version than were saved, or when an
incremental file does not start with the previous file verbatim.
Negative controls (documents outside the domain and byte-level damage of real output) must be
REJECTED by the strict reader with the expected rule: they keep the oracle honest on every run."""
import os, re, time
import propcheck, vlib
from sxg import *
from objgen import ObjGen, RealSource, rbytes

SKIP = [b'ObjStm', b'XRef', b'Linearized']
TRICKY_BODIES = [b'endstream', b'\nendstream', b'endstream\nendobj\n', b'endobj\n', b'%%EOF', b'startxref\n12\n%%EOF', b'stream\n', b'\r',
                 b'\r\n', b'\n', b'1 0 obj\n<<>>\nendobj\n', b'xref\n0 1\n0000000000 65535 f \ntrailer\n<<>>', b'%PDF-1.9\n', b'>>', b'<<',
                 b'trailer', b'0000000000 65535 f \n']
MARK = bytes([0xBB, 0xAD, 0xC0, 0xDE])


# ------------------------------------------------------------------------------------------
# sx helpers (python side)
# ------------------------------------------------------------------------------------------
def sx_parse(s):
    stack = [[]]
    for tok in re.findall(r'[()]|[^\s()]+', s):
        if tok == '(':
            stack.append([])
        elif tok == ')':
            top = stack.pop()
            stack[-1].append(top)
        else:
            stack[-1].append(tok)
    if len(stack) != 1 or len(stack[0]) != 1:
        raise ValueError('bad sx')
    return stack[0][0]


def sx_print(x):
    return x if isinstance(x, str) else '(' + ' '.join(sx_print(y) for y in x) + ')'


def file_line(atom, chunk=256):
    """(file xHEX xHEX ...): the runner concatenates the chunks"""
    h = atom[1:]
    return '(file ' + ' '.join('x' + h[i:i + chunk] for i in range(0, max(len(h), 1), chunk)) + ')'


def unhex(a):
    return bytes.fromhex(a[1:])


def real_bits(text_hex_atom):
    try:
        return vlib.f32_bits_of_decimal(unhex(text_hex_atom).decode('latin-1'))
    except ValueError:
        return None


def same_obj(exp, got):
    """expected (in memory) vs recovered (from the file); numbers are compared by value:
    a real is the f32 nearest to the decimal spelled in the file, and a real written without a
    fraction (lopdf prints 5.0 as 5) may come back as the integer of the same value"""
    if isinstance(exp, list) and exp and exp[0] == 'r':
        eb = real_bits(exp[1])
        if isinstance(got, list) and got and got[0] == 'r':
            return eb is not None and eb == real_bits(got[1])
        if isinstance(got, list) and got and got[0] == 'i':
            gb = vlib.f32_bits_of_decimal(got[1])
            # "-0" is an integer token of value 0: the sign of a zero is not a property of the number
            return eb is not None and (eb == gb or (eb & 0x7fffffff == 0 and gb & 0x7fffffff == 0))
        return False
    if isinstance(exp, str) or isinstance(got, str):
        return exp == got
    return len(exp) == len(got) and all(same_obj(a, b) for a, b in zip(exp, got))


def dropped(o):
    """the writer's documented skip rule: Type ObjStm / XRef, or Linearized (the key, when Type is not a name)"""
    if not (isinstance(o, list) and o and o[0] in ('d', 'st')):
        return False
    d = o if o[0] == 'd' else o[1]
    ty = None
    lin = False
    for kv in d[1:]:
        k = unhex(kv[0])
        if k == b'Type' and ty is None:
            ty = kv[1]
        if k == b'Linearized':
            lin = True
    if isinstance(ty, list) and ty[0] == 'n':
        return unhex(ty[1]) in SKIP
    return lin


# ------------------------------------------------------------------------------------------
# generator
# ------------------------------------------------------------------------------------------
def rbody(rng):
    r = rng.random()
    if r < 0.12:
        return b''
    if r < 0.4:
        return rbytes(rng, 40)
    if r < 0.7:
        return b''.join(rng.choice(TRICKY_BODIES + [rbytes(rng, 8)]) for _ in range(rng.randint(1, 4)))
    if r < 0.8:
        return bytes([rng.choice(b'AB \n')]) * rng.randint(60, 400)          # compressible
    return bytes(rng.randint(0, 255) for _ in range(rng.randint(1, 200)))


def rentries(rng, g, depth, n=None):
    keys = []
    for _ in range(rng.choice([0, 1, 2, 4]) if n is None else n):
        kk = rbytes(rng, 6)
        if kk not in keys and kk not in (b'Length', b'Type', b'Linearized', b'Filter', b'DecodeParms', b'Prev', b'Encrypt'):
            keys.append(kk)
    return [(kk, g.obj(depth)) for kk in keys]


def rstream(rng, g, sops, oid, lenref=None):
    """a stream object; sops collects API operations for it"""
    body = rbody(rng)
    ents = rentries(rng, g, 2)
    if rng.random() < 0.3:
        ents.insert(rng.randint(0, len(ents)), (b'Type', N(rng.choice([b'XObject', b'Metadata', b'Font', b'ObjSt', b'XRefs']))))
    r = rng.random()
    if lenref is not None:
        ents.insert(rng.randint(0, len(ents)), (b'Length', REF(lenref[0], lenref[1])))
        return ST(ents, body), len(body)
    if r < 0.45:
        ents.insert(rng.randint(0, len(ents)), (b'Length', I(len(body))))      # struct literal with the right Length
    else:
        # through the API: Stream::new computes Length; a stale one must be replaced
        if rng.random() < 0.5:
            ents.insert(rng.randint(0, len(ents)), (b'Length', I(rng.choice([0, 7, len(body) + 1, 10 ** 6]))))
        ops = ['new']
        for _ in range(rng.choice([0, 0, 1, 2, 3])):
            k = rng.random()
            if k < 0.3:
                ops.append('compress')
            elif k < 0.5:
                ops.append('decompress')
            elif k < 0.75:
                ops.append(L('setc', xb(rbody(rng))))
            else:
                ops.append(L('setp', xb(rbody(rng))))
        sops.append(L(OID(*oid), *ops))
    return ST(ents, body), None


def robject(rng, g, sops, oid):
    r = rng.random()
    if r < 0.3:
        return rstream(rng, g, sops, oid)[0]
    if r < 0.65:
        ents = rentries(rng, g, 2)
        if rng.random() < 0.4:
            ents.append((b'Type', N(rng.choice([b'Catalog', b'Pages', b'Page', b'Font']))))
        return D(ents)
    return g.obj(rng.choice([0, 1, 2, 3]))


def rtrailer(rng, g, ids):
    ents = []
    if ids and rng.random() < 0.8:
        i = rng.choice(ids)
        ents.append((b'Root', REF(i[0], i[1])))
    if ids and rng.random() < 0.4:
        i = rng.choice(ids)
        ents.append((b'Info', REF(i[0], i[1])))
    if rng.random() < 0.4:
        ents.append((b'ID', A([H(rbytes(rng, 16)), H(rbytes(rng, 16))])))
    ents += rentries(rng, g, 2, n=rng.choice([0, 0, 1, 2]))
    # stale bookkeeping keys (a document loaded from a file with the other format): set() replaces them in place
    for k, v in ((b'Size', I(rng.randint(0, 50))), (b'Type', N(rng.choice([b'XRef', b'Foo']))), (b'W', A([I(1), I(2), I(1)])),
                 (b'Index', A([I(0), I(3)])), (b'Length', I(7)), (b'Filter', N(b'FlateDecode'))):
        if rng.random() < 0.1:
            ents.insert(rng.randint(0, len(ents)), (k, v))
    seen = set()
    out = []
    for k, v in ents:
        if k not in seen:
            seen.add(k)
            out.append((k, v))
    return out


def rversion(rng):
    return rng.choice(['1.0', '1.3', '1.4', '1.5', '1.7', '2.0', '1.5', '1.7', '10.25'])


def rmark(rng):
    if rng.random() < 0.6:
        return MARK
    return bytes(rng.randint(128, 255) for _ in range(rng.randint(4, 8)))


def gen_doc(rng, reals, n=None, outside=None):
    """returns (doc text, sops text, ids, max_id); outside = name of a domain violation to inject"""
    g = ObjGen(rng, reals, allow_ref=True)
    if n is None:
        n = rng.choice([0, 1, 1, 2, 3, 4, 6, 9, 12, 12, 20])
    span = rng.choice([n, n + 2, 2 * n + 3, 4 * n + 40])
    nums = sorted(rng.sample(range(1, span + 1), min(n, span)))
    ids = [(i, rng.choice([0, 0, 0, 0, 1, 2, 65535, rng.randint(0, 65535)])) for i in nums]
    max_id = (max(nums) if nums else 0) + rng.choice([0, 0, 0, 1, 5])
    sops = []
    objects = []
    # indirect Length: a stream whose Length is a reference to an integer object
    st_id = len_id = None
    if len(ids) >= 2 and rng.random() < 0.15:
        st_id, len_id = rng.sample(ids, 2)
    blen = 0
    for oid in ids:
        if oid == st_id:
            st, blen = rstream(rng, g, sops, oid, lenref=len_id)
            objects.append((oid, st))
        elif oid == len_id:
            objects.append((oid, None))
        else:
            objects.append((oid, robject(rng, g, sops, oid)))
    objects = [(oid, o if o is not None else I(blen)) for oid, o in objects]
    # objects the writer drops by design
    if objects and rng.random() < 0.1:
        k = rng.randrange(len(objects))
        t = rng.choice(SKIP)
        ents = [(b'Type', N(t))] if rng.random() < 0.7 else [(b'Linearized', I(1))]
        if objects[k][0] not in (st_id, len_id):
            objects[k] = (objects[k][0], D(ents) if rng.random() < 0.5 else ST(ents + [(b'Length', I(2))], b'ab'))
            sops = [s for s in sops if not s.startswith('(' + OID(*objects[k][0]) + ' ')]
    version, mark = rversion(rng), rmark(rng)
    trailer = rtrailer(rng, g, [o for o, _ in objects])
    if outside == 'short-mark':
        mark = bytes(rng.randint(128, 255) for _ in range(rng.randint(0, 3)))
    elif outside == 'bad-version':
        version = rng.choice(['', '1.4 ', 'x', '1', '1.', '.5', '1.4%'])
    elif outside == 'object-zero':
        objects.insert(0, ((0, 0), I(1)))
    elif outside == 'two-generations':
        if not objects:
            objects.append(((max_id + 1, 0), I(1)))
            max_id += 1
        keep = [oo for oo, ob in objects if not dropped(sx_parse(ob.replace('@', 'A')))]
        if not keep:
            objects.append(((max_id + 1, 0), I(1)))
            max_id += 1
            keep = [objects[-1][0]]
        o = keep[0]
        objects.append(((o[0], (o[1] + 1) % 65536 if o[1] < 65535 else 0), I(2)))
        objects.sort(key=lambda p: p[0])
    elif outside == 'above-max-id':
        objects.append(((max_id + rng.choice([1, 3]), 0), I(3)))
    elif outside == 'stale-length':
        body = b'0123456789'
        objects.append(((max_id + 1, 0), ST([(b'Length', I(rng.choice([0, 9, 11, 12, 500])))], body)))
        max_id += 1
    elif outside == 'no-length':
        objects.append(((max_id + 1, 0), ST([], b'abc')))
        max_id += 1
    elif outside == 'trailer-prev':
        trailer.append((b'Prev', I(rng.choice([0, 9, 10 ** 6]))))
    doc = DOC(version.encode('utf-8'), mark, trailer, objects, max_id)
    # ids later revisions may replace: written objects, except the integer another stream's Length refers to
    # (overwriting it with something else is the editor's error, not the writer's)
    written = [o for o, ob in objects if not dropped(sx_parse(ob.replace('@', 'A')))]
    g.frozen_ids = [len_id]
    return g.finish(doc), L('sops', *sops), written, max_id, g


OUTSIDE = {     # domain violation -> rules the strict reader may name (any of them)
    'short-mark': ('binary-comment',),
    'bad-version': ('header',),
    'object-zero': ('unaccounted-bytes', 'overlapping-spans', 'entry-offset'),
    'two-generations': ('unaccounted-bytes', 'overlapping-spans', 'entry-offset'),
    'stale-length': ('stream-Length', 'object-syntax'),
    'no-length': ('stream-Length',),
    'trailer-prev': ('Prev', 'startxref-target', 'xref-keyword', 'unaccounted-bytes', 'eof-marker', 'entry-offset', 'fuel'),
}


def gen_revs(rng, reals, g, ids, max_id, fmt, nrev):
    """edits for nrev incremental updates.  New objects get the ids add_object will hand out; the
    generator tracks them so that later revisions can replace them."""
    revs = []
    live = [i for i in ids if i not in getattr(g, 'frozen_ids', [])]   # ids a revision may replace
    # max_id of the reloaded document = highest object number in the cross-reference data:
    # the XRef stream itself (old max_id + 1) for the stream format, the highest written object for the table
    cur_max = max_id + 1 if fmt == 'stream' else max([i for i, _ in ids] + [0])
    for _ in range(nrev):
        edits = []
        sops = []
        for _ in range(rng.choice([0, 1, 1, 2, 3, 5])):
            r = rng.random()
            if r < 0.45 or not live:
                cur_max += 1
                oid = (cur_max, 0)
                o = robject(rng, g, sops, oid)
                edits.append(L('add', o))
                live.append(oid)
            elif r < 0.8:
                oid = rng.choice(live)
                o = robject(rng, g, sops, oid)
                edits.append(L('set', OID(*oid), o))
            else:
                oid = rng.choice(live)
                edits.append(L('clone', OID(*oid)))
        for s in sops:
            m = re.match(r'\(\((\d+) (\d+)\) (.*)\)$', s)
            edits.append(L('sop', OID(int(m.group(1)), int(m.group(2))), m.group(3)))
        revs.append(L('rev', *edits))
        if fmt == 'stream':
            cur_max += 1           # the XRef stream of this revision
    return revs


_MEMO = {}


def gen_cases(rng, tier):
    if tier in _MEMO:
        return _MEMO[tier]
    exe, log = vlib.build_harness('f32disp')
    reals = RealSource(exe)
    n = 260 if tier == 'quick' else 6000
    cases = []
    for k in range(n):
        fmt = rng.choice(['table', 'stream'])
        r = rng.random()
        if r < 0.12:
            out = rng.choice(sorted(OUTSIDE) + ['above-max-id'])
            doc, sops, ids, max_id, g = gen_doc(rng, reals, outside=out)
            if out == 'above-max-id':
                # in the domain since /repo 19ab1a6: Document::save raises max_id to the largest object number first
                cases.append((L('plain', fmt, doc, sops), {'kind': 'plain-above-max-id', 'nontrivial': True}))
            else:
                cases.append((L('plain', fmt, doc, sops), {'kind': 'outside-' + out, 'outside': out, 'nontrivial': True}))
        elif r < 0.55:
            doc, sops, ids, max_id, g = gen_doc(rng, reals)
            cases.append((L('plain', fmt, doc, sops), {'kind': 'plain-' + fmt, 'nontrivial': len(ids) >= 1}))
        else:
            doc, sops, ids, max_id, g = gen_doc(rng, reals)
            nrev = rng.choice([1, 1, 2, 3, 4])
            revs = gen_revs(rng, reals, g, ids, max_id, fmt, nrev)
            line = g.finish(L('inc', fmt, doc, sops, *revs))
            cases.append((line, {'kind': 'inc%d-%s' % (nrev, fmt), 'nontrivial': True}))
    # long histories (C03_strict_history is about ANY number of updates): small documents, 5-6 updates, both formats, in every tier --
    # a fault that shows only from the third update on (Prev skipping a revision, a counter drifting with the number of
    # repeated header lines) has several failing inputs on every run
    for k in range(4 if tier == 'quick' else 40):
        for fmt in ('table', 'stream'):
            doc, sops, ids, max_id, g = gen_doc(rng, reals, n=rng.choice([1, 2, 3, 5]))
            nrev = rng.choice([5, 6])
            revs = gen_revs(rng, reals, g, ids, max_id, fmt, nrev)
            cases.append((g.finish(L('inc', fmt, doc, sops, *revs)), {'kind': 'hist%d-%s' % (nrev, fmt), 'nontrivial': True}))
    # many objects, sparse ids (xref subsections / Index pairs, offsets of 4-6 digits)
    for big in ([60, 300] if tier == 'quick' else [60, 300, 1000, 2500]):
        for fmt in ('table', 'stream'):
            doc, sops, ids, max_id, g = gen_doc(rng, reals, n=big)
            revs = gen_revs(rng, reals, g, ids, max_id, fmt, 1)
            cases.append((g.finish(L('inc', fmt, doc, sops, *revs)), {'kind': 'big-%s' % fmt, 'nontrivial': True}))
    # file-size / digit-count families: offsets of 6 digits (files of 120 KB; 240 KB in the thorough tier -- the extracted reader's
    # List.length is not tail recursive, files above ~300 KB overflow the OCaml stack) from a few large streams (bodies holding
    # every byte value and the keywords a careless reader resynchronises on), every generation 65535 ("65535 n" entries and
    # 0xFFFF in field 3 of a cross-reference stream), many tiny objects (long subsections / one long Index pair), and dense
    # runs broken by single gaps (many one-entry subsections); each followed by one incremental update.
    # lopdf's writer never puts anything after %%EOF, so "trailing data after startxref" cannot be produced by save;
    # the strict runner is quadratic in (objects x file size): more than ~2500 objects is left to the thorough tier of C01.
    def direct_doc(objects, max_id, trailer=None):
        g = ObjGen(rng, reals, allow_ref=True)
        doc = DOC(b'1.7', MARK, trailer if trailer is not None else [(b'Root', REF(objects[0][0][0], objects[0][0][1]))], objects, max_id)
        g.frozen_ids = []
        return g, g.finish(doc), [o for o, _ in objects]

    def big_body(k, size):
        unit = bytes(range(256)) + b'\nendstream\nendobj\n%d 0 obj\nxref\ntrailer\nstartxref\n%%%%EOF\n' % k
        return (unit * (size // len(unit) + 1))[:size]

    fams = []
    for size in ([30000] if tier == 'quick' else [30000, 60000]):
        objs = [((1, 0), D([(b'Type', N(b'Catalog'))]))]
        for k in range(2, 6):
            body = big_body(k, size + k)
            objs.append(((k, 0), ST([(b'Length', I(len(body)))], body)))
        objs.append(((9, 7), A([I(1), REF(2, 0), S(b'after the big streams')])))
        fams.append(('digits6-%dk' % (4 * size // 1000), objs, 9))
    fams.append(('gen65535', [((k, 65535), D([(b'K', I(k)), (b'R', REF(max(1, k - 1), 65535))])) for k in (1, 2, 3, 5, 8, 13, 14, 15, 40)], 41))
    nmany = 1000 if tier == 'quick' else 2500
    fams.append(('many-tiny', [((k, 0), I(k)) for k in range(1, nmany + 1)], nmany))
    fams.append(('many-gaps', [((k, k % 3), I(k)) for k in range(1, nmany // 2) if k % 7 != 0], nmany // 2 + 3))
    for name, objs, mx in fams:
        for fmt in ('table', 'stream'):
            g, doc, ids = direct_doc(objs, mx)
            revs = gen_revs(rng, reals, g, ids, mx, fmt, 1)
            cases.append((g.finish(L('inc', fmt, doc, L('sops'), *revs)), {'kind': 'size-%s-%s' % (name, fmt), 'nontrivial': True}))
    # stale bookkeeping keys in the trailer of a document whose numbers form ONE run from 1 (a document loaded from a file in the
    # other format, or saved before): every key the writer owns must be overwritten or removed, also the ones whose default would do
    # (Index [0 Size]).  Randomly this meets "stream format + contiguous numbers + stale Index" once or twice per quick run only.
    for nobj in (1, 2, 5, 9):
        for stale in ([(b'Index', A([I(0), I(3)]))], [(b'Index', A([I(0), I(8), I(9), I(2)])), (b'Size', I(50))],
                      [(b'W', A([I(1), I(2), I(1)])), (b'Length', I(7)), (b'Type', N(b'Foo')), (b'Filter', N(b'FlateDecode')), (b'Index', A([I(1), I(1)]))]):
            for fmt in ('table', 'stream'):
                objs = [((k, 0), D([(b'K', I(k))]) if k > 1 else D([(b'Type', N(b'Catalog'))])) for k in range(1, nobj + 1)]
                g, doc, ids = direct_doc(objs, nobj, trailer=[(b'Root', REF(1, 0))] + stale)
                revs = gen_revs(rng, reals, g, ids, nobj, fmt, 1)
                cases.append((g.finish(L('inc', fmt, doc, L('sops'), *revs)), {'kind': 'stale-bookkeeping-%s' % fmt, 'nontrivial': True}))
    _MEMO[tier] = cases
    return cases


# ------------------------------------------------------------------------------------------
# byte-level negative controls: damage real output, the strict reader must name the rule
# ------------------------------------------------------------------------------------------
def controls(file_bytes, is_stream):
    """list of (name, damaged bytes, acceptable rules)"""
    out = []
    b = file_bytes
    m = re.search(rb'\nstartxref\n(\d+)\n%%EOF$', b)
    if m:
        v = int(m.group(1))
        out.append(('startxref+1', b[:m.start(1)] + str(v + 1).encode() + b[m.end(1):],
                    ('startxref-target', 'xref-keyword', 'eof-marker')))
        out.append(('no-eof', b[:-5], ('eof-marker',)))
    if not is_stream:
        ms = list(re.finditer(rb'(\d{10}) (\d{5}) n \n', b))
        if ms:
            e = ms[len(ms) // 2]
            out.append(('entry-19-bytes', b[:e.end() - 2] + b'\n' + b[e.end():], ('entry-20-bytes', 'subsection-header', 'trailer')))
            out.append(('entry-eol-1-byte-padded', b[:e.end() - 2] + b'\n ' + b[e.end():], ('entry-20-bytes',)))
            off = int(e.group(1))
            out.append(('entry-offset+1', b[:e.start(1)] + b'%010d' % (off + 1) + b[e.end(1):], ('entry-offset',)))
            out.append(('entry-freed', b[:e.end() - 3] + b'f' + b[e.end() - 2:], ('unaccounted-bytes',)))
        ms = re.search(rb'/Size (\d+)', b[b.rfind(b'trailer'):]) if b'trailer' in b else None
        hdrs = [int(x) for x in re.findall(rb'(?:^|\n)(\d+) \d+ obj\n', b)]
        if ms and hdrs and max(hdrs) >= 10 ** (len(ms.group(1)) - 1):
            t = b.rfind(b'trailer')
            out.append(('Size=max-id', b[:t + ms.start(1)] + str(max(hdrs)).encode().rjust(len(ms.group(1)), b'0') + b[t + ms.end(1):],
                        ('Size',)) if len(str(max(hdrs))) <= len(ms.group(1)) else ('skip', b, ()))
    else:
        m2 = re.search(rb'/W\[1 4 2\]', b)
        if m2:
            out.append(('W-narrow', b[:m2.start()] + b'/W[1 4 1]' + b[m2.end():], ('xref-stream-Length', 'xref-stream-W')))
            out.append(('W-two', b[:m2.start()] + b'/W[1 4  ]' + b[m2.end():], ('xref-stream-W',)))
    m3 = re.search(rb'/Length (\d+)>>stream\n', b)
    # (a body ending in CR is skipped: one byte less is then the same file under ISO's optional EOL before endstream)
    if m3 and not is_stream and int(m3.group(1)) >= 1 and len(str(int(m3.group(1)) - 1)) == len(m3.group(1)) \
            and b[m3.end() + int(m3.group(1)) - 1:m3.end() + int(m3.group(1))] != b'\r':
        out.append(('Length-1', b[:m3.start(1)] + str(int(m3.group(1)) - 1).encode() + b[m3.end(1):], ('stream-Length',)))
    return [c for c in out if c[0] != 'skip']


# ------------------------------------------------------------------------------------------
# evaluation
# ------------------------------------------------------------------------------------------
def expected_files(impl_sx):
    """[(file bytes, version atom, {num: (idgen sx, obj sx)}, trailer sx, sinks)] per produced file; sinks = the (sinks ..)
    term of the harness: the same save repeated into sinks that accept fewer bytes than offered"""
    res = []
    objs = {}
    version = None
    for rev in impl_sx[1:]:
        if rev[0] != 'rev':
            continue
        file_hex, before, trailer_after = rev[1], rev[2], rev[3]
        if version is None:
            version = before[1]
        for io in before[4][1:]:
            if dropped(io[1]):
                continue
            objs[int(io[0][0])] = (io[0], io[1])
        res.append((file_hex, version, dict(objs), trailer_after, rev[4][1:] if len(rev) > 4 else []))
    return res


ATOM_RE = re.compile(r'\((?:rev|sinkdiff \S+) (x[0-9a-f]*)[ )]')


def case_atoms(res):
    """every file of a harness answer in text order: per revision the file a Vec received, then the outputs of the short
    sinks that DIFFER from it (identical ones are the same bytes: the deterministic reader is not run twice on them)"""
    return ATOM_RE.findall(res) if res.startswith('(saved ') else []


SINK_STATS = {'compared': 0, 'differing': 0, 'errors': 0}


def judge(case_tags, impl_line, strict_lines_for):
    v, n, outs = judge_in_domain(case_tags, impl_line, strict_lines_for)
    outside = case_tags.get('outside')
    if outside and v != 'skip':
        # negative control: the saved file must NOT pass (rejected by the strict reader, or different objects recovered)
        if v.startswith('FAIL'):
            return 'ok', n, outs
        return 'CONTROL document outside the domain (%s) passed the strict reader unchanged' % outside, n, outs
    return v, n, outs


def judge_in_domain(case_tags, impl_line, strict_lines_for):
    """returns (verdict text, n files read).  strict_lines_for(list of hex atoms) -> list of runner outputs"""
    res, v = vlib.split_impl(impl_line)
    if v.startswith('FAIL'):
        return v, 0, []
    if not res.startswith('(saved '):
        if case_tags.get('outside') in ('short-mark',) or res.startswith('(save-error'):
            return 'skip', 0, []
        return 'skip', 0, []
    sx = sx_parse(res)
    files = expected_files(sx)
    flat = []
    for f in files:
        flat.append(f[0])
        flat += [t[2] for t in f[4] if t[0] == 'sinkdiff']
    outs = strict_lines_for(flat)
    nread = len(flat)
    prev = None
    cur = 0
    for k, (fhex, version, objs, trailer, sinks) in enumerate(files):
        # the file a Vec received, then every short-sink output that differs from it: each is judged as THE file of this save
        variants = [('', fhex)] + [(' (delivered to the %s sink)' % t[1], t[2]) for t in sinks if t[0] == 'sinkdiff']
        for via, vhex in variants:
            so = outs[cur]
            cur += 1
            if prev is not None and not vhex[1:].startswith(prev[1:]):
                return 'FAIL revision %d%s does not start with the previous file verbatim' % (k, via), nread, outs
            try:
                got = sx_parse(so)
            except ValueError:
                return 'FAIL strict reader output unreadable: ' + so[:100], nread, outs
            if got[0] != 'ok':
                return 'FAIL strict reader rejects file %d%s of the case: %s' % (k, via, so[:160]), nread, outs
            if got[1] != version:
                return 'FAIL file %d%s: header version %s, document version %s' % (k, via, got[1], version), nread, outs
            gobjs = {int(io[0][0]): io for io in got[2][1:]}
            for num in sorted(set(objs) | set(gobjs)):
                if num not in gobjs:
                    return 'FAIL file %d%s: object %d was saved but the strict reader does not find it' % (k, via, num), nread, outs
                if num not in objs:
                    return 'FAIL file %d%s: strict reader finds object %d that was not saved' % (k, via, num), nread, outs
                if gobjs[num][0] != objs[num][0] or not same_obj(objs[num][1], gobjs[num][1]):
                    return 'FAIL file %d%s: object %d differs: saved %s, file holds %s' % (
                        k, via, num, sx_print(objs[num][1])[:200], sx_print(gobjs[num][1])[:200]), nread, outs
            if not same_obj(trailer, got[3]):
                return 'FAIL file %d%s: trailer differs: document %s, file %s' % (k, via, sx_print(trailer)[:200], sx_print(got[3])[:200]), nread, outs
            if int(got[4]) != k + 1:
                return 'FAIL file %d%s: %s revisions found, %d expected' % (k, via, got[4], k + 1), nread, outs
        prev = fhex
        # a healthy sink that accepts fewer bytes than offered receives the bytes a Vec receives, and save_to reports no error
        for t in sinks:
            if t[0] == 'sinkerr':
                return 'FAIL file %d: save_to into the %s sink (short writes only, never a failure) answered error %s' % (k, t[1], t[2]), nread, outs
            if t[0] == 'sinkdiff':
                return 'FAIL file %d: the bytes delivered to the %s sink differ from the bytes delivered to a Vec' % (k, t[1]), nread, outs
    return 'ok', nread, outs


SPEC = {
    'gen_parts': [],
    'allowed_axioms': (),
    'runner': 'c03',
    'bin': 'c03',
    'gen_cases': gen_cases,
    'rule': 'generated documents (0-20 objects, plus 60/300-object documents; all ten object kinds nested to depth 3 with adversarial '
            'bytes in names/strings/keys; streams built as struct literals and through Stream::new/compress/decompress/set_content/'
            'set_plain_content, bodies containing endstream/endobj/xref/%%EOF text, empty bodies, indirect Length; sparse object numbers, '
            'generations up to 65535; f32 reals printed by Rust; objects typed ObjStm/XRef/Linearized; trailers with stale bookkeeping keys) '
            'saved by Document::save_to in both cross-reference formats, then 0-4 incremental updates -- 5-6 in the hist* family -- (add_object / set_object / '
            'opt_clone_object_to_new_document + stream operations) saved by IncrementalDocument::save_to after IncrementalDocument::load_from; '
            'every produced file is read by the extracted Coq strict reader; every save is repeated into five sinks that accept fewer bytes than '
            'offered (7 / 1 bytes per call, Interrupted every 4th call, pipe-like 64-byte buffer, ragged) and must deliver the bytes a Vec receives -- '
            'a differing output is read by the strict reader as the file of that save; 12% documents outside the domain and byte-level damage of real '
            'output serve as negative controls; non-trivial = at least one object; distinct = distinct case text',
    'extra_trusted': ['C03: the oracle is coq/Spec/StrictReader.v (ISO 32000-1 7.2/7.3/7.5 as read by its author); numbers are compared by '
                      'value (exact decimal -> nearest f32 in lib/vlib.py); expected objects = the document printed by the harness just before '
                      'save_to minus the documented skip types, overlaid per object number for incremental files (props/c03.py)'],
}


def run(ctx):
    prop = ctx.prop
    spec = SPEC
    assumptions = list(vlib.BASE_TRUSTED) + list(spec['extra_trusted'])
    cov = {'trusted_base': assumptions, 'samples': []}
    if os.environ.get('C03_NO_TRANSLATE'):
        # hand-made mutation trials against a scratch worktree: do not regenerate the shared coq/Gen files
        ok, tlog = True, ''
        ctx.notes.append('translator skipped (C03_NO_TRANSLATE)')
    else:
        ok, tlog = vlib.translate(['Lex', 'SaveFmt', 'Consts'])
    if not ok:
        ctx.notes.append('translator failed: ' + tlog[-300:])
    ob = vlib.check_obligations(prop, spec['allowed_axioms']) if ok else \
        {'ok': False, 'theorems': [], 'discharged': [], 'failed': 'translator could not read the source: ' + tlog[-300:], 'axioms': {}}
    cov['obligations'] = max(1, len(ob['theorems']))
    cov['discharged'] = len(ob['discharged'])
    cov['theorems'] = ob['theorems']
    cov['axioms'] = ob.get('axioms', {})
    cov['checker_cmd'] = 'make -C coq Props/%s.vo  (coqc 8.16.1; Print Assumptions allow-list; forbidden-vernacular grep)' % prop
    runner, rlog = vlib.build_runner(spec['runner'])
    impl, ilog = vlib.build_harness(spec['bin'])
    if impl is None:
        print(ilog[-3000:])
        print('ERROR: harness build failed')
        ctx.violation('build', {'kind': 'harness-build-failed', 'log': ilog[-3000:]}, found_input=False)
        return ctx.finish(propcheck.cov_fill(cov, 0, 0, 0, 'harness build failed'), assumptions)
    cases = propcheck.load_corpus(prop) + gen_cases(ctx.rng, ctx.tier)
    lines = [c[0] for c in cases]
    impl_raw = vlib.run_lines(impl, lines, timeout=900, shards=8)
    failures, control_failures = [], []
    SINK_STATS.update(compared=0, differing=0, errors=0)
    kinds = {}
    distinct = set()
    n_files = 0
    n_controls = 0
    control_kinds = {}
    control_rules = {}
    verdicts = [None] * len(cases)
    strict_outs = [None] * len(cases)
    if runner is not None:
        # stage 2 in one batch: all files of all cases
        file_atoms = []
        index = []
        parsed = []
        for i, raw in enumerate(impl_raw):
            res, v = vlib.split_impl(raw)
            atoms = case_atoms(res)
            if res.startswith('(saved '):
                nd, ne = res.count('(sinkdiff '), res.count('(sinkerr ')
                SINK_STATS['compared'] += res.count('(same ') + nd + ne
                SINK_STATS['differing'] += nd
                SINK_STATS['errors'] += ne
            index.append((len(file_atoms), len(atoms)))
            file_atoms += atoms
        strict_all = vlib.run_lines(runner, [file_line(a) for a in file_atoms], timeout=1800, shards=16)
        for i, ((line, tags), raw) in enumerate(zip(cases, impl_raw)):
            kinds[tags.get('kind', '?')] = kinds.get(tags.get('kind', '?'), 0) + 1
            if tags.get('nontrivial', True):
                distinct.add(line)
            s, n = index[i]
            v, nf, outs = judge(tags, raw, lambda atoms, s=s, n=n: strict_all[s:s + n])
            n_files += nf
            verdicts[i] = v
            strict_outs[i] = outs
            if v.startswith('FAIL'):
                failures.append(i)
            elif v.startswith('CONTROL'):
                control_failures.append(i)
        # byte-level controls on the final file of every in-domain case that passed
        ctl_lines, ctl_meta = [], []
        for i, (line, tags) in enumerate(cases):
            if verdicts[i] != 'ok' or tags.get('outside'):
                continue
            s, n = index[i]
            if n == 0:
                continue
            fb = bytes.fromhex(file_atoms[s + n - 1][1:])
            for name, dmg, rules in controls(fb, ' stream ' in line[:14]):
                ctl_lines.append(file_line('x' + dmg.hex()))
                ctl_meta.append((i, name, rules))
        ctl_out = vlib.run_lines(runner, ctl_lines, timeout=1800, shards=16)
        n_controls = len(ctl_lines)
        for (i, name, rules), o in zip(ctl_meta, ctl_out):
            control_kinds[name] = control_kinds.get(name, 0) + 1
            m = re.match(r'\(err (\S+) ', o)
            key = '%s -> %s' % (name, m.group(1) if m else 'ACCEPTED')
            control_rules[key] = control_rules.get(key, 0) + 1
            if not m:
                # damage must be rejected (which rule fires first is recorded, not asserted) -- or, where ISO is
                # ambiguous (Length one short of a body ending in CR), at least be read as different objects
                s0, n0 = index[i]
                if o == strict_all[s0 + n0 - 1]:
                    control_failures.append((i, name, o))
                else:
                    control_rules[key + ' (different objects)'] = control_rules.pop(key, 1)
    # known findings
    kf = {e['id']: e for e in vlib.known_findings(prop)}
    for fid, e in sorted(kf.items()):
        ctx.known.append('%s: %s' % (fid, e.get('what', '')))
    if failures:
        i = failures[0]
        ctx.violation('fail_%d' % ctx.seed, {
            'kind': 'property-fails-on-implementation', 'property': prop, 'case': lines[i], 'tags': cases[i][1],
            'verdict': verdicts[i], 'impl_out': impl_raw[i][:4000], 'strict_reader_out': [o[:2000] for o in (strict_outs[i] or [])],
            'n_failing_cases': len(failures), 'obligations_ok': ob['ok'], 'obligation_failure': ob.get('failed'),
            'replay': './check %s --replay <this file>' % prop})
    elif not ob['ok']:
        ctx.violation('obligation_%d' % ctx.seed, {
            'kind': 'proof-obligation-broken', 'property': prop, 'theorem_or_file': ob.get('failed'),
            'searched': {'cases': len(cases), 'failing_inputs_found': 0},
            'note': 'the property is no longer shown to hold; no failing input was found by the search'}, found_input=False)
    elif runner is None:
        ctx.violation('runner_%d' % ctx.seed, {'kind': 'model-runner-broken', 'property': prop, 'log': rlog[-2000:]}, found_input=False)
    elif control_failures:
        c = control_failures[0]
        i = c if isinstance(c, int) else c[0]
        ctx.violation('control_%d' % ctx.seed, {
            'kind': 'oracle-control-failed', 'property': prop, 'case': lines[i], 'tags': cases[i][1],
            'detail': verdicts[i] if isinstance(c, int) else 'damage %s of the real output was answered %s' % (c[1], c[2][:200]),
            'note': 'a negative control was not rejected with the expected rule: the strict reader lost strictness, or the '
                    'implementation now writes something the control generator no longer recognises',
            'n_control_failures': len(control_failures)}, found_input=False)
    n = len(cases)
    propcheck.cov_fill(cov, n, len(distinct), n_files, spec['rule'])
    cov['kinds'] = kinds
    cov['files_read_by_strict_reader'] = n_files
    cov['negative_controls'] = n_controls
    cov['negative_control_kinds'] = control_kinds
    cov['negative_control_rules'] = control_rules
    cov['direct_failures'] = len(failures)
    cov['short_sink_saves'] = dict(SINK_STATS)
    ctx.notes.append('every save (plain and incremental) repeated into 5 sinks that accept fewer bytes than offered (7 bytes per call, 1 byte per '
                     'call, Interrupted on every 4th call, pipe-like 64-byte buffer, ragged counts + Interrupted): %(compared)d sink saves compared '
                     'byte for byte with the Vec output, %(differing)d differing (each differing output is read by the strict reader as well), '
                     '%(errors)d answered an error' % SINK_STATS)
    cov['notes'] = ctx.notes
    cov['partial'] = PARTIAL_NOTE
    step = max(1, n // 3)
    for i in range(0, n, step):
        cov['samples'].append({'case': lines[i][:600], 'impl': impl_raw[i][:300],
                               'strict_reader': [o[:300] for o in (strict_outs[i] or [])][:2], 'verdict': (verdicts[i] or '')[:200]})
    cov['samples'] = cov['samples'][:4]
    cov['samples'].append({'obligations': ob['theorems']})
    return ctx.finish(cov, assumptions)


def replay(ctx, payload):
    case = payload.get('case')
    if not case:
        import json
        print(json.dumps(payload, indent=1)[:4000])
        return 1
    impl, log = vlib.build_harness(SPEC['bin'])
    runner, _ = vlib.build_runner(SPEC['runner'])
    raw = vlib.run_lines(impl, [case])[0]
    v, nf, outs = judge(payload.get('tags', {}), raw, lambda atoms: vlib.run_lines(runner, [file_line(a) for a in atoms]) if atoms else [])
    print('impl   :', raw[:3000])
    for o in outs:
        print('strict :', o[:2000])
    print('verdict:', v)
    return 1 if v.startswith('FAIL') or v.startswith('CONTROL') else 0


PARTIAL_NOTE = ('proved for the writer model (Model/Save.v, Model/Incremental.v): C03_strict (strict_load (save x d) = SOk (sdoc_of x d), both '
                'cross-reference formats, every strict_savable document below 4 GiB), C03_all_bytes_accounted, C03_object_rt (strict tokenizer '
                'against write_object, every well-formed direct object), C03_strict_incremental (one update), C03_strict_history (ANY number of '
                'updates: every file of a history in the sense of C07 lopdf_history -- save, then load + create_from + edits + '
                'IncrementalDocument::save any number of times -- is accepted with the explicit result sdoc_of_history; the shape of each update, '
                'Prev = previous startxref and max_id not below any number listed before, is derived from Model/Incremental.v and the loader model), '
                'C03_all_bytes_accounted_history, C03_history_newest_wins. Remaining restrictions: a history keeps one cross-reference format (as '
                'new_from_prev does; mixed formats are proved at the layout level, C03_strict_chain); the objects a caller puts into new_document '
                'must be in the writer domain (numbers <= max_id as add_object maintains, well-formed, no skipped types) and carry C07 hypotheses '
                '(outside C01-deep-nesting, identifiers re-used or fresh) because the histories are C07 histories; the loader in the derivation is the '
                'model Model/Loader.v (tied to the crate by ./check C01 / C07); files of 4 GiB and more are outside the domain (u32 offsets)')

MANIFEST = {
    'level_text': 'The reference reader of the property is a Coq specification (Spec/StrictReader.v, written from ISO 32000-1 7.2/7.3/7.5, sharing '
                  'no definition with lopdf models); it is extracted and run on the bytes the real Document::save_to / IncrementalDocument::save_to '
                  'produce for generated documents (both cross-reference formats, plain and 1-6 incremental updates): a file is accepted only if header '
                  'and binary comment, startxref target, 20-byte entries, W/Index/Length consistency, exact entry offsets with matching id/gen, stream '
                  'Length, Size, the Prev chain and a gap-free, overlap-free tiling of every byte hold, and the recovered objects/trailer/version equal '
                  'what was saved. Machine-checked proofs: (1) acceptance by that reader implies each of these facts (C03_accept_sound, '
                  'C03_entry_20_bytes, C03_subsection_exact, C03_xref_stream_consistent, C03_stream_lengths, C03_chain_covers/disjoint); (2) about the '
                  'writer model Model/Save.v (tied byte for byte to the crate by ./check C01), for ALL documents of the domain (C01 savable + version '
                  'd.d + binary mark of >= 4 bytes, file < 4 GiB) and both formats: C03_strict  strict_load (save x d) = SOk (sdoc_of x d) with the '
                  'explicit recovered document (objects in normal form, trailer, entries, located objects, spans), C03_all_bytes_accounted (the spans '
                  'tile [0,|file|) without gap or overlap), C03_object_rt (the strict tokenizer reads write_object o back for every well-formed direct '
                  'object, any nesting depth, any bytes), C03_save_indirect_object (stream Length exact also when the content contains endstream); '
                  '(3) about the incremental writer model Model/Incremental.v: C03_strict_incremental -- one update appended to a plain save is accepted, '
                  'the previous file is a verbatim prefix, Prev is followed, both revisions tile the file, the newest revision decides per object number; '
                  '(4) histories of ANY length: C03_strict_history -- for every history in the sense of C07 (Document::save, then any number of '
                  'load + create_from + modelled edits + IncrementalDocument::save) strict_load (bytes) = SOk (sdoc_of_history), by induction over '
                  'read_chain / check_revs / read_all / the fillers / the k-fold merge; the shape of every update (layout, Prev = previous startxref, '
                  'max_id not below any number an older section lists) is derived from the models (C03_history_shape, C03_history_update_step), not '
                  'assumed; C03_all_bytes_accounted_history (revision after revision: filler, objects, section, marker consecutive from the end of the '
                  'previous file to the end of this one), C03_history_newest_wins (per identifier the newest revision listing the number decides), '
                  'C03_strict_chain (layout level, cross-reference format may change from revision to revision).',
    'level_note': 'Restrictions: a history keeps one cross-reference format (mixed chains only at the layout level); the objects put into '
                  'new_document are in the writer domain and meet the hypotheses of C07 histories (these are about the caller, not the writer); the '
                  'loader in the derivation is the model Model/Loader.v. Files >= 4 GiB excluded '
                  '(u32 offsets). Trusted: Coq kernel; extraction/OCaml driver; Rust harness; Python comparison of recovered and saved objects '
                  '(numbers by value); Model/Save.v, Model/Incremental.v and Model/Loader.v correspond to the crate as far as ./check C01 / C07 exercise them. '
                  'No axioms (Print Assumptions: closed for all 42 theorems).',
    'technique': 'Coq specification extracted and run on the real output (spec-as-oracle) + Coq proofs of spec soundness and of writer-model/spec agreement',
    'design_ref': 'DESIGN.md 6 C03',
}
