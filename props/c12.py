"""C12 -- page enumeration is the DFS order of the page tree."""
import propcheck
from sxg import *

LIMIT = 256  # only used to aim the generator at the boundary; the model reads the real constant


def fresh_ids(rng, n):
    """n distinct object ids, sparse, sometimes with non-zero generation"""
    nums = rng.sample(range(1, max(3 * n, 50)), n)
    return [(k, rng.choice([0, 0, 0, 0, 1, 7, 65535])) for k in nums]


def build_tree(rng, depth, fan, p_empty):
    """returns nested ('leaf',) / ('node', [kids])"""
    def go(d):
        if d == 0 or rng.random() < 0.35:
            return ('leaf',)
        if rng.random() < p_empty:
            return ('node', [])
        return ('node', [go(d - 1) for _ in range(rng.randint(1, fan))])
    return ('node', [go(depth - 1) for _ in range(rng.randint(0, fan))])


def chain_tree(rng, height, side):
    """a spine of the given height; side = how many leaf siblings hang before/after each spine node"""
    t = ('leaf',)
    for _ in range(height):
        before = [('leaf',) for _ in range(rng.randint(0, side))]
        after = [('leaf',) for _ in range(rng.randint(0, side))]
        t = ('node', before + [t] + after)
    return t


def count_nodes(t):
    return 1 if t[0] == 'leaf' else 1 + sum(count_nodes(k) for k in t[1])


def height(t):
    return 0 if t[0] == 'leaf' else 1 + max([height(k) for k in t[1]] + [0])


def sections_tree(rng, depth=None):
    """mixes of pages and intermediate nodes on every level: most intermediate nodes (also empty ones) are followed by
    further siblings, so that the iterator has to come back to the parent level many times"""
    leaf = ('leaf',)
    def sect(d):
        r = rng.random()
        if d == 0 or r < 0.3:
            return ('node', [leaf for _ in range(rng.choice([0, 1, 1, 1, 2, 3]))])
        return ('node', mix(d - 1, rng.randint(1, 4)))
    def mix(d, n):
        kids = [sect(d) if rng.random() < 0.65 else leaf for _ in range(n)]
        if rng.random() < 0.75:
            kids.append(leaf)          # a page after the last section of the level
        return kids
    if depth is None:
        depth = rng.choice([0, 0, 1, 1, 2, 3])
    return ('node', mix(depth, rng.randint(2, 9)))


def comb_tree(rng):
    """deep and wide at once: a spine whose nodes carry small sections and pages before and after the spine kid"""
    leaf = ('leaf',)
    def side():
        out = []
        for _ in range(rng.randint(0, 3)):
            out.append(leaf if rng.random() < 0.4 else ('node', [leaf for _ in range(rng.randint(0, 2))]))
        return out
    t = ('node', [leaf for _ in range(rng.randint(0, 2))])
    for _ in range(rng.choice([2, 3, 5, 8, 20, 60])):
        t = ('node', side() + [t] + side())
    return t


def _unit(rng, levels, pages, lead):
    """one subtree that is LEFT through a last kid: a node whose LAST kid is an intermediate node, `levels` times over
    (levels = 1: group -> subgroup -> pages); `lead` pages come before the intermediate kid on every level"""
    leaf = ('leaf',)
    t = ('node', [leaf for _ in range(max(1, rng.randint(*pages)))])
    for _ in range(levels):
        t = ('node', [leaf for _ in range(rng.randint(*lead))] + [t])
    return t


def fan_tree(rng, style=None):
    """WIDE multi-level trees, 2..5 levels: several hundred intermediate nodes that are the last kid of their parent while
    their parent has further siblings.  The iterator does not push an exhausted sibling list, so it leaves each such
    subtree by ONE pop that climbs two or more levels -- any bookkeeping of the depth that is not the stack itself has to
    survive a few hundred of these (260..600 here, which is on both sides of PAGE_TREE_DEPTH_LIMIT)."""
    leaf = ('leaf',)
    style = style or rng.choice(['chains', 'chains', 'balanced', 'grid', 'grid', 'mixed', 'mixed', 'deepchains', 'deepchains'])
    if style == 'chains':
        # K side-by-side chains group -> subgroup (-> subsubgroup) -> page
        k = rng.choice([LIMIT + 4, LIMIT + 44, 300, 400, 600])
        lv = rng.choice([1, 1, 2, 3])
        t = ('node', [_unit(rng, lv, (1, 1), (0, 0)) for _ in range(k)])
    elif style == 'balanced':
        # root -> K chapters -> s sections -> p pages
        k, s, p = rng.choice([(LIMIT + 4, 2, 2), (300, 2, 2), (300, 3, 1), (280, 1, 3), (400, 2, 1)])
        t = ('node', [('node', [('node', [leaf] * p) for _ in range(s)]) for _ in range(k)])
    elif style == 'grid':
        # root -> a parts -> b chapters -> .. -> pages: the same few hundred subtrees under a root of small fan-out
        a = rng.choice([4, 9, 17, 20, 30])
        k = rng.choice([LIMIT + 4, 300, 450, 600])
        b = -(-k // a)
        lv = rng.choice([1, 1, 2])
        t = ('node', [('node', [_unit(rng, lv, (1, 2), (0, 1)) for _ in range(b)] + ([leaf] if rng.random() < 0.5 else []))
                      for _ in range(a)])
    elif style == 'mixed':
        # chapters of 1..3 further levels with pages before the section on every level, pages between the chapters
        k = rng.choice([LIMIT + 10, 320, 500])
        kids = []
        for _ in range(k):
            kids.append(_unit(rng, rng.choice([1, 1, 2, 3]), (0, 3), (0, 2)))
            if rng.random() < 0.2:
                kids.append(leaf)
        t = ('node', kids)
    else:
        # a few DEEP chains side by side: m chains of d nodes, one page at the bottom of each
        d = rng.choice([9, 17, 33, 60, 120])
        m = (LIMIT + rng.choice([8, 40, 300])) // (d - 1) + 2
        t = ('node', [_unit(rng, d - 1, (1, 2), (0, 0)) for _ in range(m)] + [leaf])
    return t


def last_kid_nodes(t):
    """number of intermediate nodes that are the last kid of their parent and are followed, later in the walk, by another
    node (i.e. not on the rightmost path): how many times the iterator climbs two or more levels by one pop"""
    def go(t, rightmost):
        if t[0] == 'leaf':
            return 0
        n = 0
        for i, k in enumerate(t[1]):
            last = i == len(t[1]) - 1
            if k[0] == 'node' and last and not rightmost:
                n += 1
            n += go(k, rightmost and last)
        return n
    return go(t, True)


def make_tree(rng, shape):
    if shape == 'fan':
        return fan_tree(rng)
    if shape == 'random':
        return build_tree(rng, rng.randint(1, 6), rng.randint(1, 5), 0.15)
    if shape == 'chain':
        return chain_tree(rng, rng.choice([1, 2, 5, 40, LIMIT - 1, LIMIT, LIMIT + 1, LIMIT + 2, LIMIT + 3]), rng.choice([0, 1, 2]))
    if shape == 'sections':
        return sections_tree(rng)
    if shape == 'comb':
        return comb_tree(rng)
    return ('node', [('leaf',) for _ in range(rng.randint(0, 60))])   # wide


def count_leaves(t):
    return 1 if t[0] == 'leaf' else sum(count_leaves(k) for k in t[1])


def gen_wf(rng, shape, bare=False, exact_counts=False):
    """exact_counts: every Count is the number of leaves below the node (else a random mix of right and wrong counts).
    bare: the document holds the page tree and the catalog and 0..3 further objects (mostly none), no indirection
    objects -- iter_limit = |objects| has the least possible slack there"""
    t = make_tree(rng, shape)
    n = count_nodes(t)
    extra = rng.choice([0, 0, 0, 1, 2, 3]) if bare else rng.randint(0, 4)
    p_ind, p_kref = (0.0, 0.0) if bare else (0.1, 0.25)
    ids = fresh_ids(rng, n + 3 * n + extra + 2)   # room for indirections
    it = iter(ids)
    objects = []
    leaves = []
    def emit(t, parent):
        me = next(it)
        target = me
        # occasionally put the node behind an indirect reference object
        if rng.random() < p_ind:
            target = next(it)
            objects.append((me, REF(*target)))
        if t[0] == 'leaf':
            leaves.append(me)
            ent = [('Type', N('Page')), ('Parent', REF(*parent))]
            if rng.random() < 0.3:
                ent.insert(0, ('MediaBox', A([I(0), I(0), I(612), I(792)])))
            objects.append((target, D(ent)))
        else:
            kid_ids = [emit(k, me) for k in t[1]]
            arr = A([REF(*k) for k in kid_ids])
            nl = count_leaves(t)
            cnt = nl if exact_counts else rng.choice([nl, nl, len(kid_ids), 0, -5, 10**6, max(0, nl - 1), nl + 1, None, 'name'])
            ent = [('Type', N('Pages'))]
            if cnt == 'name':
                ent.append(('Count', N('many')))
            elif cnt is not None:
                ent.append(('Count', I(cnt)))
            if rng.random() < p_kref:
                # Kids behind a chain of 1..3 references
                hops = rng.randint(1, 3)
                cur = arr
                for _ in range(hops):
                    kid_obj = next(it)
                    objects.append((kid_obj, cur))
                    cur = REF(*kid_obj)
                arr = cur
            ent.insert(rng.randint(0, len(ent)), ('Kids', arr))
            if parent is not None:
                ent.append(('Parent', REF(*parent)))
            objects.append((target, D(ent)))
        return me
    # the root is reached through catalog.Pages; chain spines deeper than the limit are not descended,
    # so they are only well-formed inputs of the theorem up to height LIMIT+1
    root = emit(t, None)
    cat = next(it)
    objects.append((cat, D([('Type', N('Catalog')), ('Pages', REF(*root))])))
    for _ in range(extra):
        objects.append((next(it), rng.choice([I(5), S(b'junk'), D([('Type', N('Font'))]), A([])])))
    rng.shuffle(objects)
    doc = DOC('1.5', b'', [('Root', REF(*cat)), ('Size', I(1000))], objects, max(i for (i, _), _ in objects))
    wf = height(t) <= LIMIT + 1
    return doc, leaves, wf, t


def gen_malformed(rng):
    """start from a well-formed document and damage it"""
    while True:
        doc, leaves, wf, t = gen_wf(rng, rng.choice(['random', 'random', 'wide', 'sections', 'comb']), bare=rng.random() < 0.4)
        if count_nodes(t) >= 2:
            break
    # re-generate structurally so that we can damage: simplest is textual surgery on the case
    dmg = rng.choice(['cycle', 'selfkid', 'dup', 'kidtype', 'notype', 'typestr', 'dangling', 'kidsnotarray',
                      'noroot', 'pagesdirect', 'linearized', 'rootloop', 'refloop'])
    import re
    refs = re.findall(r'\(ref (\d+) (\d+)\)', doc)
    pages_nodes = re.findall(r'\(\((\d+) (\d+)\) \(d [^\n]*?\(x54797065 \(n x5061676573\)\)', doc)
    if dmg == 'cycle' and refs:
        # replace one random kid reference by a reference to the root Pages node
        m = re.search(r'\(x5061676573 \(ref (\d+) (\d+)\)\)', doc)
        root = (m.group(1), m.group(2))
        kid_arrays = list(re.finditer(r'\(a(?: \(ref \d+ \d+\))+\)', doc))
        if kid_arrays:
            ka = rng.choice(kid_arrays)
            inner = list(re.finditer(r'\(ref \d+ \d+\)', ka.group(0)))
            pick = rng.choice(inner)
            new = ka.group(0)[:pick.start()] + '(ref %s %s)' % root + ka.group(0)[pick.end():]
            doc = doc[:ka.start()] + new + doc[ka.end():]
    elif dmg == 'selfkid':
        kid_arrays = list(re.finditer(r'\(a(?: \(ref \d+ \d+\))+\)', doc))
        if kid_arrays:
            ka = rng.choice(kid_arrays)
            inner = re.findall(r'\(ref \d+ \d+\)', ka.group(0))
            new = '(a ' + ' '.join(inner + inner) + ')'
            doc = doc[:ka.start()] + new + doc[ka.end():]
    elif dmg == 'dup':
        kid_arrays = list(re.finditer(r'\(a(?: \(ref \d+ \d+\))+\)', doc))
        if kid_arrays:
            ka = rng.choice(kid_arrays)
            inner = re.findall(r'\(ref \d+ \d+\)', ka.group(0))
            inner.insert(rng.randint(0, len(inner)), rng.choice(inner))
            doc = doc[:ka.start()] + '(a ' + ' '.join(inner) + ')' + doc[ka.end():]
    elif dmg == 'kidtype':
        kid_arrays = list(re.finditer(r'\(a(?: \(ref \d+ \d+\))+\)', doc))
        if kid_arrays:
            ka = rng.choice(kid_arrays)
            inner = re.findall(r'\(ref \d+ \d+\)', ka.group(0))
            inner.insert(rng.randint(0, len(inner)), rng.choice([I(3), NULL, D([('Type', N('Page'))]), S(b'x'), A([])]))
            doc = doc[:ka.start()] + '(a ' + ' '.join(inner) + ')' + doc[ka.end():]
    elif dmg == 'notype':
        ms = list(re.finditer(r'\(x54797065 \(n x50616765(73)?\)\) ?', doc))
        if ms:
            m = rng.choice(ms)
            doc = doc[:m.start()] + doc[m.end():]
            doc = doc.replace('(d )', '(d)').replace(' )', ')')
    elif dmg == 'typestr':
        ms = list(re.finditer(r'\(x54797065 \(n (x50616765(?:73)?)\)\)', doc))
        if ms:
            m = rng.choice(ms)
            doc = doc[:m.start()] + '(x54797065 (s %s))' % m.group(1) + doc[m.end():]
    elif dmg == 'dangling':
        kid_arrays = list(re.finditer(r'\(a(?: \(ref \d+ \d+\))+\)', doc))
        if kid_arrays:
            ka = rng.choice(kid_arrays)
            inner = re.findall(r'\(ref \d+ \d+\)', ka.group(0))
            inner.insert(rng.randint(0, len(inner)), '(ref 999999 0)')
            doc = doc[:ka.start()] + '(a ' + ' '.join(inner) + ')' + doc[ka.end():]
    elif dmg == 'kidsnotarray':
        ms = list(re.finditer(r'\(x4b696473 \((?:a|ref)[^()]*(?:\([^()]*\)[^()]*)*\)\)', doc))
        if ms:
            m = rng.choice(ms)
            doc = doc[:m.start()] + '(x4b696473 %s)' % rng.choice([I(1), NULL, D([]), N('Kids')]) + doc[m.end():]
    elif dmg == 'noroot':
        doc = doc.replace('(x526f6f74 ', '(x526f6f75 ', 1)
    elif dmg == 'pagesdirect':
        doc = re.sub(r'\(x5061676573 \(ref \d+ \d+\)\)', '(x5061676573 (d (x54797065 (n x5061676573))))', doc, count=1)
    elif dmg == 'linearized':
        ms = list(re.finditer(r'\(x54797065 \(n x50616765(73)?\)\)', doc))
        if ms:
            m = rng.choice(ms)
            doc = doc[:m.start()] + '(x4c696e656172697a6564 (i 1))' + doc[m.end():]
    elif dmg == 'rootloop':
        m = re.search(r'\(x526f6f74 \(ref (\d+) (\d+)\)\)', doc)
        doc = doc.replace('(objs ', '(objs ((777777 0) (ref 777777 0)) ', 1).replace(m.group(0), '(x526f6f74 (ref 777777 0))')
    elif dmg == 'refloop':
        kid_arrays = list(re.finditer(r'\(a(?: \(ref \d+ \d+\))+\)', doc))
        if kid_arrays:
            ka = rng.choice(kid_arrays)
            inner = re.findall(r'\(ref \d+ \d+\)', ka.group(0))
            inner.insert(rng.randint(0, len(inner)), '(ref 888888 0)')
            doc = doc[:ka.start()] + '(a ' + ' '.join(inner) + ')' + doc[ka.end():]
            doc = doc.replace('(objs ', '(objs ((888888 0) (ref 888889 0)) ((888889 0) (ref 888888 0)) ', 1)
    return doc, dmg


# ---- in-place edits of the page tree (the case element (edits ((id gen) obj) ...)) ---------------------------------------
def sx_parse(s):
    """the case language read back: atoms are str, lists are list"""
    stack, cur = [], []
    for tok in s.replace('(', ' ( ').replace(')', ' ) ').split():
        if tok == '(':
            stack.append(cur)
            cur = []
        elif tok == ')':
            done, cur = cur, stack.pop()
            cur.append(done)
        else:
            cur.append(tok)
    return cur[0]


def sx_str(x):
    return x if isinstance(x, str) else '(' + ' '.join(sx_str(e) for e in x) + ')'


K_KIDS, K_TYPE, N_PAGE = xb('Kids'), xb('Type'), xb('Page')


def make_edit(rng, doc):
    """choose a rearrangement of the page tree that replaces existing objects under their own identifiers (no object is
    added or removed, max_id stays): reverse a Kids array, swap two kids, rotate, move a kid (a page when there is one) from
    one node to another, drop a kid, redirect a kid to another existing page.  Works on the text of ANY document (damaged
    ones as well): a Kids array is the array under the key Kids of a dictionary object, or an object that is itself a
    non-empty array of references (Kids behind references).  Returns ((edits ...) text, kind) or (None, None)."""
    d = sx_parse(doc) if isinstance(doc, str) else doc
    objs = {}
    for e in d[4][1:]:
        objs[(e[0][0], e[0][1])] = e[1]          # later wins, as in the loaders of both sides
    def is_ref(x):
        return isinstance(x, list) and len(x) == 3 and x[0] == 'ref'
    def resolve(x):
        for _ in range(8):
            if not is_ref(x):
                return x
            x = objs.get((x[1], x[2]))
        return None
    def is_page(x):
        o = resolve(x)
        return isinstance(o, list) and o[:1] == ['d'] and any(e[0] == K_TYPE and e[1] == ['n', N_PAGE] for e in o[1:])
    holders = []       # (id, index of the Kids entry in the dictionary | None = the object is the array)
    for oid, o in sorted(objs.items(), key=lambda kv: (int(kv[0][0]), int(kv[0][1]))):
        if not isinstance(o, list) or not o:
            continue
        if o[0] == 'd':
            for k, e in enumerate(o[1:], 1):
                if e[0] == K_KIDS and isinstance(e[1], list) and e[1][:1] == ['a']:
                    holders.append((oid, k))
        elif o[0] == 'a' and len(o) > 1 and all(is_ref(x) for x in o[1:]):
            holders.append((oid, None))
    if not holders:
        return None, None
    def kids(h):
        o = objs[h[0]]
        return list((o if h[1] is None else o[h[1]][1])[1:])
    def with_kids(h, ks):
        o = objs[h[0]]
        if h[1] is None:
            return ['a'] + ks
        return o[:h[1]] + [[o[h[1]][0], ['a'] + ks]] + o[h[1] + 1:]
    varied = [h for h in holders if len(set(map(sx_str, kids(h)))) >= 2]
    nonempty = [h for h in holders if kids(h)]
    all_pages = [x for h in holders for x in kids(h) if is_ref(x) and is_page(x)]
    kind = rng.choice(['reverse', 'reverse', 'swap', 'swap', 'rotate', 'move', 'move', 'move', 'drop', 'drop', 'redirect'])
    if kind in ('reverse', 'swap', 'rotate') and not varied:
        kind = 'drop'
    if kind == 'move' and (len(holders) < 2 or not nonempty):
        kind = 'drop'
    if kind == 'redirect' and (not nonempty or not all_pages):
        kind = 'drop'
    if kind == 'drop' and not nonempty:
        return None, None
    new = {}
    if kind == 'reverse':
        h = rng.choice(varied)
        new[h] = kids(h)[::-1]
    elif kind == 'rotate':
        h = rng.choice(varied)
        ks = kids(h)
        r = rng.randint(1, len(ks) - 1)
        new[h] = ks[r:] + ks[:r]
    elif kind == 'swap':
        h = rng.choice(varied)
        ks = kids(h)
        while True:
            i, j = rng.sample(range(len(ks)), 2)
            if sx_str(ks[i]) != sx_str(ks[j]):
                break
        ks[i], ks[j] = ks[j], ks[i]
        new[h] = ks
    elif kind == 'move':
        with_page = [h for h in nonempty if any(is_ref(x) and is_page(x) for x in kids(h))]
        a = rng.choice(with_page if with_page and rng.random() < 0.8 else nonempty)
        b = rng.choice([h for h in holders if h != a])
        ka, kb = kids(a), kids(b)
        cand = [i for i, x in enumerate(ka) if is_ref(x) and is_page(x)]
        i = rng.choice(cand) if cand and rng.random() < 0.85 else rng.randrange(len(ka))
        kb.insert(rng.randint(0, len(kb)), ka.pop(i))
        new[a], new[b] = ka, kb
    elif kind == 'drop':
        h = rng.choice(nonempty)
        ks = kids(h)
        cand = [i for i, x in enumerate(ks) if is_ref(x) and is_page(x)]
        ks.pop(rng.choice(cand) if cand and rng.random() < 0.7 else rng.randrange(len(ks)))
        new[h] = ks
    else:
        h = rng.choice(nonempty)
        ks = kids(h)
        ks[rng.randrange(len(ks))] = rng.choice(all_pages)
        new[h] = ks
    # two different holders are different objects (a dictionary has one Kids entry): every edit replaces distinct objects
    return L('edits', *[L(OID(int(h[0][0]), int(h[0][1])), sx_str(with_kids(h, ks))) for h, ks in new.items()]), kind


def with_edit(rng, line, tags):
    """the case with an in-place edit of its page tree appended (when the document has a Kids array at all)"""
    d = sx_parse(line)
    ed, kind = make_edit(rng, d[1])
    if ed is None:
        return line, tags
    tags = dict(tags)
    tags['edit'] = kind
    return line[:-1] + ' ' + ed + ')', tags


def gen_cases(rng, tier):
    return [with_edit(rng, line, tags) for line, tags in gen_cases0(rng, tier)]


def gen_cases0(rng, tier):
    n = 240 if tier == 'quick' else 6000
    cases = []
    for k in range(n):
        r = rng.random()
        if r < 0.6:
            shape = rng.choice(['random', 'random', 'chain', 'wide', 'sections', 'sections', 'sections', 'comb', 'comb'])
            bare = rng.random() < (0.6 if shape in ('sections', 'comb') else 0.3)
            exact = rng.random() < 0.5
            doc, leaves, wf, t = gen_wf(rng, shape, bare, exact)
            exp = L('leaves', *[OID(*l) for l in leaves]) if wf else L('malformed')
            flags = L('flags', *(['exact-counts'] if exact else []))
            cases.append((L('case', doc, exp, flags), {'kind': ('wf-' + shape + ('-bare' if bare else '')) if wf else 'too-deep',
                                                      'nontrivial': len(leaves) >= 2}))
        else:
            doc, dmg = gen_malformed(rng)
            cases.append((L('case', doc, L('malformed')), {'kind': 'mal-' + dmg, 'nontrivial': True}))
    # wide multi-level trees (a few thousand objects each; generated after the others so that those stay as they were)
    for k in range(14 if tier == 'quick' else 120):
        bare = rng.random() < 0.6
        exact = rng.random() < 0.5
        while True:
            doc, leaves, wf, t = gen_wf(rng, 'fan', bare, exact)
            if count_nodes(t) <= (2400 if tier == 'quick' else 3600):   # the extracted model takes 2-7 s on 2000 nodes, 10-30 s on 3600
                break
        flags = L('flags', *(['exact-counts'] if exact else []))
        cases.append((L('case', doc, L('leaves', *[OID(*l) for l in leaves]), flags),
                      {'kind': 'wf-fan' + ('-bare' if bare else ''), 'nontrivial': True,
                       'last_kid_nodes': last_kid_nodes(t), 'pages': len(leaves), 'nodes': count_nodes(t), 'height': height(t)}))
    # smallest documents first: the first failing case that is reported is then the smallest one found
    cases.sort(key=lambda c: len(c[0]))
    return cases


SPEC = {
    'gen_parts': ['Consts', 'PageHint'],
    'allowed_axioms': (),
    'runner': 'c12',
    'bin': 'c12',
    'gen_cases': gen_cases,
    'rule': 'random page trees (random / chain up to the depth limit +-1 / wide / sections = pages and intermediate nodes, also empty '
            'ones, interleaved on every level / comb = deep spine carrying sections on both sides; Kids direct or behind 1-3 '
            'references; nodes behind indirect reference objects; sparse ids, non-zero generations; Count exact or wrong/missing/'
            'ill-typed; about half of the sections/comb documents are bare: |objects| = tree nodes + catalog + 0..3, no indirection '
            'objects, i.e. least slack of iter_limit) and 13 kinds of damage '
            '(cycles, duplicates, ill-typed kids, missing/ill-typed Type, dangling, Kids not an array, Root/Pages broken, '
            'Linearized fallback, reference loops); plus 14 (quick) / 120 (thorough) WIDE multi-level trees (fan: 260..600 side-by-side '
            'chains group -> subgroup -> page, balanced root -> 260..400 chapters -> sections -> pages, the same under a root of small '
            'fan-out, mixed chapters of 1..3 further levels, a few chains of 9..120 nodes side by side; up to 2400 / 3600 tree nodes): '
            'several hundred intermediate nodes that are the last kid of their parent, so the iterator climbs two or more levels by one pop '
            'hundreds of times; every case also steps the iterator by hand recording size_hint before and '
            'after every page (compared with the model; upper bound and count-down checked directly), nth(k)/get_pages()[k+1], and '
            'delete_pages of the middle page on every proper tree; every document that has a Kids array carries an IN-PLACE edit of its '
            'page tree (reverse / rotate a Kids array, swap two kids, move a kid -- mostly a page -- to another node, drop a kid, '
            'redirect a kid to another page: existing objects replaced under their own ids, |objects| and max_id unchanged) applied '
            'after the first get_pages(): get_pages() asked again must number page_iter() of the EDITED document (= the depth-first '
            'leaves the harness reads off the edited tree when it is a proper tree; compared with the model run on the edited '
            'document), a clone numbers alike, and after undoing the edit the first numbering comes back; non-trivial = at least 2 leaves or malformed; distinct = distinct case text',
    'extra_trusted': ['C12: model of PageTreeIter merges stack pops into pop_nonempty (justified in Model/PageTree.v header)'],
}


def run(ctx):
    return propcheck.standard_check(ctx, SPEC)


MANIFEST = {
    'level_text': 'Machine-checked proof (Coq) that the model of PageTreeIter/get_pages equals the depth-first leaf order '
                  'of every represented page tree with distinct nodes and height <= PAGE_TREE_DEPTH_LIMIT+1 (C12_dfs), numbers '
                  'pages 1..n (C12_numbered), and on arbitrary graphs yields at most |objects| ids that are all Page '
                  'dictionaries (C12_total); size_hint observed on the fresh iterator and after every page keeps lower <= upper and '
                  'its upper bound covers the pages still to come on ANY document (C12_size_hint_sound), and with all Count entries '
                  'right its lower bound counts down n, n-1, .., 0 (C12_size_hint_countdown); the limits are re-read from src/document.rs on every run and the model is '
                  'tied to the implementation by differential runs on generated well-formed and damaged trees.  After save and reload (composition with C01_full): '
                  'the file written in the table format loads to a document with the same enumeration for EVERY savable document (C12_after_save_load_table); '
                  'in either format the depth-first order is kept for page trees meeting the hypotheses of C12_dfs (C12_after_save_load); the stream format adds one object '
                  '(the cross-reference stream) to the iteration budget, which a cyclic tree makes visible (C12_stream_reload_budget_witness).',
    'level_note': 'Trusted: Coq kernel; translator (two constants + nine shape anchors); hand-written model of '
                  'PageTreeIter::next / size_hint tied by correspondence (observable: the yielded id list, get_pages map, '
                  'size_hint at every observable state); '
                  'extraction/OCaml driver; Rust harness. No axioms (Print Assumptions: closed).',
    'technique': 'Coq proof by loop invariant over the iterator model + differential correspondence',
    'design_ref': 'DESIGN.md 6 C12',
}
