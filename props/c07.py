"""C07 -- incremental updates: latest revision wins, history preserved."""
import propcheck
from sxg import *
import histgen
from histgen import Rev

# reader.rs as repaired by 44beb46: members are taken from the container the merged table names
XREF_NAMES_CONTAINER = True


# ------------------------------------------------------------------ random objects
def rnd_obj(rng, ids, depth=0):
    k = rng.random()
    if k < 0.2: return ('i', rng.choice([0, 1, -7, 42, 2 ** 31, rng.randint(-10 ** 6, 10 ** 6)]))
    if k < 0.3: return ('n', rng.choice([b'Name', b'A', b'Font', b'XYZ']))
    if k < 0.45: return ('s', bytes(rng.choice(b'abcdefgh XYZ09') for _ in range(rng.randint(0, 12))))
    if k < 0.5: return ('h', bytes(rng.randrange(256) for _ in range(rng.randint(0, 6))))
    if k < 0.55: return rng.choice([('null',), ('b', True), ('b', False)])
    if k < 0.65 and ids: return ('ref', rng.choice(ids), 0)
    if depth < 2 and k < 0.8:
        return ('a', [rnd_obj(rng, ids, depth + 1) for _ in range(rng.randint(0, 4))])
    if depth < 2:
        keys = rng.sample([b'A', b'B', b'Kids', b'V', b'Ty', b'Next'], rng.randint(0, 4))
        return ('d', [(key, rnd_obj(rng, ids, depth + 1)) for key in keys])
    return ('i', depth)


def rnd_top(rng, ids, allow_stream=True):
    if allow_stream and rng.random() < 0.2:
        content = bytes(rng.choice(b'BT ET q Q 0123456789\n') for _ in range(rng.randint(0, 30)))
        return histgen.stream([(b'K', ('i', rng.randint(0, 9)))] if rng.random() < 0.5 else [], content)
    return rnd_obj(rng, ids)


# ------------------------------------------------------------------ histories
def gen_history(rng, allow):
    """allow: set of permitted troublesome features: 'del', 'oscf' (object-stream conflicts), 'hybrid', 'genbump'"""
    m = rng.randint(3, 12)
    ids = list(range(1, m + 1))
    k = rng.choice([1, 2, 2, 3, 3, 4, 5])
    live = {}        # id -> (gen, in_objstm_ever)
    ever_os = set()
    revs = []
    cat = ('d', [(b'Type', ('n', b'Catalog')), (b'Pages', ('ref', 2, 0))])
    for rn in range(k):
        style = rng.choice(['table', 'stream', 'stream'])
        if 'hybrid' in allow and rng.random() < 0.3:
            style = 'hybrid'
        puts = []
        dels = []
        if rn == 0:
            chosen = [1] + rng.sample(ids[1:], rng.randint(1, len(ids) - 1))
        else:
            pool_old = [i for i in live]
            pool_new = [i for i in ids if i not in live]
            chosen = rng.sample(pool_old, rng.randint(0, min(4, len(pool_old)))) + \
                rng.sample(pool_new, rng.randint(0, min(3, len(pool_new))))
            if not chosen:
                chosen = [rng.choice(ids)]
        use_os = style in ('stream', 'hybrid') and rng.random() < 0.6
        for i in chosen:
            o = cat if (i == 1 and rn == 0) else rnd_top(rng, ids)
            place = 'plain'
            if use_os and o[0] != 'st' and rng.random() < 0.7:
                if 'oscf' in allow or i not in ever_os:
                    if not (style == 'hybrid' and i in live and 'hybrid' not in allow):
                        place = rng.choice([0, 0, 1])
            g = 0
            if place == 'plain':
                if i in live and 'genbump' in allow and rng.random() < 0.3:
                    g = live[i] + 1
                elif i in live:
                    g = live[i]
                elif rng.random() < 0.1:
                    g = rng.choice([1, 3])
                if g != 0 and i in ever_os and 'oscf' not in allow:
                    g = 0
            if place != 'plain':
                ever_os.add(i)
            live[i] = g
            puts.append((i, g, o, place))
        if rn > 0 and 'del' in allow and rng.random() < 0.5:
            cand = [i for i in live if i != 1 and i not in [p[0] for p in puts]]
            for i in rng.sample(cand, min(len(cand), rng.randint(1, 2))):
                dels.append((i, live[i] + 1))
                del live[i]
        rng.shuffle(puts)
        revs.append(Rev(style, puts, dels))
    return revs


def history_class(revs):
    """decidable class of the history (known findings), mirrors KnownClass in Spec/History.v.
    hybrid-update and objstm-stale-generation were classes here until the reader was repaired (merge_xref_stream; one
    generation per object number): such histories are now ordinary cases and must satisfy latest-revision-wins."""
    cls = set()
    seen = {}      # num -> list of (rev index, place kind, gen)
    for rn, r in enumerate(revs):
        for (i, g, o, place) in r.puts:
            before = seen.get(i, [])
            in_os_before = [b for b in before if b[1] == 'os']
            if place != 'plain' and in_os_before and not XREF_NAMES_CONTAINER:
                cls.add('objstm-shadow')
            seen.setdefault(i, []).append((rn, 'plain' if place == 'plain' else 'os', g))
        for (i, g) in r.dels:
            if seen.get(i):
                cls.add('freed-comes-back')
            seen.setdefault(i, []).append((rn, 'del', g))
    return cls


def load_cases(rng, revs, kind, junk=b'', self_cycle=False):
    outs = histgen.assemble(revs, (1, 0), junk=junk, self_cycle=self_cycle)
    cases = []
    for o in outs:
        sub = revs[:o['nrev']]
        cls = history_class(sub)
        cases.append((L('load', str(o['hdr']), xb(o['bytes']), o['layout'], histgen.revs_sx(sub)),
                      {'kind': kind, 'nontrivial': o['nrev'] >= 2, 'class': sorted(cls)}))
    return cases


# ------------------------------------------------------------------ replay through IncrementalDocument
def gen_base_doc(rng, big=False):
    """(doc sx, ids, page id, dict ids)"""
    objs = {}
    res_kind = rng.choice(['none', 'direct', 'ref', 'refref', 'nondict', 'xobjref', 'xobjdangling'])
    page = [('Type', N('Page')), ('Parent', REF(2, 0))]
    nxt = 4
    if res_kind == 'direct':
        page.append(('Resources', D([('Font', D([]))])))
    elif res_kind == 'ref':
        page.append(('Resources', REF(4, 0))); objs[4] = D([('ProcSet', A([N('PDF')]))]); nxt = 5
    elif res_kind == 'refref':
        page.append(('Resources', REF(4, 0))); objs[4] = REF(5, 0); objs[5] = D([('XObject', D([('Old', REF(1, 0))]))]); nxt = 6
    elif res_kind == 'nondict':
        page.append(('Resources', I(7)))
    elif res_kind == 'xobjref':
        page.append(('Resources', D([('XObject', REF(4, 0))]))); objs[4] = D([('Im0', REF(1, 0))]); nxt = 5
    elif res_kind == 'xobjdangling':
        page.append(('Resources', D([('XObject', REF(99, 0))])))
    objs[1] = D([('Type', N('Catalog')), ('Pages', REF(2, 0))])
    objs[2] = D([('Type', N('Pages')), ('Kids', A([REF(3, 0)])), ('Count', I(1))])
    objs[3] = D(page)
    for _ in range(rng.randint(0, 4)):
        objs[nxt] = histgen.o_sx(rnd_top(rng, list(objs)))
        nxt += 1
    if big:
        for _ in range(48):
            body = bytes(rng.choice(b'0123456789 \n') for _ in range(1500))
            objs[nxt] = histgen.o_sx(histgen.stream([], body)); nxt += 1
    if rng.random() < 0.15:
        objs[nxt] = REF(3, 0); nxt += 1          # an object that is only a reference (clone follows it)
    max_id = nxt - 1 + rng.choice([0, 0, 0, 2])
    ids = sorted(objs)
    mark = rng.choice([b'\xe2\xe3\xcf\xd3', b'\xbb\xad\xc0\xde', b''])
    doc = DOC(rng.choice(['1.4', '1.5', '1.7']), mark, [('Root', REF(1, 0))] + ([('Info', REF(2, 0))] if rng.random() < 0.3 else []),
              [((i, 0), objs[i]) for i in ids], max_id)
    return doc, ids, max_id


def gen_steps(rng, ids, max_id, nsteps, with_page=True, stream=False):
    steps = []
    ids = list(ids)
    for sn in range(nsteps):
        if stream and sn > 0:
            max_id += 1          # the cross-reference stream written by the previous save took the next number
        ops = []
        for _ in range(rng.randint(1, 4)):
            k = rng.random()
            if k < 0.3 and ids:
                i = rng.choice(ids)
                ops.append(L('set', OID(i, 0), histgen.o_sx(rnd_top(rng, ids))))
            elif k < 0.5:
                ops.append(L('add', histgen.o_sx(rnd_top(rng, ids))))
                max_id += 1
                ids.append(max_id)
            elif k < 0.6:
                i = rng.choice(ids + [max_id + 7])
                ops.append(L('clone', OID(i, 0)))
            elif k < 0.75 and ids:
                i = rng.choice(ids)
                ops.append(L('setkey', OID(i, 0), xb(rng.choice([b'K', b'Type', b'V'])), histgen.o_sx(rnd_obj(rng, ids))))
            elif k < 0.85 and with_page:
                ops.append(L('res', OID(rng.choice([3, 3, 3, 1, max_id + 9]), 0)))
            elif with_page and rng.random() < 0.7:
                ops.append(L('xobj', OID(rng.choice([3, 3, 3, 2]), 0), xb(rng.choice([b'Im1', b'Im2', b'Old'])), OID(rng.choice(ids), 0)))
            elif with_page:
                ops.append(L('gs', OID(rng.choice([3, 3, 3, 2]), 0), xb(rng.choice([b'GS1', b'GS2'])), OID(rng.choice(ids), 0)))
            else:
                ops.append(L('add', I(1)))
                max_id += 1
                ids.append(max_id)
        steps.append(L('step', *ops))
    return L('steps', *steps)


def gen_inc_case(rng, big=False):
    doc, ids, max_id = gen_base_doc(rng, big)
    style = rng.choice(['table', 'stream'])
    junk = b''
    if rng.random() < 0.3:
        junk = bytes(rng.choice(b'garbage \n\x00\xff%PD') for _ in range(rng.randint(1, 40)))
    # the max_id an IncrementalDocument starts from is the LOADED one: the largest number in the cross-reference
    # section (the document's own max_id slack is not written); a cross-reference stream has number max_id + 1
    loaded_max = max_id + 1 if style == 'stream' else max(ids)
    steps = gen_steps(rng, ids, loaded_max, rng.randint(1, 3), stream=(style == 'stream'))
    kind = 'inc-' + style + ('-junk' if junk else '') + ('-big' if big else '')
    return (L('inc', doc, style, xb(junk), steps), {'kind': kind, 'nontrivial': True, 'class': []})


def gen_resseq_case(rng, fixed=None, anc=None):
    """seeded defect C07/p3: several pages SHARE an indirect Resources object; inside ONE update a page is copied and its
    Resources changed (pointed to a new private resources object, or inlined; by setkey or by replacing the whole page), THEN
    add_xobject / add_graphics_state / get_or_create_resources is called for it.  Controls: the helper on the untouched
    page, twice in a row, on the sibling, on a page that inherits, re-pointing in an EARLIER update."""
    r = rng.random
    shape = fixed or rng.choice(['ref', 'ref', 'ref', 'refref', 'inherit-ref'])
    shared = [('ProcSet', A([N('PDF')])), ('XObject', D([('Old', REF(1, 0))]))]
    if r() < 0.5:
        shared.append(('ExtGState', D([('G0', REF(1, 0))])))
    if r() < 0.3:
        shared.append(('Font', D([('F1', REF(2, 0))])))
    npages = rng.choice([2, 2, 3])
    pages = [3, 6, 7][:npages]
    objs = {1: D([('Type', N('Catalog')), ('Pages', REF(2, 0))])}
    pages_node = [('Type', N('Pages')), ('Kids', A([REF(i, 0) for i in pages])), ('Count', I(npages))]
    if shape == 'inherit-ref':
        pages_node.append(('Resources', REF(4, 0)))
    objs[2] = D(pages_node)
    objs[4] = D(shared)
    if shape == 'refref':
        objs[4] = REF(5, 0); objs[5] = D(shared)
    for i in pages:
        page = [('Type', N('Page')), ('Parent', REF(2, 0)), ('MediaBox', A([I(0), I(0), I(200 + i), I(300)]))]
        if shape != 'inherit-ref' or (i != 3 and r() < 0.3):
            page.append(('Resources', REF(4, 0)))
        objs[i] = D(page)
    nxt = 8
    for _ in range(rng.randint(0, 2)):
        objs[nxt] = histgen.o_sx(rnd_top(rng, list(objs))); nxt += 1
    ids = sorted(objs)
    max_id = max(ids)
    style = rng.choice(['table', 'stream'])
    doc = DOC(rng.choice(['1.4', '1.5', '1.7']), rng.choice([b'\xe2\xe3\xcf\xd3', b'']), [('Root', REF(1, 0))],
              [((i, 0), objs[i]) for i in ids], max_id)
    top = max_id + 1 if style == 'stream' else max_id       # the loaded max_id

    def helper(page):
        k = r()
        name_x = rng.choice([b'Im1', b'Im2', b'Old'])
        name_g = rng.choice([b'GS1', b'G0'])
        if k < 0.5: return L('xobj', OID(page, 0), xb(name_x), OID(rng.choice(ids), 0))
        if k < 0.9: return L('gs', OID(page, 0), xb(name_g), OID(rng.choice(ids), 0))
        return L('res', OID(page, 0))

    def private(page):
        """edits that give `page` resources of its own; returns (ops, number of objects added)"""
        own = [('XObject', D([('Mine', REF(1, 0))]))] if r() < 0.5 else ([('ExtGState', D([]))] if r() < 0.5 else [])
        pd = [('Type', N('Page')), ('Parent', REF(2, 0)), ('MediaBox', A([I(0), I(0), I(200 + page), I(300)]))]
        k = r()
        if k < 0.35:      # a new private resources object, the entry re-pointed
            return [L('add', D(own)), L('setkey', OID(page, 0), xb(b'Resources'), REF(top + 1, 0))], 1
        if k < 0.55:      # ... the whole page replaced
            return [L('add', D(own)), L('set', OID(page, 0), D(pd + [('Resources', REF(top + 1, 0))]))], 1
        if k < 0.8:       # inlined
            return [L('setkey', OID(page, 0), xb(b'Resources'), D(own))], 0
        if k < 0.9:
            return [L('set', OID(page, 0), D(pd + [('Resources', D(own))]))], 0
        # pointed to another EXISTING resources object that is added first under a fresh number, through a reference object
        return [L('add', D(own)), L('add', REF(top + 1, 0)), L('setkey', OID(page, 0), xb(b'Resources'), REF(top + 1, 0))], 2

    seq = rng.choice(['private-then-helper'] * 5 + ['helper-only', 'helper-twice', 'private-earlier-update', 'sibling-first'])
    if shape == 'inherit-ref' and anc is None and r() < 0.5:
        seq = rng.choice(['helper-only', 'helper-twice', 'helper-only', 'private-earlier-update', 'sibling-first'])
    page = rng.choice(pages)
    other = rng.choice([q for q in pages if q != page])
    pre = []         # edits of what the page inherits, first in the first update
    if shape == 'inherit-ref' and (anc if anc is not None else r() < 0.4):
        newres = D([('Font', D([('F7', REF(1, 0))]))] + ([('XObject', D([('Old', REF(2, 0))]))] if r() < 0.5 else []))
        pre = [L('setkey', OID(2, 0), xb(b'Resources'), newres)] if r() < 0.5 else [L('set', OID(4, 0), newres)]
        if anc:
            seq, page = 'helper-twice', 3
            other = rng.choice([q for q in pages if q != page])
    steps = []
    if seq == 'private-then-helper':
        ops, _ = private(page)
        ops.append(helper(page))
        if r() < 0.4: ops.append(helper(page))
        if r() < 0.4: ops.append(helper(other))
        steps.append(L('step', *(pre + ops)))
    elif seq == 'sibling-first':
        ops = [helper(other)]
        pops, _ = private(page)
        ops += pops + [helper(page), helper(other)]
        steps.append(L('step', *(pre + ops)))
    elif seq == 'helper-only':
        steps.append(L('step', *(pre + [helper(page)])))
    elif seq == 'helper-twice':
        steps.append(L('step', *(pre + [helper(page), helper(other), helper(page)])))
    else:
        ops, n = private(page)
        steps.append(L('step', *(pre + ops)))
        top += n + (1 if style == 'stream' else 0)
        steps.append(L('step', helper(page), helper(other)))
    if r() < 0.3:
        steps.append(L('step', helper(rng.choice(pages))))
    junk = b'junk %PD\n' if r() < 0.2 else b''
    return (L('inc', doc, style, xb(junk), L('steps', *steps)),
            {'kind': 'inc-resseq-' + seq + '-' + shape + ('-anc' if pre else ''), 'nontrivial': True, 'class': []})


def gen_incraw_case(rng):
    revs = gen_history(rng, rng.choice([set(), set(), {'oscf', 'genbump'}, {'del'}]))
    junk = b''
    if rng.random() < 0.3:
        junk = bytes(rng.choice(b'garbage \n\x00\xff%PD') for _ in range(rng.randint(1, 40)))
    o = histgen.assemble(revs, (1, 0), junk=junk)[-1]
    latest = {}
    for r in revs:
        for p in r.puts:
            latest[p[0]] = p[1]
        for (i, g) in r.dels:
            latest.pop(i, None)
    # edits replace existing ids or add fresh numbers: only numbers whose current generation is 0 are re-set
    ids = sorted(i for i, g in latest.items() if g == 0)
    top = o['maxid']            # the loaded max_id: largest object number of the merged table
    if any(r.dels for r in revs):
        top = max([top] + [p[0] for r in revs for p in r.puts])
    steps = gen_steps(rng, ids, top, rng.randint(1, 2), with_page=False)
    return (L('incraw', str(o['hdr']), xb(o['bytes']), o['layout'], steps),
            {'kind': 'incraw' + ('-junk' if junk else ''), 'nontrivial': True, 'class': []})


def directed_cases(rng):
    """the situations of the two repaired findings (and their neighbours), in every tier: every prefix is loaded"""
    cat = ('d', [(b'Type', ('n', b'Catalog'))])
    I5, I6, I7, I8 = ('i', 5), ('i', 6), ('i', 7), ('i', 8)
    hs = {
        # an object-stream member redefined plainly with generation 1 (former objstm-stale-generation), then once more
        'stale-gen': [Rev('stream', [(1, 0, cat, 'plain'), (2, 0, I5, 0)]), Rev('stream', [(2, 1, I6, 'plain')]),
                      Rev('table', [(2, 1, I7, 'plain')])],
        'stale-gen-table': [Rev('stream', [(1, 0, cat, 'plain'), (2, 0, I5, 0), (3, 0, I6, 0)]), Rev('table', [(3, 2, I7, 'plain')])],
        # an existing object updated inside an object stream of a hybrid revision (former hybrid-update)
        'hybrid-newest': [Rev('table', [(1, 0, cat, 'plain'), (2, 0, I5, 'plain')]), Rev('hybrid', [(2, 0, I7, 0)])],
        # ... the hybrid revision in the MIDDLE of the chain: XRefStm of an older trailer
        'hybrid-middle': [Rev('table', [(1, 0, cat, 'plain'), (2, 0, I5, 'plain'), (3, 0, I6, 'plain')]),
                          Rev('hybrid', [(2, 0, I7, 0)]), Rev('table', [(3, 0, I8, 'plain')])],
        'hybrid-middle-stream': [Rev('stream', [(1, 0, cat, 'plain'), (2, 0, I5, 0), (3, 0, I6, 'plain')]),
                                 Rev('hybrid', [(2, 0, I7, 0), (3, 0, I8, 0)]), Rev('stream', [(4, 0, I8, 'plain')])],
        # ... a hybrid FIRST revision (its XRefStm is read once it is reached through Prev), then two updates
        'hybrid-first': [Rev('hybrid', [(1, 0, cat, 'plain'), (2, 0, I5, 0)]), Rev('table', [(3, 0, I6, 'plain')]),
                         Rev('hybrid', [(2, 0, I7, 0)])],
        # two hybrid revisions in a row updating the same object
        'hybrid-twice': [Rev('table', [(1, 0, cat, 'plain'), (2, 0, I5, 'plain')]), Rev('hybrid', [(2, 0, I6, 0)]),
                         Rev('hybrid', [(2, 0, I7, 0)])],
    }
    cases = []
    for name in sorted(hs):
        cases += load_cases(rng, hs[name], 'directed-' + name)
        cases += load_cases(rng, hs[name], 'directed-' + name + '-junk', junk=b'junk %PD\n')
    return cases


def gen_cases(rng, tier):
    n = 60 if tier == 'quick' else 1500
    cases = []
    for k in range(n):
        r = rng.random()
        if r < 0.6:
            allow = set()
            kind = 'hist'
        elif r < 0.7:
            allow = {'genbump'}
            kind = 'hist-genbump'
        elif r < 0.8:
            allow = {'oscf', 'genbump'}
            kind = 'hist-objstm-conflict'
        elif r < 0.9:
            allow = {'del'}
            kind = 'hist-free'
        else:
            allow = {'hybrid'}
            kind = 'hist-hybrid'
        revs = gen_history(rng, allow)
        junk = b''
        if rng.random() < 0.2:
            junk = bytes(rng.choice(b'garbage \n\x00\xff%PD') for _ in range(rng.randint(1, 40)))
            kind += '-junk'
        cyc = revs[0].style == 'table' and not any(p[3] != 'plain' for p in revs[0].puts) and rng.random() < 0.3
        cases += load_cases(rng, revs, kind + ('-prevcycle' if cyc else ''), junk, self_cycle=cyc)
    cases += directed_cases(rng)
    for k in range(n):
        cases.append(gen_inc_case(rng, big=(k % 30 == 7)))
    for k in range(n // 2):
        cases.append(gen_incraw_case(rng))
    # seeded defect C07/p3: a page's Resources changed inside the update, then add_xobject / add_graphics_state for it
    for shape in ('ref', 'refref', 'inherit-ref'):
        cases.append(gen_resseq_case(rng, fixed=shape))
    # finding C11-inc-resources-shadow: the helper on a page that only inherits, plainly and after the update changed what it inherits
    for anc in (False, False, True, True, True):
        cases.append(gen_resseq_case(rng, fixed='inherit-ref', anc=anc))
    for k in range(n // 2):
        cases.append(gen_resseq_case(rng))
    return cases


def classify(line, tags, model_out, impl_out, verdict):
    cls = tags.get('class') or []
    for c in ('objstm-shadow', 'freed-comes-back'):
        if c in cls:
            return c
    return None


SPEC = {
    'gen_parts': ['Consts', 'Lex', 'SaveFmt', 'Inc'],
    'allowed_axioms': (),
    'runner': 'c07',
    'bin': 'c07',
    'gen_cases': gen_cases,
    'classify': classify,
    'model_timeout': 1200,
    'impl_timeout': 1200,
    'rule': 'random revision histories (1-5 revisions; each replaces a random subset, adds objects, optionally frees some or bumps '
            'generations; per-revision cross-reference table / stream / hybrid; plain objects or object streams; optional bytes before '
            'the header) assembled byte by byte by gen/histgen.py, EVERY prefix loaded and compared with latest-revision-wins and with '
            'the abstract loader model (merged table, trailer, max_id, objects); random base documents saved by lopdf (table/stream, '
            'optionally prefixed with junk, some > 64 KiB) and hand-assembled histories, then 1-3 update steps (set/add/clone/setkey/'
            'get_or_create_resources/add_xobject/add_graphics_state; plus edit sequences on pages sharing an indirect Resources object: its Resources entry re-pointed or inlined inside the update, then the helpers) replayed through IncrementalDocument with save_to + reload after each step, output '
            'compared byte for byte with the model; non-trivial = at least 2 revisions or any replay',
    'partial_note': 'Byte level (Model/Loader.v) for histories written by lopdf itself, both cross-reference formats, any number of '
                    'updates: load (inc_save ..) = overlay, every file of a history satisfies the chain invariant and can be updated '
                    'again (C07_inc_save_reload, C07_history_loads, C07_history_update_again). For files of other producers (hybrid '
                    'XRefStm sections, object streams, free entries, Prev cycles) parsing is a layout tied by the differential run; the '
                    'merge / Prev-loop / object-loading core is proved on layouts (A1-A6, B4-B5) and the file-level statement '
                    'C07_full (Proofs/C07Full.v) stays a Definition: it is REFUTED on the open class freed-comes-back (A7). '
                    'Hypothesis of the byte-level theorems: a new object re-uses an identifier (number AND generation) of the loaded '
                    'document or carries a new number (C07_generation_hypothesis_needed).',
    'extra_trusted': ['C07: gen/histgen.py (reference writer of hand-assembled histories and of the layout the abstract loader model reads)',
                      'C07: the layout abstraction (what the byte-level parsers find where) for files NOT written by lopdf is tied to '
                      'the crate only by correspondence',
                      'C07: Model/Save.v, Model/Loader.v (c01), Model/Xref.v (c02) and their round-trip lemmas reused by the byte-level proofs'],
}


MANIFEST = {
    'level_text': 'Machine-checked (Coq). BYTE LEVEL, files written by lopdf (Document::save then any number of IncrementalDocument '
                  'saves, table and stream format): the loader model Model/Loader.v applied to the bytes of inc_save returns the overlay '
                  'of the new objects over the loaded ones; every file of such a history is a chain of well-formed revisions whose '
                  'merged table maps each number to the exact offset of the newest defining object (invariant good_file), loads, and any '
                  'further update through the modelled API succeeds and stays in the family (induction over saves); the same for histories '
                  'that MIX the two formats step by step (mixed_history: every step its own format tag, base saved by lopdf or any file '
                  'meeting the invariant), the format is inherited when reference_table is not touched (C07_format_is_inherited), and the '
                  'reloaded max_id is exact (max old new / new max_id + 1). Save side for ALL '
                  'inputs: output = previous bytes ++ only the new objects at exact header-relative offsets ++ one section with Prev = '
                  'previous xref_start (prefix also on failure); edits never touch the previous view. LAYOUT LEVEL, any producer: for all '
                  'chains of sections -- hybrid-reference sections included, as repaired (merge_xref_stream) -- every object number gets '
                  'the entry of the newest table that has one, in the order section / its XRefStm / Prev (merge_chain_latest, read on '
                  'every Prev chain, cycles cut, termination on all layouts); Normal entries win, Compressed entries name their container, '
                  'one generation per object number (repaired). The file-level statement C07_full is a Definition; it is REFUTED on one '
                  'open class (freed objects come back: a pinned unit test fixes the table parser\'s output to in-use entries) with a '
                  'witness replayed on the crate.',
    'level_note': 'Partial (rung 3 for lopdf-written histories, rung 2 for other producers): for foreign files byte-level parsing is '
                  'abstracted by layouts and tied by differential runs only (every history prefix: merged table + objects; every '
                  'IncrementalDocument step: bytes equal). Trusted: Coq kernel; translator parts Inc/SaveFmt/Lex/Consts; gen/histgen.py; '
                  'Model/Save.v, Model/Loader.v (c01), Model/Xref.v (c02); extraction/OCaml driver; Rust harness. No axioms.',
    'technique': 'Coq proofs by induction over revision chains and write loops + vm_compute refutations + differential correspondence',
    'design_ref': 'DESIGN.md 6 C07',
}


def run(ctx):
    return propcheck.standard_check(ctx, SPEC)
