"""C04 -- parsing untrusted bytes never panics, aborts or hangs.

Every case is run (a) by the extracted Safe* model (outcome class + steps / largest allocation request / recursion
depth annotations) and (b) by harness/src/bin/c04.rs in an ISOLATED WORKER PROCESS with a time limit, a 2 MiB stack and
a counting allocator with a 1 GiB cap.  Compared: the outcome class and the result size; checked on the implementation
alone: no panic / abort / timeout, and the largest single allocation request against K*len + 1 MiB; checked between the
two: the measured request against the model's annotation (2 * annotation + slack, Vec growth doubles).

The inputs are structure-aware mutations of valid files (repository assets, small documents built here with classic
cross-reference tables, cross-reference streams, object streams, Prev chains, indirect Length) and grammar-directed
adversarial constructions per entry point.  This fuzzing supports the model; the theorems are in coq/Props/C04.v."""
import os, re, zlib
import propcheck, vlib
from sxg import *

I64MAX = 2**63 - 1
EXTREMES = [0, 1, -1, 2, 7, 8, 255, 256, 65535, 65536, 2**31 - 1, 2**31, 2**32 - 1, 2**32, 4000000000, 2**47, 2**62,
            I64MAX - 1, I64MAX, -I64MAX - 1, -2**31, 2**64 - 1, 2**64]
I64 = [e for e in EXTREMES if -2**63 <= e <= I64MAX]


_LIMIT = []


def nesting_limit():
    """reader::MAX_NESTING (arrays / dictionaries); MAX_BRACKET before the constant existed"""
    if not _LIMIT:
        _LIMIT.append(_nesting_limit())
    return _LIMIT[0]


def _nesting_limit():
    try:
        src = open(os.path.join(vlib.REPO, 'src', 'reader.rs')).read()
    except OSError:
        return 100
    m = re.search(r'pub const MAX_NESTING: usize = (\d+);', src) or re.search(r'pub const MAX_BRACKET: usize = (\d+);', src)
    return int(m.group(1)) if m else 100


def case(kind, *args):
    return L('case', kind, *args)


def XB(b):
    """bytes argument of a case: one atom, or a list of atoms of at most 256 bytes (Base/Sx.v reverses every atom with the
    quadratic List.rev: a 100 KB atom would take the extracted runner a quarter of an hour to read)"""
    b = bytes(b)
    if len(b) <= 256:
        return xb(b)
    return L(*[xb(b[i:i + 256]) for i in range(0, len(b), 256)])


# ------------------------------------------------------------------------------------------
# a tiny PDF builder (valid files to mutate)
# ------------------------------------------------------------------------------------------
def pdf_classic(objs, root=1, extra_trailer=b'', prev=None, header=b'%PDF-1.5\n%\xe2\xe3\xcf\xd3\n', tail=b''):
    """objs: list of (num, body bytes).  Returns bytes with a classic xref table."""
    out = bytearray(header)
    offs = {}
    for num, body in objs:
        offs[num] = len(out)
        out += b'%d 0 obj\n' % num + body + b'\nendobj\n'
    xo = len(out)
    size = max(offs) + 1
    out += b'xref\n0 %d\n' % size
    out += b'0000000000 65535 f \n'
    for n in range(1, size):
        if n in offs:
            out += b'%010d 00000 n \n' % offs[n]
        else:
            out += b'0000000000 00000 f \n'
    out += b'trailer\n<</Size %d/Root %d 0 R%s%s>>\nstartxref\n%d\n%%%%EOF%s' % (
        size, root, extra_trailer, (b'/Prev %d' % prev) if prev is not None else b'', xo, tail)
    return bytes(out)


def stream_obj(d, data):
    return b'<<' + d + b'/Length %d>>stream\n' % len(data) + data + b'\nendstream'


def simple_objs(content=b'BT /F1 12 Tf 72 712 Td (Hello) Tj ET', length_ref=False):
    objs = [
        (1, b'<</Type/Catalog/Pages 2 0 R>>'),
        (2, b'<</Type/Pages/Kids[3 0 R]/Count 1/MediaBox[0 0 595 842]>>'),
        (3, b'<</Type/Page/Parent 2 0 R/Contents 4 0 R/Resources<</Font<</F1 5 0 R>>>>>>'),
        (5, b'<</Type/Font/Subtype/Type1/BaseFont/Courier>>'),
    ]
    if length_ref:
        objs.append((4, b'<</Length 6 0 R>>stream\n' + content + b'\nendstream'))
        objs.append((6, b'%d' % len(content)))
    else:
        objs.append((4, stream_obj(b'', content)))
    return objs


def pdf_xref_stream(compress=True, w=(1, 2, 1), index=None, predictor=False, xdata_override=None):
    """objects 1..3 in an object stream (5), xref stream (6)"""
    header = b'%PDF-1.5\n'
    members = [(1, b'<</Type/Catalog/Pages 2 0 R>>'), (2, b'<</Type/Pages/Kids[3 0 R]/Count 1>>'),
               (3, b'<</Type/Page/Parent 2 0 R/MediaBox[0 0 10 10]>>')]
    idx = b''
    body = b''
    for n, b in members:
        idx += b'%d %d ' % (n, len(body))
        body += b + b' '
    plain = idx + body
    data = zlib.compress(plain) if compress else plain
    out = bytearray(header)
    o5 = len(out)
    out += b'5 0 obj\n<</Type/ObjStm/N %d/First %d%s/Length %d>>stream\n' % (
        len(members), len(idx), b'/Filter/FlateDecode' if compress else b'', len(data)) + data + b'\nendstream\nendobj\n'
    o6 = len(out)
    rows = [(0, 0, 255), (2, 5, 0), (2, 5, 1), (2, 5, 2), (0, 0, 0), (1, o5, 0), (1, o6, 0)]
    raw = b''
    wfull = tuple(w)
    w = [x if 0 < x <= 8 else 0 for x in (list(w) + [0, 0, 0])[:3]]     # the widths the rows are written with
    for t, a, g in rows:
        raw += t.to_bytes(w[0], 'big') if w[0] else b''
        raw += (a % (256 ** w[1])).to_bytes(w[1], 'big') if w[1] else b''
        raw += (g % (256 ** w[2])).to_bytes(w[2], 'big') if w[2] else b''
    if xdata_override is not None:
        raw = xdata_override
    parms = b''
    if predictor:
        width = sum(w)
        pr = b''
        for i in range(0, len(raw), width):
            pr += b'\x00' + raw[i:i + width]
        raw = pr
        parms = b'/DecodeParms<</Predictor 12/Columns %d>>' % width
    xdata = zlib.compress(raw) if compress else raw
    out += b'6 0 obj\n<</Type/XRef/Size 7/Root 1 0 R/W[%s]%s%s%s/Length %d>>stream\n' % (
        b' '.join(b'%d' % x for x in wfull), (b'/Index[%s]' % b' '.join(b'%d' % i for i in index)) if index else b'',
        b'/Filter/FlateDecode' if compress else b'', parms, len(xdata)) + xdata + b'\nendstream\nendobj\n'
    out += b'startxref\n%d\n%%%%EOF\n' % o6
    return bytes(out)


def pdf_incremental():
    base = pdf_classic(simple_objs())
    add = bytearray(base + b'\n')
    o4 = len(add)
    c = b'BT (updated) Tj ET'
    add += b'4 0 obj\n' + stream_obj(b'', c) + b'\nendobj\n'
    xo = len(add)
    prev = int(re.search(rb'startxref\n(\d+)', base).group(1))
    add += b'xref\n4 1\n%010d 00000 n \ntrailer\n<</Size 6/Root 1 0 R/Prev %d>>\nstartxref\n%d\n%%%%EOF' % (o4, prev, xo)
    return bytes(add)


def asset_files():
    out = []
    d = os.path.join(vlib.REPO, 'assets')
    for fn in sorted(os.listdir(d)):
        if fn.endswith('.pdf'):
            b = open(os.path.join(d, fn), 'rb').read()
            if b:
                out.append((fn, b))
    return out


def seed_files():
    seeds = asset_files()
    seeds.append(('classic', pdf_classic(simple_objs())))
    seeds.append(('classic-lenref', pdf_classic(simple_objs(length_ref=True))))
    seeds.append(('xrefstm', pdf_xref_stream()))
    seeds.append(('xrefstm-plain', pdf_xref_stream(compress=False)))
    seeds.append(('xrefstm-pred', pdf_xref_stream(predictor=True)))
    seeds.append(('xrefstm-w', pdf_xref_stream(w=(1, 4, 2))))
    seeds.append(('incremental', pdf_incremental()))
    seeds.append(('prevchain-open', prev_chain_file(['t', 's', 't'], [1, 2, None])))
    seeds.append(('prevchain-rho', prev_chain_file(['s', 't', 's'], [1, 2, 1])))
    seeds.append(('prevchain-xrefstm', prev_chain_file(['t', 's', 't', 's', 't'], [1, 2, 3, 4, 2], {0: 3, 2: 1, 4: 3})))
    return seeds


# ------------------------------------------------------------------------------------------
# structure-aware mutations of a file
# ------------------------------------------------------------------------------------------
NUM = re.compile(rb'(?<![A-Za-z0-9.#])[+-]?\d+(?![A-Za-z.])')
TOKENS = [b'obj', b'endobj', b'stream', b'endstream', b'xref', b'trailer', b'startxref', b'%%EOF', b'<<', b'>>', b'[', b']',
          b'/Length', b'/Prev', b'/Size', b'/W', b'/Index', b'/First', b'/N', b'/Filter', b'/Type', b'R', b'(', b')', b'/Root',
          b'/FlateDecode', b'/ASCII85Decode', b'/LZWDecode', b'/DecodeParms', b'/Predictor', b'/Columns', b'/Colors',
          b'/BitsPerComponent', b'/Encrypt', b'/ObjStm', b'/XRef', b'/XRefStm', b'null', b'true', b'%PDF-', b'n \n', b'f \n']


def mutate(rng, b):
    """returns (kind, bytes)"""
    k = rng.choice(['bit', 'byte', 'trunc', 'num', 'num', 'num', 'token-del', 'token-dup', 'token-swap', 'splice', 'insert-nest',
                    'prev-cycle', 'ref-cycle', 'dup-chunk', 'head-junk'])
    b = bytearray(b)
    if not b:
        return 'empty', bytes(b)
    if k == 'bit':
        for _ in range(rng.choice([1, 1, 2, 5])):
            i = rng.randrange(len(b)); b[i] ^= 1 << rng.randrange(8)
    elif k == 'byte':
        for _ in range(rng.choice([1, 1, 3, 10])):
            b[rng.randrange(len(b))] = rng.choice([0, 10, 13, 32, 37, 40, 41, 47, 60, 62, 91, 93, 255, rng.randrange(256)])
    elif k == 'trunc':
        b = b[:rng.randrange(len(b) + 1)] if rng.random() < 0.7 else b[rng.randrange(len(b)):]
    elif k == 'num':
        ms = list(NUM.finditer(bytes(b)))
        if ms:
            for m in rng.sample(ms, min(len(ms), rng.choice([1, 1, 2]))):
                v = rng.choice(EXTREMES + [len(b), len(b) - 1, len(b) + 1, rng.randrange(max(1, len(b)))])
                b = bytearray(bytes(b).replace(m.group(0), b'%d' % v, 1)) if rng.random() < 0.3 else \
                    b[:m.start()] + b'%d' % v + b[m.end():]
                break
    elif k in ('token-del', 'token-dup', 'token-swap'):
        t = rng.choice(TOKENS)
        pos = [m.start() for m in re.finditer(re.escape(t), bytes(b))]
        if pos:
            p = rng.choice(pos)
            if k == 'token-del':
                del b[p:p + len(t)]
            elif k == 'token-dup':
                b[p:p] = t * rng.choice([1, 2, 50])
            else:
                b[p:p + len(t)] = rng.choice(TOKENS)
    elif k == 'splice':
        i, j = sorted((rng.randrange(len(b)), rng.randrange(len(b))))
        p = rng.randrange(len(b))
        b[p:p] = b[i:j]
    elif k == 'insert-nest':
        n = rng.choice([nesting_limit() - 1, nesting_limit(), nesting_limit() + 1, 50, 99, 100, 101, 150, 2000, 30000])
        o, c = rng.choice([(b'[', b']'), (b'<</A', b'>>'), (b'(', b')'), (b'[<</K', b'>>]')])
        ms = [m.start() for m in re.finditer(rb'<<|\[|\(', bytes(b))]
        p = rng.choice(ms) if ms else rng.randrange(len(b))
        b[p:p] = o * n + (b' 1 ' + c * n if rng.random() < 0.6 else b'')
    elif k == 'prev-cycle':
        m = re.search(rb'startxref\s+(\d+)', bytes(b))
        if m:
            tgt = rng.choice([int(m.group(1)), 0, len(b), rng.randrange(len(b))])
            b = bytearray(bytes(b).replace(b'/Root', b'/Prev %d/Root' % tgt, 1))
    elif k == 'ref-cycle':
        b = bytearray(re.sub(rb'/Length \d+', b'/Length %d 0 R' % rng.choice([4, 5, 6, 1, 99]), bytes(b), count=rng.choice([1, 9])))
    elif k == 'dup-chunk':
        i = rng.randrange(len(b)); j = min(len(b), i + rng.choice([1, 8, 64]))
        b[i:i] = b[i:j] * rng.choice([2, 10, 200])
    elif k == 'head-junk':
        b[0:0] = bytes(rng.randrange(256) for _ in range(rng.choice([1, 10, 600])))
    return k, bytes(b)


# ------------------------------------------------------------------------------------------
# grammar-directed inputs per entry point
# ------------------------------------------------------------------------------------------
def a85_ref_encode(data):
    out = bytearray()
    for i in range(0, len(data), 4):
        g = data[i:i + 4]; n = len(g)
        v = int.from_bytes(g + bytes(4 - n), 'big')
        if n == 4 and v == 0:
            out.append(ord('z')); continue
        ds = []
        for _ in range(5):
            ds.append(v % 85); v //= 85
        ds.reverse()
        out += bytes(33 + d for d in ds[:n + 1])
    return bytes(out) + b'~>'


def gen_a85(rng):
    r = rng.random()
    if r < 0.35:
        d = bytes(rng.randrange(256) for _ in range(rng.choice([0, 1, 2, 3, 4, 5, 9, 40, 300])))
        if rng.random() < 0.3:
            d = bytes(4 * rng.randint(0, 30)) + d
        return 'valid', a85_ref_encode(d)
    if r < 0.55:
        return 'mut', mutate(rng, a85_ref_encode(bytes(rng.randrange(256) for _ in range(rng.randint(1, 40)))))[1][:20000]
    if r < 0.75:
        alpha = b'!"#stuvz~> \n\x00\xff' + bytes(range(33, 118))
        return 'alpha', bytes(rng.choice(alpha) for _ in range(rng.randint(0, 60)))
    if r < 0.85:
        return 'edge', rng.choice([b's8W-"~>', b's8W-!~>', b'uuuuu~>', b'u~>', b'uu~>', b'uuu', b'~>', b'~', b'>', b'', b'z' * 5000,
                                   b'!!!!!z', b'!z!!!!', b'zzzz~', b's8W-!s8W-!s8W', b'\x00\x00~>', b' ~>', b'~>~>', b'v', b'{|}'])
    return 'random', bytes(rng.randrange(256) for _ in range(rng.randint(0, 80)))


def gen_pred(rng):
    data = bytes(rng.choice([0, 1, 2, 3, 4, 5, 9, 255, rng.randrange(256)]) for _ in range(rng.choice([0, 1, 3, 4, 5, 12, 64, 700])))
    ext = [1, 1, 2, 3, 4, 8, 16] + I64
    p = rng.choice([10, 11, 12, 13, 14, 15, 15, 12, 12, 1, 2, 9, 16, 0, -1, I64MAX])
    return case('pred', str(p), str(rng.choice(ext)), str(rng.choice(ext)), str(rng.choice([8, 8, 8, 16, 1, 0, 7] + I64)), XB(data))


def gen_frame(rng):
    data = bytes(rng.choice([0, 1, 2, 3, 4, 5, 255, rng.randrange(256)]) for _ in range(rng.choice([0, 1, 2, 5, 9, 64, 500])))
    ext = [0, 1, 1, 2, 3, 4, 8, len(data), max(0, len(data) - 1), len(data) + 1] + [e for e in EXTREMES if 0 <= e < 2**64]
    return case('frame', str(rng.choice(ext)), str(rng.choice(ext)), XB(data))


OPS = [b'q', b'Q', b'BT', b'ET', b'Tj', b'TJ', b"'", b'"', b'cm', b're', b'f*', b'Do', b'Tf', b'BI', b'ID', b'EI', b'n']


def gen_operand(rng, depth):
    r = rng.random()
    if depth > 0 and r < 0.25:
        return b'[' + b' '.join(gen_operand(rng, depth - 1) for _ in range(rng.randint(0, 4))) + b']'
    if depth > 0 and r < 0.35:
        return b'<<' + b''.join(b'/K%d ' % i + gen_operand(rng, depth - 1) for i in range(rng.randint(0, 3))) + b'>>'
    return rng.choice([b'1', b'-1', b'0.5', b'.5', b'-.', b'+', b'/N', b'/', b'(a)', b'(a(b)c)', b'(\\', b'<41>', b'<4>', b'<', b'true',
                       b'null', b'%d' % rng.choice(EXTREMES), b'%d.%d' % (rng.choice(I64), rng.randrange(100)), b'(\\777)', b'(\\n\\\n)'])


def gen_inline_image(rng):
    ks = [(b'W', b'Width'), (b'H', b'Height'), (b'BPC', b'BitsPerComponent')]
    d = b''
    for a, k in ks:
        if rng.random() < 0.93:
            d += b'/' + rng.choice([a, a, k]) + b' %d ' % rng.choice([0, 1, 1, 2, 3, 8, 16] + I64)
    if rng.random() < 0.93:
        d += b'/' + rng.choice([b'CS', b'ColorSpace']) + b' /' + rng.choice([b'G', b'RGB', b'CMYK', b'DeviceGray', b'DeviceRGB', b'RGBA',
                                                                              b'Pattern', b'X', b'DeviceCMYK']) + b' '
    if rng.random() < 0.1:
        d += rng.choice([b'/F /AHx ', b'/Filter [/A85] ', b'/F 1 '])
    data = bytes(rng.randrange(256) for _ in range(rng.choice([0, 1, 2, 3, 6, 12, 48])))
    return b'BI ' + d + b'ID ' + data + rng.choice([b' EI', b'EI', b'\nEI ', b'', b' E'])


def gen_content(rng):
    r = rng.random()
    if r < 0.3:
        parts = []
        for _ in range(rng.randint(0, 8)):
            parts.append(b' '.join(gen_operand(rng, 3) for _ in range(rng.randint(0, 3))) + b' ' + rng.choice(OPS))
        return 'ops', b'\n'.join(parts)
    if r < 0.5:
        return 'inline', rng.choice([b'', b'q ']) + gen_inline_image(rng) + rng.choice([b'', b' Q', b' BI'])
    if r < 0.7:
        n = rng.choice([1, nesting_limit() - 1, nesting_limit(), nesting_limit() + 1, 50, 99, 100, 101, 102, 500, 20000])
        o, c = rng.choice([(b'[', b']'), (b'<</A', b'>>'), (b'(', b')'), (b'[<</K[', b']>>]'), (b'[(', b')]')])
        closed = rng.random() < 0.6
        return 'nest', o * n + (b' 1 ' + c * n if closed else b'') + rng.choice([b' TJ', b'', b' Tj'])
    if r < 0.85:
        return 'mut', mutate(rng, b'BT /F1 12 Tf 72.5 712 TD [(Unencoded) 65 (,) ] TJ 0 -14 TD (x\\051) Tj ET q 1 0 0 1 0 0 cm /Im1 Do Q')[1]
    return 'random', bytes(rng.choice(b' \n[]<>()/%\\0123456789.-+abTJjIDEBq\x00\xff') for _ in range(rng.randint(0, 80)))


def gen_objstm(rng):
    members = []
    for i in range(rng.randint(0, 5)):
        members.append(gen_operand(rng, 3))
    idx = b''
    body = b''
    for i, m in enumerate(members):
        num = rng.choice([i + 1, i + 1, 0, 2**32 - 1, 2**32, -1])
        off = rng.choice([len(body), len(body), 0, 2**32 - 1, 2**32, len(body) + 1000])
        idx += b'%d%s%d%s' % (num, rng.choice([b' ', b'\n', b'  ', b'\x00', b'\t']), off, rng.choice([b' ', b'\n']))
        body += m + b' '
    r = rng.random()
    if r < 0.25:
        n = rng.choice([nesting_limit() - 1, nesting_limit(), nesting_limit() + 1, 99, 100, 101, 3000, 40000])
        body = rng.choice([b'[', b'<</A']) * n
        idx = b'1 0 '
    content = idx + body
    first = rng.choice([len(idx)] * 6 + [0, 1, len(content), len(content) + 1, -1] + I64)
    nn = rng.choice([len(members)] * 4 + I64)
    ents = [('Type', N('ObjStm'))]
    if rng.random() < 0.95:
        ents.append(('N', I(nn)))
    if rng.random() < 0.95:
        ents.append(('First', I(first) if rng.random() < 0.95 else N('x')))
    if rng.random() < 0.1:
        content = mutate(rng, content)[1][:20000]
    return case('objstm', D(ents), XB(content))


def gen_xrefstm(rng):
    ws = [rng.choice([0, 1, 1, 2, 3, 4, 5, 8, 9] + I64) for _ in range(rng.choice([3, 3, 3, 3, 2, 4, 0]))]
    nrows = rng.choice([0, 1, 3, 7, 40])
    width = sum(w for w in ws[:3] if 0 <= w <= 16)
    content = bytes(rng.choice([0, 1, 2, 3, 255, rng.randrange(256)]) for _ in range(nrows * max(1, width) + rng.choice([0, 0, 1, -1 if nrows else 0])))
    ents = []
    if rng.random() < 0.95:
        ents.append(('Size', I(rng.choice([nrows, nrows] + I64))))
    if rng.random() < 0.97:
        ents.append(('W', A([I(w) for w in ws]) if rng.random() < 0.95 else I(3)))
    if rng.random() < 0.6:
        idx = []
        for _ in range(rng.choice([1, 1, 2, 3, 200])):
            idx += [rng.choice([0, 1, 5] + I64), rng.choice([nrows, 1, 0, 2] + I64)]
        if rng.random() < 0.1:
            idx = idx[:-1]
        ents.append(('Index', A([I(i) for i in idx])))
    return case('xrefstm', D(ents), XB(content))


def gen_textstr(rng):
    r = rng.random()
    body = bytes(rng.choice([0, 0x41, 0xd8, 0xdc, 0xdf, 0xfe, 0xff, 0xef, 0xbb, 0xbf, 0x80, 0xc0, 0xe0, 0xf0, 0xf8, rng.randrange(256)])
                 for _ in range(rng.choice([0, 1, 2, 3, 4, 5, 8, 33])))
    if r < 0.35:
        return b'\xfe\xff' + body
    if r < 0.6:
        return b'\xef\xbb\xbf' + body
    if r < 0.7:
        return rng.choice([b'\xfe', b'\xff\xfe', b'\xef\xbb', b'\xfe\xff', b'\xef\xbb\xbf', b''])
    return body


def gen_cmap(rng):
    import c15
    defs, lens, first = c15.gen_table(rng)
    stream = c15.render_cmap(rng, defs, lens, first, plain_meta=True)
    kind = 'wf'
    r = rng.random()
    if r < 0.35:
        stream, dk = c15.damage(rng, stream); kind = 'dmg'
    elif r < 0.55:
        # numeric / width extremes inside the hex strings
        s = stream
        for _ in range(rng.choice([1, 2])):
            ms = list(re.finditer(rb'<[0-9a-fA-F]+>', s))
            if ms:
                m = rng.choice(ms)
                s = s[:m.start()] + rng.choice([b'<ffffffff>', b'<00>', b'<ffff>', b'<ffffffffff>', b'<>', b'<f>', b'<' + b'ffff' * 256 + b'>',
                                                b'<' + b'0041' * 257 + b'>', b'<00000000>', b'<d800>', b'<dfff>']) + s[m.end():]
        stream = s; kind = 'hexext'
    elif r < 0.62:
        stream = mutate(rng, stream)[1][:20000]; kind = 'mut'
    codes = c15.mapped_codes(defs)
    text = b''
    for _ in range(rng.randint(0, 12)):
        if codes and rng.random() < 0.7:
            ln, code = rng.choice(codes)
            text += c15.code_bytes(ln, code)
        else:
            text += bytes(rng.randrange(256) for _ in range(rng.randint(1, 5)))
    return kind, case('cmap', XB(stream), XB(text))


def gen_stream(rng):
    data = bytes(rng.randrange(256) for _ in range(rng.choice([0, 1, 10, 200])))
    z = zlib.compress(data)
    filt = rng.choice([[b'FlateDecode'], [b'FlateDecode'], [b'LZWDecode'], [b'ASCII85Decode', b'FlateDecode'], [b'ASCIIHexDecode'],
                       [b'FlateDecode', b'FlateDecode'], []])
    content = z if filt and filt[0] == b'FlateDecode' else (a85_ref_encode(z) if filt and filt[0] == b'ASCII85Decode' else data)
    if rng.random() < 0.4:
        content = mutate(rng, content)[1]
    ents = []
    if filt:
        ents.append(('Filter', N(filt[0]) if len(filt) == 1 and rng.random() < 0.7 else A([N(f) for f in filt])))
    if rng.random() < 0.6:
        parms = D([('Predictor', I(rng.choice([12, 15, 10, 2, 1] + I64))), ('Columns', I(rng.choice([1, 2, 5] + I64))),
                   ('Colors', I(rng.choice([1, 3] + I64))), ('BitsPerComponent', I(rng.choice([8, 16] + I64))),
                   ('EarlyChange', I(rng.choice([0, 1, 2])))])
        ents.append(('DecodeParms', parms if rng.random() < 0.7 else A([parms, NULL])))
    return case('stream', ST(ents, content))


# ------------------------------------------------------------------------------------------
# directed families (every run): which numbers of /W the decoder reads; bfrange target arrays against their range
# ------------------------------------------------------------------------------------------
def many_pairs(n, count=1000000):
    """`0 count` n times: the same object numbers again and again (a decoder that does not stop at least does not eat memory)"""
    return [0, count] * n


def w_family(q):
    """W arrays of length 2..5 over {0, 1, negative} in every position (only the first three numbers are field widths; the
    rest is never read), each with a huge Index count and with many Index pairs; yields (W, Index, content)"""
    import itertools
    content = bytes([1, 0, 7, 0, 2, 1, 9, 0, 0, 3, 3, 3]) * 2
    huge = [[0, I64MAX], [0, 4000000000], [5, 2**62]]
    pairs = many_pairs(2000 if q else 20000)
    k = 0
    for n in (2, 3, 4, 5):
        for ws in itertools.product((0, 1, -1), repeat=n):
            ws = list(ws)
            zero3 = n >= 3 and ws[:3] == [0, 0, 0]
            if n == 5 and not zero3 and q and (k % 3):
                k += 1
                continue                        # quick tier: a third of the 243 five-element arrays (all of them when zero3)
            k += 1
            if zero3:
                for ix in huge + [pairs]:       # the dangerous class: every Index shape
                    yield ws, ix, content
            else:
                yield ws, huge[k % 3], content
                width = sum(ws[:3])
                if n >= 3 and min(ws[:3]) >= 0:
                    yield ws, [3, len(content) // width], content      # the rows fit: every entry is read
                    yield ws, [0, 2, 7, len(content) // width - 2, 9, 0], content
                if k % 4 == 0:
                    yield ws, pairs, content
    for ws in ([0, 0, 0, I64MAX], [0, 0, 0, -I64MAX - 1], [0, 0, 0, 0, 5], [0, 0, 0, 0, 0], [0, 0, 0, 0, 0, 0, 0, 1], [1, 1, 1, -I64MAX - 1],
               [2, 0, 0, -1, -1], [0, 0, I64MAX, 0], [-I64MAX - 1, 0, 0, 1], [0, 0], [0], [], [0, 0, 0, 1] * 50):
        yield ws, [0, I64MAX], content
        yield ws, pairs, content


def w_family_files(q):
    """the same through a whole file: the cross-reference section is a stream with such a /W (uncompressed, so that the row
    data is what is written here)"""
    pairs = many_pairs(2000 if q else 20000)
    for ws in ([0, 0, 0, 1], [0, 0, 0, 0, 5], [0, 0, 0], [0, 0, 0, 0], [0, 0, 0, -1], [1, 2, 1, 0], [1, 2, 1, 7], [1, 2, 1, -1], [1, 2, 1, 0, 0],
               [-1, 2, 1], [1, -1, 1, 0], [1, 2, -1, 5], [0, 2, 1, 0], [1, 2, 0, 0], [1, 2], [0, 0, 1, 0], [0, 1, 0, 0, -1]):
        for ix in ([0, 7], [0, I64MAX], pairs):
            yield ws, ix, pdf_xref_stream(compress=False, w=ws, index=ix)


CMAP_HEAD2 = (b'/CIDInit /ProcSet findresource begin 12 dict begin begincmap /CMapType 2 def '
              b'1 begincodespacerange <0000> <ffff> endcodespacerange ')
CMAP_HEAD1 = (b'/CIDInit /ProcSet findresource begin 12 dict begin begincmap /CMapType 2 def '
              b'1 begincodespacerange <00> <ff> endcodespacerange ')
CMAP_TAIL = b' endcmap CMapName currentdict /CMap defineresource pop end end'


def bfrange_array_family():
    """a bfrange whose target is an ARRAY of strings: the array exactly as long as the range, one short, two short, one
    long, empty, a single string, also after a later overlapping definition has split the range; with a text that uses
    every code of the range and its neighbours (first and LAST code in particular); yields (cmap stream, text, code length)"""
    def arr(k, base=0x41):
        return b'[' + b' '.join(b'<%04x>' % (base + i) for i in range(k)) + b']'
    for clen, head in ((2, CMAP_HEAD2), (1, CMAP_HEAD1)):
        h = lambda c: (b'<%04x>' if clen == 2 else b'<%02x>') % c
        code = lambda c: c.to_bytes(clen, 'big')
        for lo, hi in ((0, 2), (0x10, 0x14), (0, 1), (5, 5), (0xfd, 0xff), (0, 0xff)) + (((0xfffe, 0xffff), (0x0100, 0x0103)) if clen == 2 else ()):
            size = hi - lo + 1
            codes = sorted({c for c in (lo - 1, lo, lo + 1, hi - 1, hi, hi + 1, lo + size // 2) if 0 <= c < 256 ** clen})
            text = b''.join(code(c) for c in codes) + code(hi) + code(lo)
            for k in sorted({size, size - 1, size - 2, size + 1, 0, 1, 2, size // 2}):
                if k < 0 or k > 300:
                    continue
                body = b'1 beginbfrange ' + h(lo) + b' ' + h(hi) + b' ' + arr(k) + b' endbfrange'
                yield head + body + CMAP_TAIL, text, clen
            if size >= 3:
                # a later definition overlaps: the middle / the first / the last code; the remaining pieces keep the array
                for k in (size, size - 1, size + 1):
                    for cut in (lo + 1, lo, hi):
                        body = (b'2 beginbfrange ' + h(lo) + b' ' + h(hi) + b' ' + arr(k) + b' ' + h(cut) + b' ' + h(cut) + b' <0061> endbfrange')
                        yield head + body + CMAP_TAIL, text, clen
                    body = (b'1 beginbfrange ' + h(lo) + b' ' + h(hi) + b' ' + arr(k) + b' endbfrange 1 beginbfchar ' + h(hi - 1) + b' <00620063> endbfchar')
                    yield head + body + CMAP_TAIL, text, clen
                    # the array definition comes LAST and overlaps an earlier, longer range
                    body = (b'2 beginbfrange ' + h(max(0, lo - 1)) + b' ' + h(min(256 ** clen - 1, hi + 1)) + b' <0030> ' + h(lo) + b' ' + h(hi) + b' ' + arr(k) + b' endbfrange')
                    yield head + body + CMAP_TAIL, text, clen


def nesting_boundary():
    """containers nested to the limit of the reader and just around it (and to the limit of string brackets, 100, which the
    container limit used to be), closed, with and without MAX_BRACKET string brackets inside the innermost container -- the
    deepest recursion a file can ask for -- as content operand, object-stream member, indirect object, stream dictionary,
    and behind the longest Length chain.  Run in the release worker on every run and in a DEBUG-profile worker (frames
    are many times larger there) in the thorough tier; yields (kind, case line)"""
    lim = nesting_limit()
    depths = sorted({1, lim - 1, lim, lim + 1, lim + 2, 2 * lim, 66, 84, 99, 100, 101, 120})
    shapes = [(b'[', b']', 1), (b'<</A', b'>>', 1), (b'[<</K', b'>>]', 2), (b'<</A[', b']>>', 2)]
    for o, c, per in shapes:
        for n in depths:
            k = max(1, n // per)
            for inner in (b' 1 ', b'(' * 100 + b')' * 100, b'(' * 101 + b')' * 101):
                nest = o * k + inner + c * k
                if inner == b' 1 ' or n in (lim - 1, lim, lim + 1, 100):
                    yield 'content', case('content', XB(nest + b' TJ'))
                    yield 'objstm', case('objstm', D([('Type', N('ObjStm')), ('N', I(1)), ('First', I(4))]), XB(b'1 0 ' + nest))
                if inner == b' 1 ' or n in (lim, lim + 1):
                    yield 'load', case('load', XB(pdf_classic(simple_objs() + [(7, nest)])))
    for o, c, per in shapes[:2]:
        for n in (lim - 1, lim, lim + 1, 100):
            nest = o * n + b'(' * 100 + b')' * 100 + c * n
            # as a value inside a stream dictionary (the dictionary itself is one more level)
            yield 'load', case('load', XB(pdf_classic(simple_objs() + [(7, b'<</X ' + nest + b'/Length 1>>stream\nx\nendstream')])))
            # behind a chain of Length references (every link is a nested read_object)
            chain = [(i, b'<</Length %d 0 R>>stream\nx\nendstream' % (i + 1)) for i in range(7, 12)]
            chain.append((12, b'<</X ' + nest + b'/Length 1>>stream\nx\nendstream'))
            yield 'load', case('load', XB(pdf_classic(simple_objs() + chain)))
            yield 'incload', case('incload', XB(pdf_classic(simple_objs() + [(7, nest)])))
    yield 'content', case('content', XB(b'(' * 100 + b')' * 100 + b' Tj'))
    yield 'content', case('content', XB(b'BI /W 1 /H 1 /BPC 8 /CS /G /DP ' + b'<</A' * (lim - 1) + b'(' * 100 + b')' * 100 + b'>>' * (lim - 1) + b' ID x EI'))
    yield 'cmap', case('cmap', XB(b'/CIDInit /ProcSet findresource begin 12 dict begin begincmap /CIDSystemInfo ' + b'<</A' * lim + b'(' * 100 + b')' * 100
                                  + b'>>' * lim + b' def /CMapType 2 def 1 begincodespacerange <00> <ff> endcodespacerange 1 beginbfchar <41> <0041> endbfchar endcmap'),
                       XB(b'A'))


def tiny_tail_family():
    """get_xref_start on small files: the last %%EOF at every position 0..60 of the buffer (the code subtracts 25 from it
    behind the guard `eof_pos > 25`), with and without a startxref line before it, with bytes before %PDF- (the buffer is
    sliced at the header first), and with the keyword split across the 512-byte window"""
    for pos in range(0, 61):
        pad = max(0, pos - 9)
        yield b'%PDF-1.4\n' + b'x' * pad + b'%%EOF\n'
        yield b'%PDF-1.4\n' + b'x' * pad + b'%%EOF'
        if pos >= 22:
            yield b'%PDF-1.4\n' + b'x' * (pos - 22) + b'startxref\n0\n%%EOF\n'
            yield b'junk' * 3 + b'%PDF-1.4\n' + b'x' * (pos - 22) + b'startxref\n9\n%%EOF'
    for k in (500, 505, 507, 508, 511, 512, 513, 520, 537, 538, 600):
        yield b'%PDF-1.4\n' + b'startxref\n0\n%%EOF\n' + b' ' * k
        yield b'%PDF-1.4\n' + b'%%EOF' * 3 + b'startxref\n0\n' + b'%%EOF ' * (k // 6)
    yield b'%%EOF'
    yield b'%PDF-'
    yield b'%PDF-1.4\n' + b'%%EOF' * 200
    yield b'%PDF-1.4\n' + b'startxref' * 100 + b'%%EOF'


def encrypt_family():
    """Reader::read ends with authenticate_password("") / decrypt: files whose encryption dictionary (direct in the trailer or
    indirect) carries every V / R combination -- consistent or not -- with /Length extremes (0, 4, 7, 8, 12, 40, 128, 136, 256,
    2048, negative, huge), short / long / missing O, U, OE, UE, Perms and ID: Rc4::new asserts a key of 1..=256 bytes, the key
    derivation slices O / U at fixed positions"""
    lengths = [None, 0, 4, 7, 8, 12, 40, 128, 136, 256, 2048, -8, I64MAX]
    vr = [(1, 2), (2, 3), (4, 4), (5, 5), (5, 6), (4, 3), (2, 4), (1, 3), (5, 3), (0, 0), (3, 3), (6, 6), (-1, -1), (I64MAX, I64MAX)]
    k = 0
    for v, r in vr:
        for ln in lengths:
            k += 1
            if k % 3 and (v, r) not in ((5, 3), (2, 3)) and ln not in (0, 4, 7):
                continue
            for olen, ulen in ((32, 32), (48, 48), (0, 0), (31, 33), (127, 127)) if k % 5 == 0 else ((48, 48) if v >= 5 else (32, 32),):
                d = b'<</Filter/Standard/V %d/R %d/P -4' % (v, r)
                if ln is not None:
                    d += b'/Length %d' % ln
                d += b'/O<' + b'41' * olen + b'>/U<' + b'42' * ulen + b'>'
                if v >= 4:
                    d += b'/CF<</StdCF<</CFM/%s/AuthEvent/DocOpen%s>>>>/StmF/StdCF/StrF/StdCF' % (
                        [b'AESV2', b'AESV3', b'V2', b'None', b'X'][k % 5], (b'/Length %d' % ln) if ln is not None and k % 2 else b'')
                if v >= 5 and k % 4:
                    d += b'/OE<' + b'43' * 32 + b'>/UE<' + b'44' * 32 + b'>/Perms<' + b'45' * (16 if k % 8 else 5) + b'>'
                d += b'>>'
                ident = b'' if k % 7 == 0 else b'/ID[<%s><%s>]' % (b'00' * (16 if k % 6 else 0), b'11' * 16)
                objs = simple_objs() + [(7, b'(secret)')]
                if k % 2:
                    yield pdf_classic(objs, extra_trailer=b'/Encrypt ' + d + ident)
                else:
                    yield pdf_classic(objs + [(8, d)], extra_trailer=b'/Encrypt 8 0 R' + ident)


def pdf_with_tounicode(cmap, text, clen):
    """one page whose font has the given ToUnicode CMap (Identity-H for two-byte codes) and whose content shows [text]"""
    hexs = b'<' + text.hex().encode() + b'>'
    content = b'BT /F1 12 Tf ' + hexs + b' Tj [' + hexs + b' -20 ' + hexs + b'] TJ ET'
    font = (b'<</Type/Font/Subtype/Type0/BaseFont/X/Encoding/Identity-H/ToUnicode 6 0 R>>' if clen == 2 else
            b'<</Type/Font/Subtype/Type1/BaseFont/X/ToUnicode 6 0 R>>')
    objs = [
        (1, b'<</Type/Catalog/Pages 2 0 R>>'),
        (2, b'<</Type/Pages/Kids[3 0 R]/Count 1>>'),
        (3, b'<</Type/Page/Parent 2 0 R/MediaBox[0 0 99 99]/Contents 4 0 R/Resources<</Font<</F1 5 0 R>>>>>>'),
        (4, stream_obj(b'', content)),
        (5, font),
        (6, stream_obj(b'', cmap)),
    ]
    return pdf_classic(objs)


# ------------------------------------------------------------------------------------------
# Prev-chain shapes: the graph of cross-reference sections a file can describe.  Section 0 is the one startxref names;
# every section may name another one by Prev (and a table section a cross-reference stream by XRefStm).  Reader::read must
# stop on every shape: self loops, cycles through the first section, and rho shapes (a tail of 1..3 sections leading into a
# cycle of 2..4 sections that does not contain the first one).
# ------------------------------------------------------------------------------------------
def prev_chain_file(kinds, nxt, xrefstm=None, eof_tail=b'\n'):
    """kinds[i] in 't' / 's': section i is a table with trailer / a cross-reference stream; nxt[i]: the section its Prev names
    (None: no Prev; an int >= len(kinds): that many bytes behind the end of the file region, i.e. a wild offset);
    xrefstm: {i: j} the trailer of table section i has XRefStm naming section j.  Offsets are written with 10 digits, so the
    layout does not depend on them (two passes)."""
    xrefstm = xrefstm or {}
    pos = {i: 0 for i in range(len(kinds))}

    def build():
        out = bytearray(b'%PDF-1.5\n')
        offs = {}
        for num, body in [(1, b'<</Type/Catalog/Pages 2 0 R>>'), (2, b'<</Type/Pages/Kids[]/Count 0>>')]:
            offs[num] = len(out)
            out += b'%d 0 obj\n%s\nendobj\n' % (num, body)
        here = {}
        for i, k in enumerate(kinds):
            here[i] = len(out)
            extra = b''
            if nxt[i] is not None:
                extra += b'/Prev %010d' % (pos[nxt[i]] if nxt[i] < len(kinds) else 9000000000 + nxt[i])
            if i in xrefstm:
                extra += b'/XRefStm %010d' % pos[xrefstm[i]]
            if k == 't':
                out += b'xref\n0 3\n0000000000 65535 f \n%010d 00000 n \n%010d 00000 n \n' % (offs[1], offs[2])
                out += b'trailer\n<</Size %d/Root 1 0 R%s>>\n' % (10 + len(kinds), extra)
            else:
                num = 10 + i
                rows = [(0, 0, 255), (1, offs[1], 0), (1, offs[2], 0), (1, here[i], 0)]
                data = b''.join(bytes([t]) + a.to_bytes(2, 'big') + bytes([g]) for t, a, g in rows)
                out += b'%d 0 obj\n<</Type/XRef/Size %d/W[1 2 1]/Index[0 3 %d 1]/Root 1 0 R%s/Length %d>>stream\n' % (
                    num, 10 + len(kinds), num, extra, len(data)) + data + b'\nendstream\nendobj\n'
        out += b'startxref\n%d\n%%%%EOF' % here[0] + eof_tail
        return bytes(out), here
    _, here = build()
    pos.update(here)
    return build()[0]


def prev_chain_shapes():
    """(name, nxt) with section 0 first: tail t (sections before the cycle, 0 = the cycle passes through the first section),
    cycle c (1 = self loop)"""
    for t in range(0, 4):
        for c in range(1, 5):
            n = t + c
            nxt = [i + 1 for i in range(n)]
            nxt[n - 1] = t
            yield 't%dc%d' % (t, c), nxt
    yield 'open3', [1, 2, None]                  # no cycle: the chain just ends
    yield 'wild', [1, 2, 5]                      # the last Prev points outside the file
    yield 'fan', [2, 2, 1]                       # 0 -> 2 -> 1 -> 2


def prev_chain_family(q):
    for name, nxt in prev_chain_shapes():
        n = len(nxt)
        layouts = [('t', ['t'] * n), ('s', ['s'] * n), ('ts', [('t', 's')[i % 2] for i in range(n)]), ('st', [('s', 't')[i % 2] for i in range(n)])]
        for li, (lname, kinds) in enumerate(layouts):
            if q and lname in ('ts', 'st') and n % 2:          # quick tier: the alternating layouts for every other shape
                continue
            f = prev_chain_file(kinds, nxt)
            yield 'loadm', name + '-' + lname, f
            if not q or (lname == 't' and n % 2 == 0) or (lname == 's' and n % 2 == 1):
                yield 'incloadm', name + '-' + lname, f
            # the sections in the opposite file order (Prev pointing forwards and backwards)
            if n >= 2 and (not q or (lname == 't' and n <= 3) or (lname == 'st' and n == 4)):
                perm = list(range(n))[::-1]
                inv = {old: new for new, old in enumerate(perm)}
                # section 0 must stay the one startxref names: build with renamed indices, startxref = position of old 0
                kinds2 = [kinds[perm[j]] for j in range(n)]
                nxt2 = [None if nxt[perm[j]] is None else (inv[nxt[perm[j]]] if nxt[perm[j]] < n else nxt[perm[j]]) for j in range(n)]
                f2 = prev_chain_file_start(kinds2, nxt2, inv[0])
                yield 'loadm', name + '-' + lname + '-rev', f2
    # XRefStm pointers into the chain: a table section names a cross-reference stream by XRefStm; that stream is a node of the
    # chain, a node of the cycle, the naming section itself (a table read as the stream), or a section outside the chain
    # whose own Prev leads into it
    for name, kinds, nxt, xs in [
        ('x-into-cycle', ['t', 't', 's', 's'], [1, 2, 3, 2], {0: 2}),
        ('x-into-cycle2', ['t', 't', 's', 's'], [1, 2, 3, 2], {1: 3}),
        ('x-every', ['t', 's', 't', 's'], [1, 2, 3, 1], {0: 1, 2: 3}),
        ('x-self', ['t', 't', 't'], [1, 2, 1], {0: 0, 1: 1, 2: 2}),
        ('x-table', ['t', 't', 't'], [1, 2, 1], {0: 2, 1: 0}),
        ('x-outside', ['t', 't', 't', 's'], [1, 2, 1, 1], {0: 3, 2: 3}),
        ('x-outside-self', ['t', 't', 's'], [1, 0, 2], {0: 2, 1: 2}),
        ('x-first-only', ['t', 's'], [None, 0], {0: 1}),
        ('x-rho', ['t', 's', 't', 's', 't'], [1, 2, 3, 4, 2], {0: 3, 2: 1, 4: 3}),
    ]:
        f = prev_chain_file(kinds, nxt, xs)
        yield 'loadm', name, f
        if not q or name in ('x-rho', 'x-self', 'x-first-only'):
            yield 'incloadm', name, f


def prev_chain_file_start(kinds, nxt, start):
    """as prev_chain_file with startxref naming section [start]"""
    f = prev_chain_file(kinds, nxt)
    # recompute the section positions: tables start with "xref\n", streams with "<num> 0 obj\n<</Type/XRef"
    starts = [m.start() for m in re.finditer(rb'(?:xref\n0 3\n|\d+ 0 obj\n<</Type/XRef)', f)]
    return re.sub(rb'startxref\n\d+\n', b'startxref\n%d\n' % starts[start], f)


# ------------------------------------------------------------------------------------------
# C04-objstm-shared-offsets (FIXED in /repo: ObjectStream::new charges every member and stops at MAX_MEMBER_OVERLAP * |content|):
# the index of an object stream names the same offset again and again; every pair parsed -- and kept -- the object that
# starts there: pairs * |object| bytes from an index of 5 bytes per pair.  The files stay in the case list: they must load
# (without the members) inside the worker's limits now.  No known-finding class is left for this property.
# ------------------------------------------------------------------------------------------
def objstm_shared_offsets_file(npairs=5000, big=300000):
    idx = b''.join(b'%d 0 ' % (i + 10) for i in range(npairs))
    plain = idx + b'(' + b'a' * big + b')'
    data = zlib.compress(plain, 9)
    objs = [(1, b'<</Type/Catalog/Pages 2 0 R>>'), (2, b'<</Type/Pages/Kids[]/Count 0>>'),
            (3, b'<</Type/ObjStm/N %d/First %d/Filter/FlateDecode/Length %d>>stream\n' % (npairs, len(idx), len(data)) + data + b'\nendstream')]
    return pdf_classic(objs)


def objstm_overlap_file(kind, npairs=4000, big=200000):
    """further shapes of members that share bytes: distinct offsets inside one long run of nested brackets / inside one
    long string, and offsets where NO object starts (every run fails after reading the rest)"""
    if kind == 'fail':          # an unterminated array: every run reads to the end and fails
        body = b'[' + b'0 ' * (big // 2)
        idx = b''.join(b'%d 0 ' % (i + 10) for i in range(npairs))
    elif kind == 'stairs':      # increasing offsets, each inside the array that starts at the one before
        depth = 14
        body = b'[' * depth + b'0 ' * (big // 2) + b']' * depth
        idx = b''.join(b'%d %d ' % (i + 10, i % depth) for i in range(npairs))
    else:                       # 'tail': offsets walk through a long run of numbers, each run is short
        body = b'0 ' * (big // 2)
        idx = b''.join(b'%d %d ' % (i + 10, 2 * i) for i in range(npairs))
    plain = idx + body
    data = zlib.compress(plain, 9)
    objs = [(1, b'<</Type/Catalog/Pages 2 0 R>>'), (2, b'<</Type/Pages/Kids[]/Count 0>>'),
            (3, b'<</Type/ObjStm/N %d/First %d/Filter/FlateDecode/Length %d>>stream\n' % (npairs, len(idx), len(data)) + data + b'\nendstream')]
    return pdf_classic(objs)


# ------------------------------------------------------------------------------------------
# deferred stream lengths (Reader::read_stream_content): a stream whose /Length is a reference the parser cannot turn into a
# number while it reads the stream keeps its position; after all objects (and the members of the object streams) are loaded the
# length is looked up again -- with the arithmetic `start + length` on a number the FILE chooses (seeded C04/p1)
# ------------------------------------------------------------------------------------------
def pdf_xref_stream_of(objs, members=(), ostm_num=None, compress=False, root=1, extra=b'', header=b'%PDF-1.5\n'):
    """objs: (num, body) top-level objects; members: (num, body) put into ONE object stream numbered ostm_num; the
    cross-reference section is a stream W [1 4 2] numbered max + 1 (not compressed: the loader model reads it without a decoder)"""
    out = bytearray(header)
    offs = {}
    for num, body in objs:
        offs[num] = len(out)
        out += b'%d 0 obj\n' % num + body + b'\nendobj\n'
    comp = {}
    if members:
        idx, body = b'', b''
        for i, (n, b) in enumerate(members):
            idx += b'%d %d ' % (n, len(body))
            body += b + b'\n'
            comp[n] = i
        plain = idx + body
        data = zlib.compress(plain, 9) if compress else plain
        offs[ostm_num] = len(out)
        out += b'%d 0 obj\n<</Type/ObjStm/N %d/First %d%s/Length %d>>stream\n' % (
            ostm_num, len(members), len(idx), b'/Filter/FlateDecode' if compress else b'', len(data)) + data + b'\nendstream\nendobj\n'
    xnum = max(list(offs) + list(comp)) + 1
    offs[xnum] = len(out)
    raw = b''
    for n in range(xnum + 1):
        if n in offs:
            raw += b'\x01' + offs[n].to_bytes(4, 'big') + b'\x00\x00'
        elif n in comp:
            raw += b'\x02' + ostm_num.to_bytes(4, 'big') + comp[n].to_bytes(2, 'big')
        else:
            raw += b'\x00\x00\x00\x00\x00' + (b'\xff\xff' if n == 0 else b'\x00\x00')
    out += b'%d 0 obj\n<</Type/XRef/Size %d/W[1 4 2]/Root %d 0 R%s/Length %d>>stream\n' % (xnum, xnum + 1, root, extra, len(raw))
    out += raw + b'\nendstream\nendobj\nstartxref\n%d\n%%%%EOF\n' % offs[xnum]
    return bytes(out)


def objstm_plain_obj(members):
    idx, body = b'', b''
    for n, b in members:
        idx += b'%d %d ' % (n, len(body))
        body += b + b'\n'
    plain = idx + body
    return b'<</Type/ObjStm/N %d/First %d/Length %d>>stream\n' % (len(members), len(idx), len(plain)) + plain + b'\nendstream'


LENGTH_VALUES = [b'-1', b'-2', b'-3', b'-7', b'-8', b'-64', b'-255', b'-4096', b'-2147483648', b'-4294967296', b'-9223372036854775807',
                 b'-9223372036854775808', b'0', b'1', b'3', b'4', b'5', b'11', b'100000', b'4294967295', b'4294967296',
                 b'9223372036854775807', b'18446744073709551615', b'-0', b'+3', b'3.0', b'-1.0', b'-7.5', b'/Three', b'(3)', b'null',
                 b'true', b'[3]', b'<</Length -1>>']


def deferred_length_family(q):
    """`/Length N 0 R` where N is (a) a plain integer object written AFTER the stream (resolved while parsing), (b) a reference
    to a reference (to the value; also a chain of three, and a reference cycle), (c) a member of an object stream (type-2 entry
    in a cross-reference stream; in a table file the member is only known once the object streams are expanded), (d) missing /
    free / its own stream; the value every kind of number and non-number.  The data are `ABC`, 0 bytes, and 300 bytes; the
    stream is the first, a middle and the LAST object before the cross-reference section (start + length near the file end).
    Yields (kind, name, file)"""
    cat = [(1, b'<</Type/Catalog/Pages 2 0 R>>'), (2, b'<</Type/Pages/Kids[]/Count 0>>')]
    k = 0
    for vi, val in enumerate(LENGTH_VALUES):
        for di, data in enumerate((b'ABC', b'', b'x' * 300)):
            if q and di and (vi + di) % 4:
                continue
            st = lambda ref: (3, b'<</Length %s>>stream\n' % ref + data + b'\nendstream')
            shapes = [
                ('a-later', 't', cat + [st(b'4 0 R'), (4, val)], ()),
                ('a-earlier', 't', cat[:1] + [(4, val)] + cat[1:] + [st(b'4 0 R')], ()),
                ('b-refref', 't', cat + [st(b'4 0 R'), (4, b'5 0 R'), (5, val)], ()),
                ('b-refref-last', 't', cat + [(4, b'5 0 R'), (5, val), st(b'4 0 R')], ()),
                ('b-chain3', 't', cat + [st(b'4 0 R'), (4, b'5 0 R'), (5, b'6 0 R'), (6, val)], ()),
                ('c-member', 's', cat + [st(b'5 0 R')], [(5, val)]),
                ('c-member-ref', 's', cat + [st(b'6 0 R'), (6, b'5 0 R')], [(5, val)]),
                ('c-member-of-ref', 's', cat + [st(b'5 0 R'), (6, val)], [(5, b'6 0 R')]),
                ('c-member-table', 't', cat + [st(b'5 0 R')], [(5, val)]),         # a table cannot list the member
                ('b-refref-s', 's', cat + [st(b'4 0 R'), (4, b'5 0 R'), (5, val)], ()),
                ('a-later-s', 's', cat + [st(b'4 0 R'), (4, val)], ()),
                ('c-member-z', 's', cat + [st(b'5 0 R')], [(5, val), (7, b'<</K 1>>')]),
            ]
            for si, (name, fmt, objs, members) in enumerate(shapes):
                k += 1
                if q and di and si % 3 != k % 3:
                    continue
                if fmt == 't':
                    f = pdf_classic(objs + ([(9, objstm_plain_obj(members))] if members else []))
                else:
                    f = pdf_xref_stream_of(objs, members, 9, compress=name.endswith('-z'))
                nm = '%s-%s-%d' % (name, val.decode('latin1'), len(data))
                yield ('loadm' if not name.endswith('-z') else 'load'), nm, f
                if not q or k % 3 == 0 or (val in (b'-1', b'-7') and name.startswith(('b-', 'c-'))):
                    yield ('incloadm' if not name.endswith('-z') else 'incload'), nm, f
    # (d) the length object is missing, free, the stream itself, another stream, a cycle of references
    for name, objs in [
        ('d-missing', cat + [(3, b'<</Length 4 0 R>>stream\nABC\nendstream')]),
        ('d-missing-big', cat + [(3, b'<</Length 4000000000 0 R>>stream\nABC\nendstream')]),
        ('d-gen', cat + [(3, b'<</Length 4 1 R>>stream\nABC\nendstream'), (4, b'-1')]),
        ('d-self', cat + [(3, b'<</Length 3 0 R>>stream\nABC\nendstream')]),
        ('d-cycle', cat + [(3, b'<</Length 4 0 R>>stream\nABC\nendstream'), (4, b'5 0 R'), (5, b'4 0 R')]),
        ('d-stream', cat + [(3, b'<</Length 4 0 R>>stream\nABC\nendstream'), (4, b'<</Length 5 0 R>>stream\nX\nendstream'), (5, b'4 0 R')]),
        ('d-two', cat + [(3, b'<</Length 5 0 R>>stream\nABC\nendstream'), (4, b'<</Length 5 0 R>>stream\nDEFG\nendstream'), (5, b'6 0 R'), (6, b'-1')]),
        ('d-nolength', cat + [(3, b'<<>>stream\nABC\nendstream')]),
        ('d-refref-missing', cat + [(3, b'<</Length 4 0 R>>stream\nABC\nendstream'), (4, b'5 0 R')]),
    ]:
        yield 'loadm', name, pdf_classic(objs)
        yield 'incloadm', name, pdf_classic(objs)
        yield 'loadm', name + '-s', pdf_xref_stream_of(objs)


# ------------------------------------------------------------------------------------------
# ToUnicode CMaps that map nothing (seeded C04/p3): only codespace ranges, no section at all, empty sections, only notdef
# ranges -- with texts of 1..300 bytes.  Every byte of the text then belongs to an unmapped code; what keeps the code
# accumulator (u32) and the byte counter (u8) of Encoding::bytes_to_string in range is the cut at four bytes.
# ------------------------------------------------------------------------------------------
CMAP_PRE = b'/CIDInit /ProcSet findresource begin 12 dict begin begincmap /CMapType 2 def '


def empty_cmap_family():
    """yields (name, cmap stream, text, code length for the font dictionary of the whole-file variant)"""
    cmaps = [
        ('cs1', CMAP_PRE + b'1 begincodespacerange <00> <ff> endcodespacerange' + CMAP_TAIL, 1),
        ('cs2', CMAP_PRE + b'1 begincodespacerange <0000> <ffff> endcodespacerange' + CMAP_TAIL, 2),
        ('cs3', CMAP_PRE + b'1 begincodespacerange <000000> <ffffff> endcodespacerange' + CMAP_TAIL, 2),
        ('cs4', CMAP_PRE + b'1 begincodespacerange <00000000> <ffffffff> endcodespacerange' + CMAP_TAIL, 2),
        ('cs12', CMAP_PRE + b'2 begincodespacerange <00> <7f> <8000> <ffff> endcodespacerange' + CMAP_TAIL, 2),
        ('cs-two', CMAP_PRE + b'1 begincodespacerange <00> <ff> endcodespacerange 1 begincodespacerange <0000> <ffff> endcodespacerange' + CMAP_TAIL, 1),
        ('none', CMAP_PRE.rstrip() + CMAP_TAIL, 1),
        ('bfchar0', CMAP_PRE + b'1 begincodespacerange <00> <ff> endcodespacerange 0 beginbfchar endbfchar' + CMAP_TAIL, 1),
        ('bfrange0', CMAP_PRE + b'1 begincodespacerange <00> <ff> endcodespacerange 0 beginbfrange endbfrange' + CMAP_TAIL, 1),
        ('notdef', CMAP_PRE + b'1 begincodespacerange <00> <ff> endcodespacerange 1 beginnotdefrange <00> <ff> 0 endnotdefrange' + CMAP_TAIL, 1),
        ('notdef-only', CMAP_PRE + b'1 beginnotdefrange <00> <ff> 0 endnotdefrange' + CMAP_TAIL, 1),
        ('cs-lf', CMAP_PRE.replace(b' ', b'\n') + b'1 begincodespacerange\n<0000> <FFFF>\nendcodespacerange\n' + b'endcmap\nCMapName currentdict /CMap defineresource pop\nend\nend\n', 2),
        # controls: one mapping of 1 / 2 / 3 / 4 bytes (the longest code the CMap uses is then 1..4)
        ('one1', CMAP_HEAD1 + b'1 beginbfchar <41> <0041> endbfchar' + CMAP_TAIL, 1),
        ('one2', CMAP_HEAD2 + b'1 beginbfchar <0041> <0041> endbfchar' + CMAP_TAIL, 2),
        ('one3', CMAP_HEAD2 + b'1 beginbfchar <000041> <0041> endbfchar' + CMAP_TAIL, 2),
        ('one4', CMAP_HEAD2 + b'1 beginbfrange <00000041> <00000043> <0041> endbfrange' + CMAP_TAIL, 2),
    ]
    texts = []
    for n in (1, 2, 3, 4, 5, 6, 7, 8, 9, 12, 16, 17, 33, 64, 100, 255, 256, 257, 258, 300):
        texts.append(('z%d' % n, bytes(n)))                                    # a run of zero bytes
        texts.append(('f%d' % n, b'\xff' * n))
        texts.append(('a%d' % n, bytes((0x41 + i) % 256 for i in range(n))))
        if n > 1:
            texts.append(('1z%d' % n, b'\x01' + bytes(n - 1)))                 # the first byte is not zero
            texts.append(('z1%d' % n, bytes(n - 1) + b'\x01'))
    for name, cm, clen in cmaps:
        for tname, text in texts:
            yield name + '-' + tname, cm, text, clen


def gen_cases(rng, tier):
    q = tier == 'quick'
    cases = []

    def add(line, kind, nontrivial=True):
        cases.append((line, {'kind': kind, 'nontrivial': nontrivial}))
    for _ in range(160 if q else 3200):
        k, b = gen_a85(rng); add(case('a85', XB(b)), 'a85-' + k, len(b) > 0)
    for _ in range(140 if q else 2800):
        add(gen_pred(rng), 'pred')
    for _ in range(80 if q else 1600):
        add(gen_frame(rng), 'frame')
    for _ in range(260 if q else 5200):
        k, b = gen_content(rng); add(case('content', XB(b)), 'content-' + k, len(b) > 0)
    for _ in range(140 if q else 2800):
        add(gen_objstm(rng), 'objstm')
    for _ in range(200 if q else 4000):
        add(gen_xrefstm(rng), 'xrefstm')
    for _ in range(120 if q else 2400):
        b = gen_textstr(rng); add(case('textstr', XB(b)), 'textstr', len(b) > 0)
    for _ in range(140 if q else 2800):
        k, line = gen_cmap(rng); add(line, 'cmap-' + k)
    for _ in range(80 if q else 1600):
        add(gen_stream(rng), 'stream')
    seeds = seed_files()
    for name, b in seeds:
        add(case('load', XB(b)), 'load-valid')
        add(case('incload', XB(b)), 'incload-valid')
    for _ in range(420 if q else 8400):
        name, b = rng.choice(seeds)
        k, m = mutate(rng, b)
        if rng.random() < 0.25:
            k2, m = mutate(rng, m); k = 'double'
        add(case(rng.choice(['load', 'load', 'load', 'incload']), XB(m)), 'load-' + k)
    # directed adversarial inputs: the recorded defects and their neighbours, every run
    W = lambda a, b, c: ('W', A([I(a), I(b), I(c)]))
    for ents, content in [
        ([('Size', I(3)), W(0, 0, 0), ('Index', A([I(0), I(4000000000)]))], b'abc'),
        ([('Size', I(3)), W(0, 0, 0)], b'abc'),
        ([('Size', I(I64MAX)), W(0, 0, 0)], b''),
        ([('Size', I(3)), W(I64MAX, 1, 1)], b'abc'),
        ([('Size', I(3)), W(1, I64MAX, 1)], b'abc'),
        ([('Size', I(3)), W(1, 1, I64MAX)], b'\x01\x00'),
        ([('Size', I(3)), W(2**40, 2**40, 2**40)], b'abc'),
        ([('Size', I(3)), W(1, 1, 1), ('Index', A([I(I64MAX - 1), I(3)]))], b'\x01\x00\x00' * 3),
        ([('Size', I(3)), W(1, 1, 1), ('Index', A([I(I64MAX), I(I64MAX)]))], b'\x01\x00\x00' * 3),
        ([('Size', I(3)), W(0, 0, 1), ('Index', A([I(0), I(I64MAX)]))], b'abcdef'),
        ([('Size', I(3)), W(0, 1, 0), ('Index', A([I(-5), I(I64MAX)]))], b'abcdef'),
        ([('Size', I(2)), W(1, 0, 0), ('Index', A([I(0), I(I64MAX)]))], b'\x01\x01\x07\x00'),
    ]:
        add(case('xrefstm', D(ents), XB(content)), 'xrefstm-directed')
    head = (b'/CIDInit /ProcSet findresource begin 12 dict begin begincmap /CMapType 2 def '
            b'1 begincodespacerange <00> <ff> endcodespacerange ')
    tail = b' endcmap CMapName currentdict /CMap defineresource pop end end'
    for body, text in [
        (b'1 beginbfrange <00> <ff> <0041ffff> endbfrange', b'\x00\x01\xff'),          # += on the last unit overflows u16
        (b'1 beginbfrange <00> <ff> <ffff> endbfrange', b'\x00\x01\xff'),
        (b'1 beginbfrange <00> <ff> [<0041> <0042>] endbfrange', b'\x00\x01\x02\xff'),  # array shorter than the range
        (b'1 beginbfrange <00> <ff> [<0041>] endbfrange', b'\x00\x05'),
        (b'2 beginbfrange <10> <1f> <d83dde00> <00> <0f> <00410042> endbfrange 1 beginbfchar <15> <0041> endbfchar', b'\x16\x15\x1f\x0f'),
        (b'1 beginbfrange <ff> <00> <0041> endbfrange', b'\x00'),
        (b'1 beginbfrange <00> <ff> [] endbfrange', b'\x00'),
        (b'1 beginbfchar <ffffffff> <ffff> endbfchar', b'\xff\xff\xff\xff\xff'),
        (b'1 beginbfrange <00000000> <ffffffff> <0000ffff> endbfrange', b'\xff\xff\xff\xff\x00\x00\x00\x01'),
    ]:
        add(case('cmap', XB(head + body + tail), XB(text)), 'cmap-directed')
    for b in [b's8W-"~>', b's8W-!~>', b'uuuuu~>', b'u~>', b'uu', b'~>', b'~', b'']:
        add(case('a85', XB(b)), 'a85-directed', len(b) > 0)
    for p, cols, colors, bits, data in [(12, I64MAX, I64MAX, 8, b'\x00abc'), (12, 4000000000, 1, 8, b'\x00abc'), (12, 1, 1, I64MAX, b'\x00abc'),
                                        (15, 2**61, 4, 16, b'\x02abc'), (12, 3, 1, 8, b'\x00abc\x02abc'), (12, 2**40, 1, 8, b'')]:
        add(case('pred', str(p), str(cols), str(colors), str(bits), XB(data)), 'pred-directed')
    for b in [b'BI /W 9223372036854775807 /H 1 /BPC 8 /CS /RGB ID abc EI', b'BI /W -1 /H 1 /BPC 8 /CS /G ID x EI',
              b'BI /W 2 /H 1 /BPC 8 /CS /RGB ID abcdef EI Q', b'BI /W 1 /H -1 /BPC 1 /CS /G ID x EI',
              b'[' * 100 + b']' * 100 + b' TJ', b'[' * 101 + b']' * 101 + b' TJ', b'[' * 2000 + b']' * 2000 + b' TJ', b'<</A' * 3000,
              b'(' * 101 + b')' * 101 + b' Tj', b'(' * 5000]:
        add(case('content', XB(b)), 'content-directed')
    for ws, ix, content in w_family(q):
        add(case('xrefstm', D([('Size', I(3)), ('W', A([I(w) for w in ws])), ('Index', A([I(i) for i in ix]))]), XB(content)), 'xrefstm-wfamily')
    for ws, ix, f in w_family_files(q):
        add(case('load', XB(f)), 'load-wfamily')
        if len(ix) == 2:
            add(case('incload', XB(f)), 'incload-wfamily')
    for i, (cm, text, clen) in enumerate(bfrange_array_family()):
        add(case('cmap', XB(cm), XB(text)), 'cmap-arrayfamily')
        if not q or i % 3 == 0 or b'<0000> <0002> [<0041> <0042>]' in cm:
            add(case('loadtext', XB(pdf_with_tounicode(cm, text, clen))), 'loadtext-arrayfamily')
    for k, line in nesting_boundary():
        add(line, k + '-nestboundary')
    add(case('load', XB(objstm_shared_offsets_file(1000, 100000))), 'load-objstm-shared')       # before the repair: 100 MB
    add(case('load', XB(objstm_shared_offsets_file())), 'load-objstm-shared')                     # before the repair: 1.5 GB (abort)
    for kind in ('fail', 'stairs', 'tail'):
        add(case('load', XB(objstm_overlap_file(kind))), 'load-objstm-shared')
    for b in tiny_tail_family():
        add(case('load', XB(b)), 'load-tinytail')
    for b in encrypt_family():
        add(case('load', XB(b)), 'load-encrypt')
    # adversarial whole files
    n = 3000 if q else 20000
    chain = [(i, b'<</Length %d 0 R>>stream\nx\nendstream' % (i + 1)) for i in range(1, n + 1)] + [(n + 1, b'1')]
    add(case('load', XB(pdf_classic(chain))), 'load-length-chain')
    add(case('load', XB(pdf_classic([(1, b'<</Type/Catalog/X ' + b'[' * 50000 + b'>>')]))), 'load-deep-array')
    add(case('load', XB(pdf_classic(simple_objs(), prev=0))), 'load-prev-0')
    for kind, name, f in prev_chain_family(q):
        add(case(kind, XB(f)), kind + '-prevchain')
    for kind, name, f in deferred_length_family(q):
        add(case(kind, XB(f)), kind + '-deferredlength')
    for i, (name, cm, text, clen) in enumerate(empty_cmap_family()):
        if q and i % 2 and not name.startswith(('cs1-', 'cs2-')):
            continue
        add(case('cmap', XB(cm), XB(text)), 'cmap-emptyfamily')
        if not q or i % 5 == 0:
            add(case('loadtext', XB(pdf_with_tounicode(cm, text, clen))), 'loadtext-emptyfamily')
    return cases


# ------------------------------------------------------------------------------------------
# comparison: class + size exactly; measured request against the model's annotation
# ------------------------------------------------------------------------------------------
RX = re.compile(r'^\(r (\([a-z]+(?: [a-z0-9]+)?\))(?: \(([cm]) (\d+) (\d+)(?: (\d+))?\))?\)$')
ALLOC_SLACK = 1 << 17     # harness / error-value / inflate-state noise


def compare(model_out, impl_out):
    if model_out == '(r any)':
        return True
    mm, mi = RX.match(model_out), RX.match(impl_out)
    if not mm or not mi:
        return False
    if mm.group(1) != mi.group(1):
        return False
    if mm.group(2) == 'c' and mi.group(2) == 'm':
        model_alloc = int(mm.group(4))
        measured = int(mi.group(3))
        if measured > 2 * model_alloc + ALLOC_SLACK:
            return False
    return True


SPEC = {
    'gen_parts': ['Filters', 'Lex', 'CMapC', 'Tables', 'ObjStmC'],
    'allowed_axioms': (),
    'runner': 'c04',
    'bin': 'c04',
    'gen_cases': gen_cases,
    'compare': compare,
    'rule': 'per entry point grammar-directed inputs (ASCII85 alphabets and group edges; predictor geometry and decode_frame with every '
            'numeric extreme; content streams with operands nested 1..20000 deep, inline images with W/H/BPC extremes; object streams '
            'with N/First/index extremes and deep members; cross-reference streams with W/Index/Size extremes; text strings with marks, '
            'odd lengths, lone surrogates; ToUnicode CMaps damaged and with hex-string width extremes; filter chains with damaged data '
            'and DecodeParms extremes), the recorded defects and their neighbours as directed cases on every run (W arrays of length 2..5 over {0,1,negative} with huge and with many Index pairs; bfrange target arrays exact / one short / one long / empty / after an overlapping definition with text using first and last codes; containers nested at and around the reader\'s limit with 100 string brackets inside), plus structure-aware mutations (bit, byte, truncation, numeric extremes in every number, token '
            'delete/duplicate/swap, splice, inserted nesting, Prev and Length cycles, duplicated chunks, leading junk) of the '
            'repository assets and of documents built here (classic table, indirect Length, xref stream + object stream with and '
            'without predictor, incremental update), plus the Prev-chain shapes (self loops, cycles of 1-4 sections through the first '
            'section, rho shapes with a tail of 1-3 and a cycle of 1-4 sections, tables / streams / mixed, both file orders, XRefStm '
            'pointers into the chain; also run through c01\'s loader model), the deferred-Length family (Length N 0 R where N is a later '
            'integer, a reference to a reference, a chain of three, an object-stream member, missing, a cycle; the value negative small / '
            'large, zero, beyond the file, i64::MIN / MAX, a real, a name, a string, an array; table and stream format; load_mem and '
            'load_from; also run through the loader model), ToUnicode CMaps that map nothing (codespace ranges only, no section, empty '
            'sections, notdef ranges) with texts of 1-300 bytes (runs of zero bytes, a non-zero first byte) directly and through a loaded '
            'file + extract_text, all run in an isolated worker with time, stack and memory limits; '
            'non-trivial = non-empty input; distinct = distinct case text',
    'extra_trusted': [
        'C04: nom, flate2, weezl, encoding_rs, stringprep, rangemap are assumed total (no panic sites of theirs are modelled)',
        'C04: the real stack limit and allocator are approximated by the depth / allocation annotations of the Safe* models; the '
        'worker measures the largest single allocation request with a counting GlobalAlloc (cap 1 GiB), runs each case on a 2 MiB '
        'stack and under a 5 s limit',
        'C04: position counters bounded by the length of a Rust slice (at most isize::MAX) are not modelled as overflow sites',
        'C04: the load theorems are about c01\'s Model/LoaderExt.v, c02\'s Model/Xref.v and Model/ObjStm.v and c14\'s Model/Parser.v (tied to '
        'the crate by the correspondence checks of C01, C02, C14 and by C04\'s outcome-class check on whole files); Stream::decompress is a '
        'parameter of those theorems',
        'C04: the debug-profile stage (thorough tier) builds the harness with cargo\'s dev profile and runs the nesting-boundary family on a '
        '2 MiB stack; stack use depends on the compiler version',
    ],
    'partial_note': 'the proof covers lopdf\'s own arithmetic, indexing, loop bounds, recursion depth and allocation requests in the modelled '
                    'entry points, and for Reader::read (on the loader / cross-reference / object-stream / grammar models of C01, C02, C14) '
                    'the absence of panics and the sufficiency of every fuel; it cannot exhibit panics inside nom, flate2, weezl, encoding_rs, '
                    'stringprep, rangemap (assumed total), the real stack limit and allocator (approximated by depth/alloc annotations; '
                    'measured in a release and, for the nesting boundary, a debug worker), wall-clock time; not proved: an allocation bound '
                    'for the composed loader, totality of the decrypt attempt at the end of read (the reader\'s own part of the Encrypt branch is '
                    'covered: C04_load_enc_*, for every total attempt). No open known finding (C04-objstm-shared-offsets is '
                    'repaired: the work of one object stream is linear, C04_objstm_work).',
    'impl_timeout': 2400,
    'model_timeout': 2400,
}


def build_debug_worker():
    """the same harness bin in cargo's default (dev) profile: unoptimised, frames many times larger than in the release
    build the other cases run in.  Returns (exe | None, log)."""
    import hashlib
    exe, log = vlib.build_harness(SPEC['bin'])           # creates the scratch copy of harness/ when VERIF_REPO is set
    if exe is None:
        return None, log
    hd = os.path.join(vlib.ROOT, 'harness')
    target = vlib.CARGO_TARGET + '-debug'
    if vlib.REPO != '/repo':
        tag = hashlib.sha256(vlib.REPO.encode()).hexdigest()[:10]
        hd = os.path.join(vlib.BUILD, 'harness-' + tag)
        target = os.path.join(vlib.BUILD, 'cargo-' + tag) + '-debug'
    with vlib.Lock('cargo-debug'):
        rc, out = vlib.sh(['cargo', 'build', '--offline', '--bin', SPEC['bin']], 1500, cwd=hd,
                          env={'CARGO_TARGET_DIR': target, 'CARGO_NET_OFFLINE': 'true'})
    if rc != 0:
        return None, out
    return os.path.join(target, 'debug', SPEC['bin']), out


def debug_profile_stage(ctx):
    """thorough tier: the nesting boundary in a debug-profile isolated worker (2 MiB stack, as a rayon worker or a test
    thread has): the deepest recursion a file can ask for must fit there too"""
    exe, log = build_debug_worker()
    if exe is None:
        ctx.violation('debugbuild', {'kind': 'harness-build-failed', 'profile': 'dev', 'log': log[-3000:]}, found_input=False)
        return
    lines = [l for _, l in nesting_boundary()]
    outs = vlib.run_lines(exe, lines, timeout=2400, shards=8)
    bad = [(l, o) for l, o in zip(lines, outs) if vlib.split_impl(o)[1].startswith('FAIL') or ' ||| ' not in o]
    ctx.notes.append('debug-profile worker: %d nesting-boundary cases, %d failing' % (len(lines), len(bad)))
    if bad:
        l, o = min(bad, key=lambda x: len(x[0]))
        ctx.violation('fail_debug_%d' % ctx.seed, {
            'kind': 'property-fails-on-implementation', 'property': ctx.prop, 'profile': 'dev (cargo build without --release)',
            'case': l, 'impl_out': vlib.split_impl(o)[0], 'verdict': vlib.split_impl(o)[1], 'n_failing_cases': len(bad),
            'replay': 'cd harness && cargo build --offline --bin c04 && echo <case> | <target>/debug/c04'})


def run(ctx):
    if ctx.tier == 'thorough' or os.environ.get('C04_DEBUG_STAGE') == '1':
        debug_profile_stage(ctx)
    return propcheck.standard_check(ctx, SPEC)


MANIFEST = {
    'level_text': 'Machine-checked proof (Coq) about resource-annotated, branch-faithful models of lopdf\'s byte-level entry points with '
                  'every panic site explicit (checked arithmetic, slice indexing, unwrap/expect, casts, file-chosen allocation sizes, '
                  'file-chosen loop bounds and recursion depth): for ALL byte strings the modelled entry points never reach a panic '
                  'site, terminate within an explicit fuel, request allocations bounded linearly by the input length and recurse to '
                  'a constant depth; the models are tied to the crate by outcome-class correspondence in an isolated worker process '
                  'with time, stack and memory limits over structure-aware mutations of valid files.',
    'level_note': 'the proof covers lopdf\'s own arithmetic, indexing, loop bounds, recursion depth and allocation requests in the modelled '
                  'entry points, and for Reader::read (on the models of C01, C02, C14) the absence of panics and the sufficiency of every '
                  'fuel; it cannot exhibit panics inside nom, flate2, weezl, encoding_rs, stringprep, rangemap (assumed total), '
                  'the real stack limit and allocator (approximated by depth/alloc annotations), wall-clock time; not proved: an '
                  'allocation bound for the composed loader, totality of the decrypt attempt at the end of read (the reader\'s own part of the '
                  'Encrypt branch is covered: C04_load_enc_*, for every total attempt). No open known finding '
                  '(C04-objstm-shared-offsets is repaired: the work of one object stream is linear, C04_objstm_work).',
    'technique': 'Coq proof (outcome/cost monad, induction over loops and fuel, progress lemmas for the grammar, pigeonhole for the Prev loop, '
                 'lia per panic site) + outcome-class correspondence with an isolated worker process (timeout, 2 MiB stack, counting '
                 'allocator; release profile, and debug profile for the nesting boundary)',
    'design_ref': 'DESIGN.md 6 C04',
}
