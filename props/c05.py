"""C05 -- encrypt then decrypt restores every string and stream (standard security handler)."""
import re
import propcheck, vlib, pwaid
from sxg import *

PERM_BITS = [2, 3, 4, 5, 8, 9, 10, 11]


def rbytes(rng, n):
    return bytes(rng.randrange(256) for _ in range(n))


def rascii(rng, n):
    return bytes(rng.randrange(0x21, 0x7f) for _ in range(n))


# ------------------------------------------------------------------------------------------
# documents
# ------------------------------------------------------------------------------------------
def gen_string(rng):
    k = rng.random()
    if k < 0.12:
        b = b''
    elif k < 0.3:
        b = rbytes(rng, rng.choice([1, 5, 15, 16, 17, 31, 32, 33, 48]))
    elif k < 0.8:
        b = rascii(rng, rng.randint(1, 40))
    else:
        b = rbytes(rng, rng.randint(16, 70))
    return (H if rng.random() < 0.25 else S)(b)


def gen_value(rng, depth):
    k = rng.random()
    if depth > 0 and k < 0.18:
        return A([gen_value(rng, depth - 1) for _ in range(rng.randint(0, 4))])
    if depth > 0 and k < 0.36:
        return D(gen_entries(rng, depth - 1))
    if k < 0.75:
        return gen_string(rng)
    return rng.choice([I(rng.randint(-5, 500)), N('Name'), NULL, B(True), REF(rng.randint(1, 9)), N('Metadata')])


def gen_entries(rng, depth, typ=None):
    keys = rng.sample(['A', 'B', 'Title', 'Author', 'Kids', 'K', 'V', 'T', 'Contents', 'Z1', 'Z2'], rng.randint(0, 5))
    ent = [(k, gen_value(rng, depth)) for k in keys]
    if typ is not None:
        ent.insert(rng.randint(0, len(ent)), ('Type', N(typ)))
    return ent


def gen_stream(rng, cf_names, kind):
    n = rng.choice([0, 1, 15, 16, 17, 32, 33, 64, 100, 200]) if rng.random() < 0.8 else rng.randint(200, 1500)
    content = rbytes(rng, n) if rng.random() < 0.6 else rascii(rng, n)
    ent = []
    if kind == 'metadata':
        ent.append(('Type', N('Metadata')))
        ent.append(('Subtype', N('XML')))
    elif kind == 'xref':
        ent.append(('Type', N('XRef')))
        ent.append(('Info', gen_string(rng)))
    elif kind == 'crypt':
        name = rng.choice(cf_names + ['Identity', 'Nope'])
        flt = rng.choice([N('Crypt'), A([N('Crypt')]), A([N('Crypt'), N('ASCIIHexDecode')])])
        ent.append(('Filter', flt))
        r = rng.random()
        if r < 0.7:
            ent.append(('DecodeParms', D([('Type', N('CryptFilterDecodeParms')), ('Name', N(name))])))
        elif r < 0.85:
            ent.append(('DecodeParms', D([])))
        # else: no DecodeParms -> no override
    elif kind == 'dictstr':
        ent.append(('Desc', S(rascii(rng, rng.randint(16, 30)))))
    lmode = rng.random()
    if lmode < 0.8:
        ent.append(('Length', I(len(content))))
    elif lmode < 0.9:
        ent.insert(0, ('Length', I(len(content) + 3)))
    return ST(ent, content)


# ------------------------------------------------------------------------------------------
# object streams: decrypt_raw ends with ObjectStream::new on every decrypted stream of Type ObjStm
# ------------------------------------------------------------------------------------------
def pdf_direct(rng, depth):
    """a direct object in PDF syntax (the content of an object stream)"""
    k = rng.random()
    if depth > 0 and k < 0.15:
        return b'[' + b' '.join(pdf_direct(rng, depth - 1) for _ in range(rng.randint(0, 3))) + b']'
    if depth > 0 and k < 0.35:
        keys = rng.sample([b'A', b'B', b'Title', b'K', b'V'], rng.randint(0, 3))
        return b'<<' + b''.join(b'/' + key + b' ' + pdf_direct(rng, depth - 1) for key in keys) + b'>>'
    if k < 0.6:
        return b'(' + bytes(rng.choice(b'abcdefghijklmnopqrstuvwxyz 0123456789') for _ in range(rng.randint(0, 24))) + b')'
    if k < 0.7:
        return b'<' + rbytes(rng, rng.randint(0, 20)).hex().encode() + b'>'
    return rng.choice([b'7', b'-3', b'/Name', b'true', b'null', b'5 0 R', b'1.5'])


def gen_objstm(rng, used, max_id, flate=False):
    """a stream of Type ObjStm: members under free numbers (they appear on decrypt), under numbers the document already
    uses (kept as they are) and -- sometimes -- under max_id + 1, the number the encryption dictionary takes"""
    free = [n for n in range(1, 45) if n not in used]
    nums = rng.sample(free, min(len(free), rng.randint(1, 3)))
    if rng.random() < 0.5:
        nums.append(rng.choice(sorted(used)))
    if rng.random() < 0.3:
        nums.append(max_id + 1)
    if rng.random() < 0.15:
        nums.append(nums[0])                      # the same number twice: the later entry wins inside one stream
    rng.shuffle(nums)
    bodies, offs, pos = [], [], 0
    for _ in nums:
        b = pdf_direct(rng, 2)
        offs.append(pos)
        bodies.append(b)
        pos += len(b) + 1
    sep = rng.choice([b' ', b' ', b'\n', b'  '])
    index = sep.join(('%d %d' % (n, o)).encode() for n, o in zip(nums, offs)) + rng.choice([b' ', b'\n'])
    content = index + b' '.join(bodies)
    ent = [('Type', N('ObjStm')), ('N', I(len(nums) if rng.random() < 0.9 else len(nums) + 1)), ('First', I(len(index)))]
    if flate:
        import zlib
        content = zlib.compress(content)
        ent.append(('Filter', N('FlateDecode')))
    ent.append(('Length', I(len(content))))
    return ST(ent, content)


def gen_doc(rng, cf_names, rich=True, objstm=None):
    """(doc text, features)"""
    nobj = rng.randint(2, 9)
    ids = rng.sample(range(1, 40), nobj + 1)
    gens = [rng.choice([0, 0, 0, 1, 7, 65535]) for _ in ids]
    objects = []
    feats = set()
    cat = (ids[0], 0)
    for i, g in list(zip(ids, gens))[1:]:
        k = rng.random()
        if k < 0.3:
            o = gen_stream(rng, cf_names, 'plain')
        elif k < 0.38 and rich:
            o = gen_stream(rng, cf_names, 'metadata'); feats.add('metadata')
        elif k < 0.43 and rich:
            o = gen_stream(rng, cf_names, 'xref'); feats.add('xref')
        elif k < 0.52 and rich and cf_names:
            o = gen_stream(rng, cf_names, 'crypt'); feats.add('crypt')
        elif k < 0.57 and rich:
            o = gen_stream(rng, cf_names, 'dictstr'); feats.add('dictstr')
        elif k < 0.62 and rich:
            o = D(gen_entries(rng, 2, 'Metadata')); feats.add('metadata')
        elif k < 0.8:
            o = D(gen_entries(rng, 2))
        elif k < 0.9:
            o = A([gen_value(rng, 2) for _ in range(rng.randint(0, 5))])
        else:
            o = gen_string(rng)
        objects.append(((i, g), o))
    objects.append((cat, D([('Type', N('Catalog')), ('Lang', S(b'en-US'))])))
    max_id = max(ids) + rng.choice([0, 0, 0, 3])
    if objstm:
        used = set(ids)
        for _ in range(rng.choice([1, 1, 2])):
            free = [n for n in range(1, max_id + 1) if n not in used] or [max_id + 2]
            sid = rng.choice(free)
            max_id = max(max_id, sid)
            used.add(sid)
            objects.append(((sid, 0), gen_objstm(rng, used, max_id, flate=(objstm == 'flate'))))
        feats.add('objstm-flate' if objstm == 'flate' else 'objstm')
    rng.shuffle(objects)
    trailer = [('Root', REF(*cat)), ('ID', A([S(rbytes(rng, 16)), S(rbytes(rng, 16))])), ('Size', I(max(ids) + 1))]
    return DOC('1.7', b'', trailer, objects, max_id), feats


# ------------------------------------------------------------------------------------------
# versions, passwords
# ------------------------------------------------------------------------------------------
def gen_perms(rng):
    k = rng.random()
    if k < 0.3:
        return sum(1 << b for b in PERM_BITS)
    if k < 0.4:
        return 0
    return sum(1 << b for b in PERM_BITS if rng.random() < 0.5)


def CFS(pairs):
    return L('cfs', *[L(xb(n), f) for n, f in pairs])


def gen_version(rng, kind):
    """-> (ver builder given (owner,user), pw limit, cf names, all filters non-identity?)"""
    perms = gen_perms(rng)
    if kind == 'v1':
        return (lambda o, u: L('v1', xb(o), xb(u), str(perms))), 32, [], True
    if kind == 'v2':
        kl = rng.choice([40, 48, 56, 64, 72, 80, 88, 96, 104, 112, 120, 128])
        return (lambda o, u: L('v2', xb(o), xb(u), str(kl), str(perms))), 32, [], True
    if kind == 'v2bad':
        kl = rng.choice([0, 7, 8, 16, 32, 44, 129, 136, 200, 1000])
        return (lambda o, u: L('v2', xb(o), xb(u), str(kl), str(perms))), 32, [], True
    em = rng.random() < 0.6
    if kind == 'v4':
        methods = ['aesv2', 'rc4', 'id']
    elif kind == 'v4odd':
        methods = ['aesv2', 'rc4', 'id', 'aesv3']
    else:
        methods = ['aesv3'] if rng.random() < 0.7 else ['aesv3', 'id', 'aesv2', 'rc4']
    names = ['StdCF']
    if rng.random() < 0.5:
        names += rng.sample(['Alt', 'A', 'Zed', 'Ident'], rng.randint(1, 2))
    pairs = [(n, rng.choice(methods)) for n in names]
    if rng.random() < 0.1:
        pairs = []
    pick = lambda: rng.choice([p[0] for p in pairs]) if pairs and rng.random() < 0.9 else rng.choice(['Missing', 'Identity', ''])
    stmf, strf = pick(), pick()
    m = dict(pairs)
    alldiff = all(x != 'Identity' and m.get(x, 'rc4') != 'id' for x in (stmf, strf))
    cfs = CFS(pairs)
    if kind in ('v4', 'v4odd'):
        return (lambda o, u: L('v4', '1' if em else '0', cfs, xb(stmf), xb(strf), xb(o), xb(u), str(perms))), 32, [p[0] for p in pairs], alldiff
    fek = rbytes(rng, 32 if rng.random() < 0.95 or kind != 'v5odd' else rng.choice([0, 16, 31, 33]))
    tag = 'r5' if kind == 'r5' else 'v5'
    return (lambda o, u: L(tag, '1' if em else '0', cfs, xb(fek), xb(stmf), xb(strf), xb(o), xb(u), str(perms))), 127, [p[0] for p in pairs], alldiff


# ------------------------------------------------------------------------------------------
# damage to the encryption dictionary of an encrypted document (exercises PasswordAlgorithm::try_from)
# ------------------------------------------------------------------------------------------
def damage_encdoc(rng, encdoc):
    """textual surgery on the (d ...) entries of the Encrypt dictionary"""
    def key(k):
        return xb(k)
    choices = []
    for k in ['O', 'U', 'P', 'V', 'R', 'Length', 'Filter', 'OE', 'UE', 'Perms', 'EncryptMetadata', 'CF', 'StmF', 'StrF']:
        m = re.search(r'\(%s (\([^()]*(?:\([^()]*(?:\([^()]*(?:\([^()]*\)[^()]*)*\)[^()]*)*\)[^()]*)*\)|null)\)' % key(k), encdoc)
        if m:
            choices.append((k, m))
    if not choices:
        return None, None
    k, m = rng.choice(choices)
    how = rng.choice(['drop', 'type', 'value'])
    if how == 'drop':
        new = ''
    elif how == 'type':
        new = '(%s %s)' % (key(k), rng.choice([I(3), S(b'abc'), N('X'), NULL, B(False), A([])]))
    else:
        val = {'O': S(b'short'), 'U': S(rbytes(rng, 32)), 'P': I(rng.choice([-1, 0, -3904, 2 ** 40])),
               'V': I(rng.choice([0, 1, 2, 3, 4, 5, 6, -1])), 'R': I(rng.choice([0, 1, 2, 3, 4, 5, 6, 7])),
               'Length': I(rng.choice([-8, 0, 8, 40, 44, 64, 128, 136, 256])), 'Filter': N('Adobe.PubSec'),
               'OE': S(rbytes(rng, 31)), 'UE': S(rbytes(rng, 33)), 'Perms': S(rbytes(rng, rng.choice([15, 16]))),
               'EncryptMetadata': B(rng.random() < 0.5), 'CF': D([('StdCF', D([('CFM', N(rng.choice(['V2', 'AESV2', 'AESV3', 'None', 'Identity'])))]))]),
               'StmF': N(rng.choice(['Identity', 'StdCF', 'Q'])), 'StrF': N(rng.choice(['Identity', 'StdCF', 'Q']))}[k]
        new = '(%s %s)' % (key(k), val)
    out = encdoc[:m.start()] + new + encdoc[m.end():]
    out = out.replace('(d  ', '(d ').replace('  ', ' ').replace(' )', ')')
    return out, '%s-%s' % (how, k)


# ------------------------------------------------------------------------------------------
# cases
# ------------------------------------------------------------------------------------------
def plan(tier):
    if tier == 'quick':
        return [('v1', 8), ('v2', 14), ('v2bad', 4), ('v4', 22), ('v4odd', 4), ('r5', 8), ('v5', 2), ('objstm', 8), ('objstm-flate', 1)]
    return [('v1', 120), ('v2', 300), ('v2bad', 40), ('v4', 500), ('v4odd', 60), ('r5', 160), ('v5', 40), ('v5odd', 10),
            ('objstm', 160), ('objstm-flate', 10)]


def gen_cases(rng, tier):
    impl, _ = vlib.build_harness(SPEC['bin'], None, False)
    runner, _ = vlib.build_runner(SPEC['runner'])
    specs = []
    for kind0, n in plan(tier):
        for j in range(n):
            # objstm: documents holding streams of Type ObjStm (decrypt_raw's last pass expands them), under any of the
            # cheap versions; objstm-flate: the object stream is compressed -- ObjectStream::new decompresses it in place,
            # which the model has no filter for: both sides answer "unmodelled", and byte-for-byte restoration of that
            # stream is not what the code does (it comes back decompressed), so no verdict
            objstm = {'objstm': 'plain', 'objstm-flate': 'flate'}.get(kind0)
            kind = rng.choice(['v1', 'v2', 'v4', 'v4', 'r5']) if objstm else kind0
            mk, limit, cf_names, alldiff = gen_version(rng, kind)
            # password TEXTS (pwaid.py); revision 5 (cheap hash): the first two documents have a user / an owner password of
            # more than 127 bytes in multi-byte characters; the quick tier's revision 6 documents: at most 50 bytes
            # (unsupported parameter combinations, whose enc line may go to both sides as it is: printable ASCII)
            force = ['user-straddle', 'owner-straddle'][j] if kind0 == 'r5' and j < 2 else \
                ('ascii' if kind in ('v2bad', 'v4odd', 'v5odd') else None)
            pwset = pwaid.gen_pw_set(rng, limit, kind in ('r5', 'v5', 'v5odd'), force,
                                     maxlen=(50 if kind.startswith('v5') and tier == 'quick' else None))
            doc, feats = gen_doc(rng, cf_names, objstm=objstm)
            rnd = [rbytes(rng, 16), rbytes(rng, 16), rbytes(rng, 4)]
            ivs = [rbytes(rng, 16) for _ in range(80)]
            specs.append({'kind': kind, 'doc': doc, 'mk': mk, 'pwset': pwset, 'rnd': rnd, 'ivs': ivs, 'feats': feats, 'alldiff': alldiff,
                          'by_model': rng.random() < 0.3 and not (tier == 'quick' and kind.startswith('v5'))})
    # password preparation: the crate's own, through the harness (an oracle; see pwaid.py).  The model side gets the
    # PREPARED bytes (<ver>, pws), lopdf the texts ((raw ..) / the enc line of the harness)
    P = pwaid.prepare_texts(impl, [(s['pwset']['r56'], t) for s in specs for t in [s['pwset']['user'], s['pwset']['owner']] + s['pwset']['cands']])
    for s in specs:
        f = pwaid.finalize(s['pwset'], P, max_right_extra=1, max_wrong=3)
        s['pw'] = f
        s['ver'] = s['mk'](f['owner'][1], f['user'][1])
        tail = [L('rnd', *[xb(b) for b in s['rnd']]), L('ivs', *[xb(b) for b in s['ivs']])]
        s['enc'] = L('enc', s['doc'], s['ver'], *tail)
        s['enc_text'] = L('enc', s['doc'], s['mk'](f['owner'][0], f['user'][0]), *tail)
        # (prepared, text): user, owner, then the other candidates (equal to one of them after truncation, or wrong)
        s['pws'] = [(f['user'][1], f['user'][0]), (f['owner'][1], f['owner'][0])] + \
                   [(p, t) for _, p, t in f['pws'] if p not in (f['user'][1], f['owner'][1])]
    impl_enc = [vlib.split_impl(l)[0] for l in vlib.run_lines(impl, [s['enc_text'] for s in specs], timeout=900, shards=8)] if impl else []
    by_model = [i for i, s in enumerate(specs) if s['by_model']]
    model_enc = dict(zip(by_model, vlib.run_lines(runner, [specs[i]['enc'] for i in by_model], timeout=900, shards=16))) if runner else {}

    def case_line(s, encdoc, pws, flags):
        raw = [L('raw', xb(s['pw']['owner'][0]), xb(s['pw']['user'][0]), L(*[xb(t) for _, t in pws]))] \
            if s['pw']['owner'][0] != s['pw']['owner'][1] or s['pw']['user'][0] != s['pw']['user'][1] or any(p != t for p, t in pws) else []
        return L('case', s['doc'], s['ver'], encdoc, L('pws', *[xb(p) for p, _ in pws]), L('flags', *flags), *raw)

    cases = []
    for i, s in enumerate(specs):
        ie = impl_enc[i] if i < len(impl_enc) else ''
        if not ie.startswith('(encdoc '):
            # encryption itself fails (unsupported combination): compare the error class
            cases.append((s['enc'], {'kind': 'encfail-' + s['kind'], 'nontrivial': True}))
            continue
        encdoc = ie[len('(encdoc '):-1]
        src = 'impl'
        if s['by_model'] and model_enc.get(i, '').startswith('(encdoc '):
            encdoc = model_enc[i][len('(encdoc '):-1]
            src = 'model'
        pws = s['pws']
        supported = s['kind'] in ('v1', 'v2', 'v4', 'r5', 'v5')
        flags = ['noverdict']
        if supported:
            flags = ['alldiff'] if (s['alldiff'] and not (s['feats'] & {'metadata', 'xref', 'crypt'})) else []
        if 'objstm-flate' in s['feats']:
            flags = ['noverdict']
        if s['kind'] in ('v5', 'v5odd'):
            # Algorithm 2.B costs seconds per hash in the extracted model: one line per piece of work
            parts = [([], flags + ['noverdict'] if 'noverdict' not in flags else flags)] + \
                    [([p], (flags if k == 0 else ['noverdict']) + ['noreenc']) for k, p in enumerate(pws[:3])]
        else:
            parts = [(pws, flags)]
        for ps, fl in parts:
            cases.append((case_line(s, encdoc, ps, fl),
                          {'kind': '%s%s-%s' % (s['kind'], ''.join('+' + x for x in sorted(s['feats']) if x.startswith('objstm')), src),
                           'nontrivial': True}))
        if s['kind'] in ('r5', 'v5') and rng.random() < (0.5 if s['kind'] == 'r5' else 1.0):
            # the entry Length 256 that Acrobat / qpdf write into a V 5 dictionary (ignored since repo d4c3304; it was
            # refused with InvalidKeyLength): the document must open exactly as without it
            k = encdoc.find('(%s %s)' % (xb('Filter'), N('Standard')))
            if k >= 0:
                with256 = encdoc[:k] + '(%s %s) ' % (xb('Length'), I(256)) + encdoc[k:]
                cases.append((case_line(s, with256, pws[:(1 if s['kind'] == 'v5' else 3)], ['noverdict', 'noreenc']),
                              {'kind': 'length256-' + s['kind'], 'nontrivial': True}))
        if rng.random() < 0.35:
            dmg, what = damage_encdoc(rng, encdoc)
            if dmg:
                cases.append((case_line(s, dmg, pws[:(1 if s['kind'].startswith('v5') else 3)], ['noverdict', 'noreenc']),
                              {'kind': 'damaged-' + what.split('-')[0], 'nontrivial': True}))
    return cases


def compare(model_out, impl_out):
    return model_out == impl_out


SPEC = {
    'gen_parts': ['Crypto', 'Consts'],
    'allowed_axioms': (),
    'runner': 'c05',
    'bin': 'c05',
    'gen_cases': gen_cases,
    'compare': compare,
    'rule': 'random documents (strings nested in arrays/dictionaries, literal and hexadecimal, empty, 15/16/17/32/33-byte, binary; '
            'streams incl. empty, Metadata, XRef, per-stream Crypt overrides, wrong/missing Length, streams of Type ObjStm whose '
            'members are partly absent from the object map (they appear on decrypt), partly present, one sometimes numbered like '
            'the encryption dictionary; sparse ids, non-zero generations) x '
            '{V1; V2 40..128 and unsupported lengths; V4 with RC4/AESV2/Identity(/AESV3) per filter name, StmF/StrF chosen independently, '
            'unknown names; R5; V5} x EncryptMetadata x permission subsets x password pairs (Unicode texts -- ASCII, PDFDocEncoding '
            'letters and specials for R2-4; Cyrillic, kana, CJK extension B, texts SASLprep changes for R5/6 -- empty, short, >32, '
            '>127 bytes incl. multi-byte characters across the 127-byte cut, owner = user, equal after truncation; lopdf gets the '
            'text, the model the bytes the crate\'s preparation makes of it) + passwords differing beyond the cut only + 2-3 '
            'wrong passwords; each document is encrypted by lopdf (70%) or by the model with explicit '
            'randomness (30%) and decrypted by both; the model re-encrypts with the random choices read back from the ciphertext and '
            'must reproduce it byte for byte; 35% get a damaged encryption dictionary; non-trivial = every case',
    'extra_trusted': ['C05: Gallina MD5 / SHA-256/384/512 / AES-128/256 (RFC 1321, FIPS 180-4, FIPS 197 vectors as Examples) stand in for the md-5, sha2, aes crates',
                      'C05: password preparation (PDFDocEncoding / SASLprep) is outside the model: the harness prepares the Unicode texts with '
                      'the crate\'s own preparation and the model gets the prepared bytes'],
    'impl_timeout': 1200,
    'model_timeout': 1500,
}


def run(ctx):
    return propcheck.standard_check(ctx, SPEC)


MANIFEST = {
    'level_text': 'Machine-checked proofs (Coq) on an executable model of lopdf\'s standard security handler written from the Rust '
                  'source (RC4, PKCS#5, the four crypt filters, encrypt_object/decrypt_object, key derivation and authentication for '
                  'R2-R6, EncryptionState::try_from/encode/decode, Document::encrypt/decrypt incl. decrypt_raw\'s object-stream pass): '
                  'for every document, version (V1; V2 40..128; V4; R5; V5), crypt filter assignment, permission set, password pair and '
                  'random choices, Document::decrypt after EncryptionState::try_from + Document::encrypt returns Ok with the user '
                  'password and with the owner password, restores every object (strings at every depth, stream data, stream '
                  'dictionaries), the trailer exactly, and removes the encryption dictionary (C05_document_rt) -- with NO hypothesis on '
                  'authentication or key recovery (the dictionary encode writes is read back entry by entry; Algorithms 6/7 and '
                  '2.A/11/12/13 accept what 3/4/5 and 8/9/10 made) and, for the executable primitives, none on MD5 / AES / SHA-2 either '
                  '(output sizes and AES invertibility proved). RC4 is an involution, PKCS#5 unpad inverts pad, CBC decryption inverts '
                  'encryption, AES ciphertexts never equal their plaintext, a failed authentication writes nothing. The model is tied to '
                  'the implementation by differential runs in both directions (lopdf-encrypt / model-decrypt, model-encrypt / '
                  'lopdf-decrypt, byte-exact re-encryption with the random choices read back from the ciphertext, documents with object '
                  'streams whose members appear on decrypt) and the property is evaluated directly on the crate (user and owner '
                  'password, in memory and after save/load, wrong passwords rejected without change).',
    'level_note': 'Conditional, because cryptographic rather than logical: an owner password (R2-4) that also passes the user check '
                  'with a different padded form, a user password (R5/6) that also passes the owner check with a different truncated '
                  'form; "a wrong password is rejected" and "RC4 ciphertext of 16 bytes or more differs" (conditional theorems + '
                  'sampling). Trusted: Coq kernel; translator part Crypto (padding string, permission masks, salt, iteration counts); '
                  'that the Gallina MD5/SHA-2/AES are MD5/SHA-2/AES (standard test vectors + differential runs; the laws the theorems '
                  'use are proved); Stream::decompress is a parameter (object streams carrying a Filter: no correspondence); password '
                  'preparation (PDFDocEncoding/SASLprep) is outside the model. After save + reload: composed with C01 in Coq '
                  '(C05_encrypt_save_load_decrypt: encrypt, save in either cross-reference format, load -- which decrypts itself when '
                  'the empty password opens the file and returns the document still encrypted otherwise --, decrypt with the user or '
                  'the owner password returns the plain document in the sense of C01 same_doc; side condition: the encrypted document '
                  'is in the domain of C01_full_enc; C05_encrypt_save_load_decrypt_full derives that domain from the plain document and keeps one '
                  'hypothesis on the encrypted one: the written file is below 4 GiB -- not derived from the plain file: a ciphertext string '
                  'costs up to 2 n + 66 bytes in the file, C05_string_written_length_partial, notes/C05.md Round 7) and evaluated on the '
                  'implementation. No axioms.',
    'technique': 'Coq proofs over an executable model (transporting the C06 refinement to ISO 32000) + two-way differential '
                 'correspondence + direct property evaluation',
    'design_ref': 'DESIGN.md 6 C05',
}
