"""C11 -- editing operations keep the document sound.
Random programs of public editing calls over generated documents with page trees; model and
implementation are compared after EVERY step, and the harness evaluates the invariants of the
property directly on the implementation after every step."""
import zlib
import propcheck, vlib
from sxg import *

U32_MAX = 2**32 - 1

# ---------------------------------------------------------------------------------------------
# python-side objects: ('null',) ('b',v) ('i',z) ('n',bytes) ('s',bytes) ('a',[o]) ('d',[(k,o)])
#                      ('st',[(k,o)],content) ('ref',(i,g))
# ---------------------------------------------------------------------------------------------
def o_sx(o):
    t = o[0]
    if t == 'null': return NULL
    if t == 'b': return B(o[1])
    if t == 'i': return I(o[1])
    if t == 'n': return N(o[1])
    if t == 's': return S(o[1])
    if t == 'a': return A([o_sx(x) for x in o[1]])
    if t == 'd': return D([(k, o_sx(v)) for k, v in o[1]])
    if t == 'st': return ST([(k, o_sx(v)) for k, v in o[1]], o[2])
    if t == 'ref': return REF(*o[1])
    raise ValueError(o)

def ref(id): return ('ref', id)
def name(s): return ('n', s.encode() if isinstance(s, str) else s)
def dic(*kv): return ('d', list(kv))
def arr(*xs): return ('a', list(xs))
def num(z): return ('i', z)

PLAIN_SNIPPETS = [b'q Q', b'BT ET', b'0 0 m', b'', b'1 0 0 1 5 5 cm', b'/Im1 Do',
                  b'BT /F1 12 Tf 72 712 Td (Hello World) Tj ET ' * 4,
                  b'0.5 0.5 0.5 rg 10 10 100 100 re f ' * 6,
                  b'q 1 0 0 1 0 0 cm /Fm0 Do Q\n' * 5]


def content_bytes(rng):
    r = rng.random()
    if r < 0.6:
        return rng.choice(PLAIN_SNIPPETS)
    if r < 0.8:
        return bytes(rng.randint(32, 126) for _ in range(rng.randint(0, 30)))
    return (b'BT (%d) Tj ET ' % rng.randint(0, 99)) * rng.randint(1, 8)


class DocGen:
    """a document with a page tree, content streams, resources (own / inherited / indirect),
    annotations, unreachable objects, indirect-reference objects; mostly well-formed"""
    def __init__(self, rng, allow_filters=False, content_heavy=False, res_shared=False):
        self.rng = rng
        self.allow_filters = allow_filters
        self.content_heavy = content_heavy     # most pages get a Contents behind references / shared with another page
        self.res_shared = res_shared           # most pages have no Resources of their own, most Pages nodes an INDIRECT one
        self.next = rng.choice([1, 1, 1, 3, 10])
        self.objects = {}          # id -> obj
        self.pages = []            # page ids in DFS order
        self.page_info = {}        # page id -> dict(contents=variant, resources=variant)
        self.streams = []
        self.annots = []
        self.fonts = []
        self.xobjs = []
        self.plains = set()        # every plain content that may meet the deflate oracle
        self.inflate = {}          # compressed -> plain (streams the generator compressed itself)
        self.held = []             # ids a STREAM's dictionary refers to directly (entry value, array item, nested dictionary)

    def new_id(self):
        rng = self.rng
        self.next += rng.choice([1, 1, 1, 1, 2, 3, 7])
        return (self.next, rng.choice([0] * 12 + [1, 3]))

    def put(self, o, id=None):
        id = id or self.new_id()
        self.objects[id] = o
        return id

    def stream(self, extra=()):
        rng = self.rng
        c = content_bytes(rng)
        self.plains.add(c)
        ent = list(extra)
        if self.allow_filters and rng.random() < 0.25:
            z = zlib.compress(c)
            self.inflate[z] = c
            ent.append((b'Filter', name('FlateDecode') if rng.random() < 0.7 else arr(name('FlateDecode'))))
            c = z
        ent.insert(rng.randint(0, len(ent)), (b'Length', num(len(c))))
        id = self.put(('st', ent, c))
        self.streams.append(id)
        return id

    def font(self):
        id = self.put(dic((b'Type', name('Font')), (b'Subtype', name('Type1')), (b'BaseFont', name(self.rng.choice(['Helvetica', 'Courier'])))))
        self.fonts.append(id)
        return id

    def xobject(self):
        id = self.stream(extra=[(b'Type', name('XObject')), (b'Subtype', name('Form'))])
        self.xobjs.append(id)
        return id

    def resources(self):
        """a resource dictionary object (python obj), entries direct or behind references"""
        rng = self.rng
        ent = []
        if rng.random() < 0.8:
            fd = dic(*[(b'F%d' % k, ref(self.font() if rng.random() < 0.6 or not self.fonts else rng.choice(self.fonts)))
                       for k in range(1, rng.randint(1, 3) + 1)])
            ent.append((b'Font', ref(self.put(fd)) if rng.random() < 0.3 else fd))
        if rng.random() < 0.4:
            xd = dic(*[(b'Im%d' % k, ref(self.xobject())) for k in range(rng.randint(0, 2))])
            r = rng.random()
            if r < 0.2:
                x = self.put(xd)
                if rng.random() < 0.3:
                    x = self.put(ref(x))
                ent.append((b'XObject', ref(x)))
            elif r < 0.25:
                ent.append((b'XObject', num(3)))
            else:
                ent.append((b'XObject', xd))
        if rng.random() < 0.3:
            gd = dic(*[(b'GS%d' % k, ref(self.put(dic((b'Type', name('ExtGState')), (b'CA', num(1)))))) for k in range(rng.randint(0, 2))])
            ent.append((b'ExtGState', ref(self.put(gd)) if rng.random() < 0.25 else gd))
        if rng.random() < 0.3:
            ent.append((b'ProcSet', arr(name('PDF'), name('Text'))))
        rng.shuffle(ent)
        return dic(*ent)

    def page(self, parent):
        rng = self.rng
        me = self.new_id()
        ent = [(b'Type', name('Page')), (b'Parent', ref(parent))]
        if rng.random() < 0.5:
            ent.append((b'MediaBox', arr(num(0), num(0), num(612), num(792))))
        # Contents
        r = rng.random()
        if self.content_heavy:
            # the shapes the repaired change_page_content / add_page_contents resolve, and streams that several pages show
            r = rng.choice([0.1, 0.5, 0.62, 0.62, 0.7, 0.7, 0.7, 0.78, 0.83, 0.9, 0.9, 0.9])
        if r < 0.45:
            cv = 'ref'; ent.append((b'Contents', ref(self.stream())))
        elif r < 0.60:
            n = rng.choice([0, 1, 2, 3]); cv = 'arr%d' % n
            ent.append((b'Contents', arr(*[ref(self.stream()) for _ in range(n)])))
        elif r < 0.68:
            cv = 'indarr'
            ent.append((b'Contents', ref(self.put(arr(*[ref(self.stream()) for _ in range(rng.randint(1, 3))])))))
        elif r < 0.76 and self.streams:
            cv = 'shared'; ent.append((b'Contents', ref(rng.choice(self.streams))))
        elif r < 0.81:
            cv = 'refref'; ent.append((b'Contents', ref(self.put(ref(self.stream())))))
        elif r < 0.85:
            cv = 'odd'; ent.append((b'Contents', rng.choice([num(1), ('null',), ref((999983, 0)), arr(num(1), ref(self.stream()))])))
        elif r < 0.95 and self.content_heavy and self.streams:
            # an array (direct, or an array object) that holds a stream another page shows too, alone or among others,
            # possibly behind a reference object
            cv = 'sharedarr'
            s0 = rng.choice(self.streams)
            it = ref(self.put(ref(s0))) if rng.random() < 0.3 else ref(s0)
            items = rng.choice([[it], [it], [it, ref(self.stream())], [ref(self.stream()), it]])
            ent.append((b'Contents', ref(self.put(arr(*items))) if rng.random() < 0.5 else arr(*items)))
        else:
            cv = 'none'
        # Resources
        r = rng.random()
        if self.res_shared and rng.random() < 0.75:
            r = 0.9                       # inherits
        if r < 0.4:
            rv = 'own'; ent.append((b'Resources', self.resources()))
        elif r < 0.62:
            rv = 'ref'; ent.append((b'Resources', ref(self.put(self.resources()))))
        elif r < 0.66:
            rv = 'refref'; ent.append((b'Resources', ref(self.put(ref(self.put(self.resources()))))))
        elif r < 0.69:
            rv = 'odd'; ent.append((b'Resources', rng.choice([num(1), ref((999979, 0)), arr()])))
        else:
            rv = 'inherit'
        # Annots
        r = rng.random()
        if r < 0.45:
            ids = [self.put(dic((b'Type', name('Annot')), (b'Subtype', name('Text')), (b'P', ref(me)))) for _ in range(rng.randint(0, 3))]
            self.annots += ids
            items = [ref(i) for i in ids]
            if items and rng.random() < 0.25:
                items.insert(rng.randint(0, len(items)), rng.choice(items))
            if rng.random() < 0.15:
                items.insert(rng.randint(0, len(items)), rng.choice([num(7), ('null',)]))
            if rng.random() < 0.12:
                ent.append((b'Annots', ref(self.put(arr(*items)))))
            else:
                ent.append((b'Annots', arr(*items)))
        rest = ent[1:]
        rng.shuffle(rest)
        ent = ent[:1] + rest
        target = me
        if rng.random() < 0.06:           # the page behind an indirect reference object
            target = self.new_id()
            self.objects[me] = ref(target)
        self.objects[target] = dic(*ent)
        self.pages.append(me)
        self.page_info[me] = {'contents': cv, 'resources': rv}
        return me, 1

    def pages_node(self, parent, depth):
        rng = self.rng
        me = self.new_id()
        kids, count = [], 0
        for _ in range(rng.choice([0, 1, 2, 2, 3, 4]) if parent else rng.choice([1, 1, 2, 3, 4])):
            if depth > 0 and rng.random() < 0.3:
                k, c = self.pages_node(me, depth - 1)
            else:
                k, c = self.page(me)
            kids.append(ref(k)); count += c
        cnt = num(count if rng.random() < 0.92 else rng.choice([0, count + 3, -2**63, -2**63 + 1]))
        if rng.random() < 0.1:            # Count as an indirect object (also behind a second reference object)
            cnt = ref(self.put(cnt))
            if rng.random() < 0.2:
                cnt = ref(self.put(cnt))
        ent = [(b'Type', name('Pages')), (b'Kids', arr(*kids)), (b'Count', cnt)]
        if parent:
            ent.append((b'Parent', ref(parent)))
        if self.res_shared:
            # seeded defect C11/p3: the inherited dictionary is an object of its own (also behind a reference object)
            if parent is None or rng.random() < 0.4:
                res = self.resources()
                r = rng.random()
                rid = self.put(res)
                ent.append((b'Resources', res if r < 0.12 else ref(self.put(ref(rid))) if r < 0.25 else ref(rid)))
        elif rng.random() < (0.6 if parent is None else 0.3):
            res = self.resources()
            ent.append((b'Resources', ref(self.put(res)) if rng.random() < 0.3 else res))
        rng.shuffle(ent)
        self.objects[me] = dic(*ent)
        return me, count

    def decorate_streams(self, p):
        """direct references inside the DICTIONARY of stream objects, the way real files hold them: an image's /SMask, a form
        XObject's /Resources (reference, or a direct dictionary whose entries are references), /Metadata, /OC, a colour space
        array [/Indexed /DeviceRGB 1 ref], an indirect /Length -- single, in arrays (also twice), in nested dictionaries.
        The targets (pages, annotations, fonts, other streams, anything) are remembered in self.held: programs delete them."""
        rng = self.rng
        for sid in list(self.streams):
            if rng.random() >= p:
                continue
            _, ent, c = self.objects[sid]
            ent = list(ent)
            keys = set(k for k, _ in ent)
            for _ in range(rng.choice([1, 1, 2, 3])):
                pool = rng.choice([self.pages, self.pages, self.annots, self.fonts, self.streams, list(self.objects)])
                pool = [x for x in pool if x != sid] or [x for x in self.objects if x != sid]
                if not pool:
                    break
                tgt = rng.choice(pool)
                form = rng.random()
                if form < 0.4:
                    key, v = rng.choice([b'SMask', b'Metadata', b'OC', b'Resources', b'Pg', b'Alternates']), ref(tgt)
                elif form < 0.65:
                    key = rng.choice([b'ColorSpace', b'Mask', b'Refs'])
                    v = rng.choice([arr(name('Indexed'), name('DeviceRGB'), num(1), ref(tgt)), arr(ref(tgt)), arr(ref(tgt), num(0), ref(tgt)),
                                    arr(num(1), arr(ref(tgt), name('X')))])
                elif form < 0.9:
                    key = rng.choice([b'Resources', b'Group', b'PieceInfo'])
                    v = rng.choice([dic((b'Font', dic((b'F9', ref(tgt))))), dic((b'S', name('Transparency')), (b'CS', ref(tgt))),
                                    dic((b'XObject', dic((b'Im7', ref(tgt)), (b'Im8', ref(tgt)))), (b'ProcSet', arr(name('PDF'), ref(tgt))))])
                else:
                    # an indirect Length: the integer lives in its own object
                    if not any(k == b'Length' and o[0] == 'i' for k, o in ent):
                        continue
                    tgt = self.put(num(len(c)))
                    ent = [(k, ref(tgt) if k == b'Length' else o) for k, o in ent]
                    self.held.append(tgt)
                    continue
                if key in keys:
                    continue
                keys.add(key)
                ent.insert(rng.randint(0, len(ent)), (key, v))
                self.held.append(tgt)
            self.objects[sid] = ('st', ent, c)

    def build(self, p_held=None):
        rng = self.rng
        root, _ = self.pages_node(None, rng.choice([0, 1, 2, 3]))
        cat_ent = [(b'Type', name('Catalog')), (b'Pages', ref(root))]
        if self.pages and rng.random() < 0.3:
            cat_ent.append((b'OpenAction', arr(ref(rng.choice(self.pages)), name('Fit'))))
        if self.pages and rng.random() < 0.2:
            p = rng.choice(self.pages)
            cat_ent.append((b'Dests', dic((b'd1', arr(ref(p), name('Fit'))), (b'd2', ref(p)))))
        cat = self.put(dic(*cat_ent))
        tr = [(b'Root', ref(cat)), (b'Size', num(self.next + 1))]
        if rng.random() < 0.5:
            tr.append((b'Info', ref(self.put(dic((b'Producer', ('s', b'gen')))))))
        if rng.random() < 0.12 and self.objects:
            tr.append((b'Extra', ref(rng.choice(list(self.objects)))))
        if rng.random() < 0.1:
            tr.append((b'ID', arr(('s', b'a'), ('s', b'b'))))
        rng.shuffle(tr)
        self.decorate_streams(rng.choice([0, 0.2, 0.4, 0.7]) if p_held is None else p_held)
        # unreachable objects, some referring to reachable ones and to each other
        prev = None
        for _ in range(rng.choice([0, 0, 1, 2, 4])):
            k = list(self.objects)
            o = rng.choice([num(5), ('s', b'junk'), dic((b'Type', name('Font'))), arr(ref(rng.choice(k)), ref(rng.choice(k))),
                            dic((b'Next', ref(prev))) if prev else arr(), ref(rng.choice(k))])
            if rng.random() < 0.3:
                prev = self.stream(extra=[(b'Link', ref(rng.choice(k)))])
            else:
                prev = self.put(o)
        mx = max(i for i, _ in self.objects)
        r = rng.random()
        if r < 0.8:
            max_id = mx
        elif r < 0.9:
            max_id = mx + rng.randint(1, 9)
        elif r < 0.94:
            max_id = rng.choice([U32_MAX, U32_MAX - 1, U32_MAX - 2])
        else:
            max_id = max(0, mx - rng.randint(1, 3))
        self.trailer = tr
        self.max_id = max_id
        return self

    def sx(self):
        return DOC('1.5', b'', [(k, o_sx(v)) for k, v in self.trailer],
                   [(i, o_sx(o)) for i, o in sorted(self.objects.items())], self.max_id)


# ---------------------------------------------------------------------------------------------
# programs
# ---------------------------------------------------------------------------------------------
STAGE1 = ['new', 'add', 'set', 'del', 'rmannot', 'prune']
ALL_OPS = STAGE1 + ['delpages', 'renumber', 'compress', 'decompress', 'ccs', 'cpc', 'apc', 'atpc', 'gocr', 'addx', 'addgs', 'content',
                    'bm', 'outline', 'save']
WEIGHTS = {'new': 2, 'add': 3, 'set': 3, 'del': 4, 'rmannot': 2, 'prune': 2, 'delpages': 3, 'renumber': 1, 'compress': 2,
           'decompress': 2, 'ccs': 2, 'cpc': 4, 'apc': 4, 'atpc': 2, 'gocr': 2, 'addx': 4, 'addgs': 3, 'content': 3,
           'bm': 3, 'outline': 1, 'save': 1}
ALLOCATING = ['new', 'add', 'add', 'apc', 'cpc', 'atpc', 'set']
PALETTE = [b'0', b'1', b'0.5', b'0.25', b'0.75']
TITLES = ['Chapter', 'Section 1', 'A (b) \\ c', 'Intro', '\u00dcbersicht', '\u76ee\u6b21', 'x\U0001f600y', '']
SAVE_MAX = 1000000

TINY_OPS = [('q', []), ('Q', []), ('BT', []), ('ET', []), ('Do', [('n', b'Im1')]), ('w', [('i', 2)]), ('m', [('i', 0), ('i', 0)])]


def encode_tiny(ops):
    def w(o):
        return str(o[1]).encode() if o[0] == 'i' else b'/' + o[1]
    return b'\n'.join(b''.join(w(o) + b' ' for o in args) + opr.encode() for opr, args in ops)


class ProgGen:
    def __init__(self, rng, g):
        self.rng = rng
        self.g = g
        self.ids = list(g.objects)
        self.cur_max = g.max_id
        self.fresh = []            # ids handed out by new_object_id and not yet set
        self.nbm = 0               # bookmark ids handed out by add_bookmark
        self.bm_roots = []         # Document.bookmarks
        self.bm_children = {}      # bookmark id -> children

    def any_id(self):
        rng = self.rng
        r = rng.random()
        if r < 0.82 and self.ids:
            return rng.choice(self.ids)
        if r < 0.9 and self.fresh:
            return rng.choice(self.fresh)
        if r < 0.95:
            return (rng.randint(1, 60), 0)
        return (min(U32_MAX, rng.choice([0, self.cur_max + 1, self.cur_max + 5, U32_MAX])), rng.choice([0, 0, 65535]))

    def small_obj(self):
        rng = self.rng
        g = self.g
        r = rng.random()
        if r < 0.2:
            return num(rng.randint(-5, 5))
        if r < 0.4:
            return dic((b'Type', name('Thing')), (b'A', ref(self.any_id())), (b'B', arr(ref(self.any_id()), ref(self.any_id()))))
        if r < 0.55:
            c = content_bytes(rng)
            g.plains.add(c)
            return ('st', [(b'Length', num(len(c))), (b'R', ref(self.any_id()))], c)
        if r < 0.7:
            x = self.any_id()
            return arr(ref(x), num(1), ref(x))
        if r < 0.8:
            return ref(self.any_id())
        if r < 0.9:
            return dic((b'Type', name('Annot')), (b'Subtype', name('Link')))
        return ('s', b'text')

    def allocated(self):
        if self.cur_max < U32_MAX:
            self.cur_max += 1
            return (self.cur_max, 0)
        return None

    def one(self, kinds):
        rng = self.rng
        g = self.g
        k = rng.choices(kinds, weights=[WEIGHTS[x] for x in kinds])[0]
        if k == 'new':
            id = self.allocated()
            if id:
                self.fresh.append(id)
            return L('new')
        if k == 'add':
            id = self.allocated()
            if id:
                self.ids.append(id)
            return L('add', o_sx(self.small_obj()))
        if k == 'set':
            r = rng.random()
            if r < 0.45 and self.fresh:
                id = self.fresh.pop(rng.randrange(len(self.fresh)))
            elif r < 0.95:
                id = self.any_id()
            else:
                id = (min(U32_MAX, self.cur_max + rng.randint(1, 4)), 0)      # outside the domain of I_alloc
            if id not in self.ids:
                self.ids.append(id)
            return L('set', OID(*id), o_sx(self.small_obj()))
        if k == 'del':
            if g.held and rng.random() < 0.3:
                return L('del', OID(*rng.choice(g.held)))        # an object that a stream's dictionary names directly
            r = rng.random()
            pool = (g.pages if r < 0.2 else g.annots if r < 0.35 else g.streams if r < 0.5 else g.fonts if r < 0.6 else None)
            id = rng.choice(pool) if pool else self.any_id()
            return L('del', OID(*id))
        if k == 'rmannot':
            id = rng.choice(g.annots) if g.annots and rng.random() < 0.8 else self.any_id()
            return L('rmannot', OID(*id))
        if k == 'prune':
            return L('prune')
        if k == 'delpages':
            n = len(g.pages)
            nums = [rng.randint(1, n + 1) for _ in range(rng.choice([1, 1, 1, 2, 3]))]
            held_pages = [p for p in g.held if p in g.pages]
            if held_pages and rng.random() < 0.4:
                nums[rng.randrange(len(nums))] = g.pages.index(rng.choice(held_pages)) + 1     # a page a stream's dictionary names
            if rng.random() < 0.1:
                nums.append(rng.choice([0, 99, nums[0]]))
            return L('delpages', *[str(x) for x in nums])
        if k in ('renumber', 'compress', 'decompress'):
            if k == 'renumber':
                self.cur_max = len(self.ids)
            return L(k)
        def page():
            return rng.choice(g.pages) if g.pages and rng.random() < 0.85 else self.any_id()
        if k == 'ccs':
            id = rng.choice(g.streams) if g.streams and rng.random() < 0.8 else self.any_id()
            c = content_bytes(rng); g.plains.add(c)
            return L('ccs', OID(*id), xb(c))
        if k in ('cpc', 'apc'):
            c = content_bytes(rng); g.plains.add(c)
            self.allocated()
            return L(k, OID(*page()), xb(c))
        if k == 'atpc':
            ops = [rng.choice(TINY_OPS) for _ in range(rng.randint(0, 3))]
            g.plains.add(encode_tiny(ops))
            self.allocated()
            return L('atpc', OID(*page()), *[L('op', xb(o), *[o_sx(a) for a in args]) for o, args in ops])
        if k == 'gocr':
            return L('gocr', OID(*page()))
        if k in ('addx', 'addgs'):
            nm = rng.choice([b'Im1', b'Im9', b'GS0', b'GS7', b'X', b'F1'])
            x = rng.choice(g.xobjs) if g.xobjs and rng.random() < 0.6 else self.any_id()
            return L(k, OID(*page()), xb(nm), OID(*x))
        if k == 'content':
            return L('content', OID(*page()))
        if k == 'bm':
            return self.bookmark(None)
        if k == 'outline':
            return self.outline()
        if k == 'save':
            stream = rng.random() < 0.5
            if self.cur_max <= SAVE_MAX:
                # save raises max_id to the largest object number first (/repo 19ab1a6)
                self.cur_max = max([self.cur_max] + [i for i, _ in self.ids if i <= SAVE_MAX])
                if stream and self.cur_max < U32_MAX - 1:
                    self.cur_max += 1
            return L('save', 'stream' if stream else 'table')
        raise ValueError(k)

    def bookmark(self, nested):
        """one add_bookmark call; nested=True forces an existing parent, False a root, None picks"""
        rng = self.rng
        g = self.g
        r = rng.random()
        if nested is True and self.nbm:
            par = rng.randint(1, self.nbm)
        elif nested is False or not self.nbm or r < 0.35:
            par = None
        elif r < 0.9:
            par = rng.randint(1, self.nbm)
        else:
            par = rng.choice([0, self.nbm + 1, self.nbm + 7])          # unknown parent: an orphan
        self.nbm += 1
        self.bm_children[self.nbm] = []
        if par is None:
            self.bm_roots.append(self.nbm)
        elif par in self.bm_children and par != self.nbm:
            self.bm_children[par].append(self.nbm)
        t = rng.choice(TITLES) + ('' if rng.random() < 0.5 else str(self.nbm))
        pg = rng.choice(g.pages) if g.pages and rng.random() < 0.9 else self.any_id()
        return L('bm', L('t', *[str(ord(c)) for c in t]), str(rng.randint(0, 3)),
                 L('c', xb(rng.choice(PALETTE)), xb(rng.choice(PALETTE)), xb(rng.choice(PALETTE))),
                 OID(*pg), 'none' if par is None else str(par))

    def outline(self):
        def items(ids):
            return sum(1 + items(self.bm_children[i]) for i in ids)
        if self.bm_roots:
            n = 1 + 2 * items(self.bm_roots)
            if self.cur_max + n <= U32_MAX:
                self.ids += [(self.cur_max + j, 0) for j in range(1, n + 1)]
                self.cur_max += n
        return L('outline')

    def outline_program(self):
        """a nested bookmark forest, build_outline, then operations that allocate (the ids must not collide with the
        outline objects), possibly a second build_outline"""
        rng = self.rng
        ops = []
        for _ in range(rng.randint(0, 3)):
            ops.append(self.one(ALL_OPS))
        ops.append(self.bookmark(False))
        for _ in range(rng.randint(1, 7)):
            ops.append(self.bookmark(True if rng.random() < 0.7 else None))
            if rng.random() < 0.15:
                ops.append(self.one(ALL_OPS))
        ops.append(self.outline())
        for _ in range(rng.randint(1, 8)):
            ops.append(self.one(ALLOCATING if rng.random() < 0.7 else ALL_OPS))
        if rng.random() < 0.3:
            ops.append(self.bookmark(None))
            ops.append(self.outline())
            ops.append(self.one(ALLOCATING))
        return ops


    def content_program(self):
        """content edits (change_page_content, add_page_contents, add_to_page_content, change_content_stream) on the pages of a
        document whose Contents entries sit behind references and share streams, with reads and a few other operations between"""
        rng = self.rng
        ops = []
        for _ in range(rng.randint(1, 10)):
            ops.append(self.one(['cpc', 'cpc', 'cpc', 'apc', 'apc', 'atpc', 'ccs', 'content'] if rng.random() < 0.8 else ALL_OPS))
        return ops

    def resource_program(self):
        """seeded defect C11/p3: add_xobject / add_graphics_state with the SAME resource name on different sibling pages that
        have no Resources of their own (the ancestor's is an indirect object), get_or_create_resources and reads between
        them, sometimes a prune at the end (an object only the first page's entry named must survive)"""
        rng = self.rng
        g = self.g
        ops = [self.one(ALL_OPS) for _ in range(rng.choice([0, 0, 0, 1, 2]))]
        pages = list(g.pages) or [self.any_id()]
        for _ in range(rng.choice([1, 1, 2])):
            kind = rng.choice(['addx', 'addx', 'addgs'])
            nm = rng.choice([b'Im1', b'Im9', b'X'] if kind == 'addx' else [b'GS0', b'GS7', b'X'])
            order = rng.sample(pages, min(len(pages), rng.choice([2, 2, 3, 4])))
            if rng.random() < 0.3:
                order.append(order[0])
            for pgid in order:
                if rng.random() < 0.15:
                    ops.append(L('gocr', OID(*rng.choice(pages))))
                x = rng.choice(g.xobjs) if g.xobjs and rng.random() < 0.5 else self.any_id()
                ops.append(L(kind, OID(*pgid), xb(nm), OID(*x)))
                if rng.random() < 0.15:
                    ops.append(self.one(['content', 'gocr', 'addx', 'addgs', 'add', 'apc']))
        if rng.random() < 0.35:
            ops.append(L('prune'))
            ops.append(self.one(['content', 'gocr', 'addx', 'addgs']))
        return ops

    def strip_program(self):
        """deletions of objects that the dictionary of a stream names directly (delete_object on the target, delete_pages on a
        page), early in the program while the holder is still reachable, interleaved with a few other operations"""
        rng = self.rng
        g = self.g
        ops = [self.one(ALL_OPS) for _ in range(rng.choice([0, 0, 0, 1, 2]))]
        targets = list(dict.fromkeys(g.held))
        rng.shuffle(targets)
        for t in targets[:rng.choice([1, 1, 2, 3, 5])]:
            if t in g.pages and rng.random() < 0.6:
                nums = [g.pages.index(t) + 1] + [rng.randint(1, len(g.pages) + 1) for _ in range(rng.choice([0, 0, 1]))]
                rng.shuffle(nums)
                ops.append(L('delpages', *[str(x) for x in nums]))
            else:
                ops.append(L('del', OID(*t)))
            if rng.random() < 0.4:
                ops.append(self.one(STAGE1 + ['delpages', 'compress', 'decompress', 'save', 'content']))
        if not targets:
            ops.append(self.one(['del', 'delpages']))
        return ops


def orc_sx(tbl):
    return L('orc', *[L(t, xb(i), xb(o)) for (t, i, o) in tbl])


def gen_program(rng, kinds, maxlen=40):
    g = DocGen(rng, allow_filters=True, content_heavy=(kinds == 'content'), res_shared=(kinds == 'resources')).build(p_held=0.7 if kinds == 'strip' else None)
    pg = ProgGen(rng, g)
    if kinds == 'resources':
        return g, pg.resource_program()
    if kinds == 'outline':
        return g, pg.outline_program()
    if kinds == 'content':
        return g, pg.content_program()
    if kinds == 'strip':
        return g, pg.strip_program()
    n = rng.choice([1, 2, 3, 5, 8, 12, 20, 30, maxlen])
    n = rng.randint(1, n)
    ops = [pg.one(kinds) for _ in range(n)]
    return g, ops


def case_line(doc_sx, ops, tbl=()):
    return L('case', doc_sx, L('ops', *ops), orc_sx(tbl))


def oracle_answers(plains):
    """flate2's own deflate output (ZlibEncoder, Compression::best) for every content that could be compressed"""
    qs = sorted(p for p in plains if len(p) > 27)
    if not qs:
        return {}
    exe, log = vlib.build_harness('c09')
    if exe is None:
        raise RuntimeError('harness build failed: ' + log[-500:])
    outs = vlib.run_lines(exe, [L('z', xb(p)) for p in qs], timeout=300, args=['--oracle'])
    ans = {}
    for p, o in zip(qs, outs):
        if not o.startswith('x'):
            raise RuntimeError('oracle mode answered %r' % o[:80])
        ans[p] = bytes.fromhex(o[1:])
    return ans


def gen_cases(rng, tier):
    n = 200 if tier == 'quick' else 5000
    progs = []
    for _ in range(n):
        r = rng.random()
        kinds = STAGE1 if r < 0.2 else 'outline' if r < 0.35 else 'strip' if r < 0.47 else 'content' if r < 0.59 else 'resources' if r < 0.69 else ALL_OPS
        progs.append(gen_program(rng, kinds) + (kinds,))
    z = oracle_answers(set().union(*[g.plains for g, _, _ in progs]))
    cases = []
    for g, ops, kinds in progs:
        tbl = []
        for p in sorted(g.plains):
            if p in z:
                tbl.append(('z', p, z[p]))
                tbl.append(('f', z[p], p))
        for c, p in sorted(g.inflate.items()):
            tbl.append(('f', c, p))
        cases.append((case_line(g.sx(), ops, tbl), {'kind': 'prog-' + kinds if isinstance(kinds, str) else 'prog',
                                                    'nontrivial': len(ops) >= 2 or kinds in ('strip', 'content')}))
    return cases


def classify(line, tags, model_out, impl_out, verdict):
    """no finding of C11 is open: every failure is a violation.  (An open finding is recognised by the tag [C11-<id>] the
    harness puts in front of a failure after evaluating the finding's class predicate on the document before the failing
    call; a failure is a known finding only when EVERY reported failure carries such a tag.)"""
    import re
    if not verdict.startswith('FAIL') or model_out != impl_out:
        return None
    parts = verdict[5:].split('; step ')
    found = [re.search(r'^(?:step )?\d+: \[(C11-[a-z-]+)\]', p if p.startswith('step') else 'step ' + p) for p in parts]
    if all(found):
        return found[0].group(1)
    return None


# ---------------------------------------------------------------------------------------------
# shrinking: drop operations while the failure persists
# ---------------------------------------------------------------------------------------------
def split_sx(s):
    """top-level items of the list s = '( ... )' as strings"""
    assert s[0] == '(' and s[-1] == ')'
    items, depth, cur = [], 0, ''
    for ch in s[1:-1]:
        if ch == '(':
            depth += 1
        if ch == ')':
            depth -= 1
        if ch == ' ' and depth == 0:
            if cur:
                items.append(cur)
            cur = ''
        else:
            cur += ch
    if cur:
        items.append(cur)
    return items


def shrink(line, still_fails):
    try:
        head, doc, opsx, orc = split_sx(line)
        ops = split_sx(opsx)[1:]
    except Exception:
        return line
    # prefer "an UNTAGGED failure persists" (failures tagged with a known finding do not count)
    try:
        exe, _ = vlib.build_harness(SPEC['bin'])
        if exe:
            def still_fails(l, _exe=exe):
                v = vlib.split_impl(vlib.run_lines(_exe, [l], timeout=120)[0])[1]
                return v.startswith('FAIL') and classify(l, {}, None, None, v) is None
            if not still_fails(line):
                return line
    except Exception:
        pass
    budget = 200
    changed = True
    while changed and budget > 0:
        changed = False
        i = len(ops) - 1
        while i >= 0 and budget > 0:
            cand = ops[:i] + ops[i + 1:]
            budget -= 1
            if cand and still_fails(L('case', doc, L('ops', *cand), orc)):
                ops = cand
                changed = True
            i -= 1
    return L('case', doc, L('ops', *ops), orc)


SPEC = {
    'gen_parts': ['Consts'],
    'allowed_axioms': (),
    'runner': 'c11',
    'bin': 'c11',
    'gen_cases': gen_cases,
    'shrink': shrink,
    'classify': classify,
    'rule': 'random programs (length 1-40) of editing calls incl. add_bookmark / build_outline / save (15 % are outline programs: a nested '
            'bookmark forest, build_outline, then allocating operations, sometimes a second build_outline) over generated documents (page trees of depth <= 4 with own / '
            'inherited / indirect resources, content as reference / array / indirect array / shared stream, annotations, '
            'unreachable objects, indirect-reference objects, sparse ids, max_id at / above / below the largest id and at '
            'u32::MAX; streams whose DICTIONARY holds direct references -- SMask / Metadata / OC / Resources / Pg as a single '
            'reference, colour-space and mask arrays holding the reference once or twice, nested Resources / Group dictionaries, '
            'an indirect Length -- to pages, annotations, fonts, other streams; these targets are preferred by delete_object / '
            'delete_pages steps, and 12 % of the programs are strip programs: such deletions first, while the holder is reachable; 12 % are content '
            'programs: content edits on documents whose Contents entries are indirect arrays, references to references, arrays holding a stream '
            'another page shows; 10 % are resource programs: add_xobject / add_graphics_state with the same name on sibling pages that inherit an INDIRECT Resources dictionary; 10 % of the Pages nodes have an indirect Count, 6 % of the pages sit behind a reference object); '
            'after every delete_object / delete_pages the verdict "no reference to a deleted id survives in anything a traversal '
            'from the trailer reaches" is evaluated; after every step the canonical dump (objects, trailer, max_id) and the returned value are compared '
            'with the model and the invariants are evaluated on the implementation; non-trivial = at least 2 operations; '
            'distinct = distinct case text',
    'extra_trusted': ['C11: flate2/weezl are oracles whose answers come from the case (same table as C09)'],
    'partial_note': 'proved: allocation invariant / freshness / no collision over every program of the whole Document state (incl. add_bookmark, build_outline on every table, save, renumber with bookmarks), build_outline reserves exactly the ids it uses (with C17), pruning = unreachable, delete_object leaves no reference (+ frame, termination), I_content for add_page_contents / add_to_page_content / change_content_stream / change_page_content on EVERY page with a Contents of any shape (stream or array behind references, the page behind reference objects; after the repairs of C11-content-indirect and C11-content-shared: no class excluded; other pages are unchanged when their content is defined), I_resources on every object graph for get_or_create_resources and add_graphics_state (after the repair c729297); I_count at tree level (C11_delete_pages_tree: on a page_doc -- nodes are dictionary objects with direct Kids/Count, exact Counts, Parent pointers, nothing shared, height within the limit of C12 -- delete_pages(ns) neither panics nor hangs, every Pages Count is again the number of leaves, page list = old list minus the pages NUMBERED ns in the original numbering, repeats / out-of-range numbers included; C11_delete_pages_tree_indirect: the same on page_doc_ref -- a Count may sit behind references (shared integer objects allowed), a page may be a reference object leading through any reference objects to the page dictionary, the objects the page ids end at pairwise different -- and every Count the call rewrites is a direct integer afterwards); add_xobject with an indirect XObject entry under xobject_typed (name not Parent/Resources; name new in the target, or the target is the Resources dictionary of no node; alias witness shows the condition is needed); frames for every non-deleting operation (C11_frame_content_ops, C11_frame_keeping_ops). No finding is open; outside the proved domains the clauses are decided on the implementation after every step by the harness and tied to the model by correspondence',
}


def run(ctx):
    return propcheck.standard_check(ctx, SPEC)


MANIFEST = {
    'level_text': 'Machine-checked proofs (Coq) over an executable model of the public editing calls (new_object_id, add_object, '
                  'set_object, delete_object, remove_object, prune_objects, delete_pages, renumber_objects, compress, decompress, '
                  'change_content_stream, change_page_content, add_page_contents, add_to_page_content, get_or_create_resources, '
                  'add_xobject, add_graphics_state, add_bookmark, build_outline, save): for EVERY program max_id stays >= every object number, handed-out ids are fresh '
                  'and never collide, pruning removes exactly the unreachable objects, delete_object leaves no reference to the deleted '
                  'object in the trailer or in anything reachable (after four repairs); the model is tied to the implementation by '
                  'random programs compared after every step, and the invariants (counts, contents, resources, frames) are evaluated '
                  'directly on the implementation after every step. The tree-level Count theorem and the Count invariant over whole programs also hold on the wider domain page_doc_ref (Counts behind references, pages behind reference objects): C11_delete_pages_tree_indirect, C11_count_invariant_ref.',
    'level_note': 'Trusted: Coq kernel; hand-written model Model/Edit.v tied by correspondence (observable: returned values and the '
                  'canonical dump of objects, trailer, max_id after every call); flate2 as an oracle whose answers come from the case; '
                  'extraction/OCaml driver; Rust harness. Seven defects repaired in /repo (four in delete_object, inherited resources shadowed by '
                  'get_or_create_resources, Contents behind references in add_page_contents / change_page_content, a content stream shared '
                  'with another page rewritten in place by change_page_content); no open finding.',
    'technique': 'Coq proof by invariants over fold_left step + differential correspondence after every step + direct verdicts',
    'design_ref': 'DESIGN.md 6 C11',
}
