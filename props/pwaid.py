"""pwaid.py -- password texts for the generators of C05 and C06.

Password preparation (PDFDocEncoding for revisions 2-4, SASLprep + UTF-8 for revisions 5-6) stays an ORACLE: the
generator makes Unicode texts, the harness prepares them with the crate's own preparation (`(prep 4|6 xTEXT ..)`,
harness/src/pwaid.rs) and the PREPARED bytes are what the specification / model side gets as the password -- its
algorithms are defined on the bytes after preparation.  lopdf gets the text.  What is right and what is wrong is decided
on the prepared bytes (first 32 / first 127 of them)."""
import vlib
from sxg import *

CYR = 'абвгдежзийклмнопрстуфхцчшщъыьэюя'                       # 2 bytes each in UTF-8
KANA = 'あいうえおかきくけこさしすせそたちつてとなにぬねのはひふへほ'   # 3 bytes each
LATIN = 'éüßØñçåêàö'                                            # 2 bytes each, one byte in PDFDocEncoding
CJKB = '\U00020000\U00020001\U00020002\U0002000b'               # 4 bytes each (assigned in Unicode 3.2)
# texts SASLprep changes: no-break space -> space, soft hyphen -> nothing, NFKC: ligature, full-width letter,
# ordinal indicator, combining acute, Roman numeral, circled digit
MAPPED = ['\u00a0', 'x\u00ad', '\ufb01', '\uff21', '\u00aa', 'e\u0301', '\u2163', '\u2460']
# PDFDocEncoding beyond ASCII: Latin-1 letters and some of the specials of ISO 32000-1 Annex D.2 (euro, bullet, L-slash,
# z-caron, trademark, fi ligature, dagger, OE)
PDFDOC = LATIN + '\u20ac\u2022\u0141\u017e\u2122\ufb01\u2020\u0152'


def rascii_text(rng, n):
    return ''.join(chr(rng.randrange(0x21, 0x7f)) for _ in range(n))


def straddle(rng, lo=128, hi=200, inside=False):
    """a text of lo..hi UTF-8 bytes made of multi-byte characters after a few ASCII ones: whether byte 127 (where
    revisions 5-6 cut) is the first byte or a continuation byte of a character varies with the prefix; inside: it is a
    continuation byte (the cut falls inside a character)"""
    alpha = rng.choice([CYR, CYR, KANA, KANA, CYR + KANA + LATIN + 'abc', CJKB + CYR])
    target = rng.randint(lo, hi)
    s = rascii_text(rng, rng.randint(0, 3))
    while len(s.encode()) < target:
        s += rng.choice(alpha)
    while inside and (s.encode()[127] & 0xc0) != 0x80:
        s = rascii_text(rng, 1) + s
    return s


def pw_text(rng, r56, empty=0.2, maxlen=None, ascii_only=False):
    k = rng.random()
    if k < empty:
        return ''
    if ascii_only:
        return rascii_text(rng, rng.randint(1, 12) if k < 0.65 else (rng.randint(33, 50) if k < 0.85 else rng.randint(128, 140)))
    if k < 0.5:
        return rascii_text(rng, rng.randint(1, 12))
    if k < 0.62:
        return rascii_text(rng, rng.randint(33, 50))
    if k < 0.70 and maxlen is None:
        return rascii_text(rng, rng.randint(128, 140))
    if not r56:
        n = rng.randint(1, 40)
        return ''.join(rng.choice(PDFDOC) if rng.random() < 0.5 else chr(rng.randrange(0x21, 0x7f)) for _ in range(n))
    if k < 0.85 or maxlen is not None:
        alpha = CYR + KANA + LATIN + 'abcXYZ019'
        s = ''.join(rng.choice(alpha) for _ in range(rng.randint(1, 14)))
        if rng.random() < 0.4:
            i = rng.randint(0, len(s))
            s = s[:i] + rng.choice(MAPPED) + s[i:]
        return s
    return straddle(rng, 120, 200)


def char_index_at_byte(s, b):
    """index of the character of s that holds byte b of its UTF-8 form (None: s is shorter)"""
    pos = 0
    for i, c in enumerate(s):
        n = len(c.encode())
        if pos <= b < pos + n:
            return i
        pos += n
    return None


def other_char(rng, c):
    for alpha in (CYR, KANA, LATIN, CJKB):
        if c in alpha:
            return rng.choice([x for x in alpha if x != c])
    return chr(0x21 + (ord(c) - 0x21 + 1 + rng.randrange(90)) % 94) if 0x21 <= ord(c) < 0x7f else 'q'


def gen_pw_set(rng, limit, r56, force=None, maxlen=None):
    """texts: user, owner, and candidates that the prepared bytes will sort into right and wrong passwords"""
    asc = force == 'ascii'
    user = pw_text(rng, r56, 0.2, maxlen, asc)
    k = rng.random()
    if k < 0.12:
        owner = user
    elif k < 0.2 and len(user.encode()) > limit + 4:
        owner = user + rascii_text(rng, 3)              # the same after truncation, different beyond
    else:
        owner = pw_text(rng, r56, 0.25, maxlen, asc)
    if force == 'user-straddle':
        user = straddle(rng, inside=True)
    elif force == 'owner-straddle':
        owner = straddle(rng, inside=True)
    elif force == 'short':
        user, owner = rascii_text(rng, rng.randint(3, 8)), rascii_text(rng, rng.randint(3, 8))
    elif force == 'noowner':
        # no owner password and a user password that is not empty (Algorithm 3 a: "use the user password instead")
        while not user.strip():
            user = pw_text(rng, r56, 0.0, maxlen, asc)
        owner = ''
    cands = [pw_text(rng, r56, 0.3, maxlen, asc) for _ in range(2)]
    for base in ([user, owner] if force in ('user-straddle', 'owner-straddle') or rng.random() < 0.5 else [user]):
        if not base:
            continue
        nb = len(base.encode())
        if nb <= limit:
            cands.append(base[:-1] + other_char(rng, base[-1]))
        else:
            cands.append(other_char(rng, base[0]) + base[1:])
            cands.append(base + 'x')                     # differs beyond the cut only: still the right password
            i = char_index_at_byte(base, limit - 1)       # the character holding the last byte that counts
            cands.append(base[:i] + other_char(rng, base[i]) + base[i + 1:])
            j = char_index_at_byte(base, limit + 3)       # a character wholly beyond the cut
            if j is not None and j > i + 1:
                cands.append(base[:j] + other_char(rng, base[j]) + base[j + 1:])
    if rng.random() < 0.5 or force == 'noowner':
        cands.append('')                                  # the empty password (must not open unless it is one of the two)
    return {'user': user, 'owner': owner, 'cands': cands, 'limit': limit, 'r56': r56}


def prepare_texts(impl, items, bin_timeout=120):
    """items: iterable of (r56, text) -> {(r56, text): prepared bytes | None}; one harness call per revision class"""
    out = {}
    for r56 in (False, True):
        texts = sorted({t for r, t in items if r == r56})
        if not texts:
            continue
        if impl is None:
            for t in texts:
                out[(r56, t)] = t.encode() if all(0x20 <= ord(c) < 0x7f for c in t) else None
            continue
        chunks = [texts[i:i + 40] for i in range(0, len(texts), 40)]
        lines = [L('prep', '6' if r56 else '4', *[xb(t.encode()) for t in ch]) for ch in chunks]
        res = vlib.run_lines(impl, lines, timeout=bin_timeout)
        for ch, r in zip(chunks, res):
            body = vlib.split_impl(r)[0]
            toks = body[len('(prepared'):-1].split() if body.startswith('(prepared') else []
            for t, tok in zip(ch, toks + ['(err)'] * (len(ch) - len(toks))):
                out[(r56, t)] = bytes.fromhex(tok[1:]) if tok.startswith('x') else None
    return out


def finalize(pwset, P, max_right_extra=2, max_wrong=4):
    """-> dict: user / owner as (text bytes, prepared bytes); pws = [(kind, prepared, text bytes)], the user password
    first, then the owner password (when there is one and it is not the user's), then candidates; feats"""
    r56, limit = pwset['r56'], pwset['limit']

    def prep(t):
        p = P.get((r56, t))
        if p is None:
            # the preparation refuses the text (a character SASLprep prohibits): keep its printable-ASCII part, on which
            # both preparations are the identity
            t = ''.join(c for c in t if 0x20 < ord(c) < 0x7f)
            p = t.encode()
        return t.encode(), p

    user, owner = prep(pwset['user']), prep(pwset['owner'])
    has_owner = bool(owner[1]) or r56                    # revisions 2-4: an empty owner password = no owner password
    rights = {user[1][:limit]}
    if has_owner:
        rights.add(owner[1][:limit])                     # Algorithm 9 has no "use the user password instead"
    pws = [('right', user[1], user[0])]
    if has_owner and owner[1] != user[1]:
        pws.append(('right', owner[1], owner[0]))
    seen = {user[1], owner[1]}
    nr = nw = 0
    for c in pwset['cands']:
        if P.get((r56, c)) is None and not all(0x20 < ord(ch) < 0x7f for ch in c):
            continue
        t, p = prep(c)
        if p in seen:
            continue
        seen.add(p)
        if p[:limit] in rights:
            if nr < max_right_extra:
                nr += 1
                pws.append(('right', p, t))
        elif nw < max_wrong:
            nw += 1
            pws.append(('wrong', p, t))
    feats = set()
    for kind, p, t in pws:
        if any(b >= 0x80 for b in t):
            feats.add('pw-nonascii')
        if p != t:
            feats.add('pw-prep-changes')
        if kind == 'right' and len(p) > limit and limit == 127 and (p[127] & 0xc0) == 0x80:
            feats.add('pw-cut-inside-character')
        if kind == 'right' and len(p) > limit:
            feats.add('pw-longer-than-limit')
    return {'user': user, 'owner': owner, 'pws': pws, 'feats': feats, 'has_owner': has_owner}
