"""C15 -- ToUnicode CMaps decode text as the CMap defines."""
import propcheck
from sxg import *

# ------------------------------------------------------------------------------------------
# the generator's own reading of a mapping table (the property text, nothing shared with Coq/Rust)
#   definition = ('char', len, code, units) | ('incr', len, lo, hi, units) | ('array', len, lo, hi, [units...])
# ------------------------------------------------------------------------------------------

def lookup(defs, ln, code):
    """target of the LAST definition of that code length covering the code"""
    for d in reversed(defs):
        if d[1] != ln:
            continue
        if d[0] == 'char':
            if d[2] == code:
                return list(d[3])
        elif d[2] <= code <= d[3]:
            off = code - d[2]
            if d[0] == 'incr':
                u = list(d[4])
                u[-1] = (u[-1] + off) & 0xFFFF
                return u
            return list(d[4][off]) if off < len(d[4]) else None
    return None


def utf16_chars(units):
    """UTF-16 to scalar values, an unpaired surrogate becomes U+FFFD (WHATWG)"""
    out = []
    i = 0
    while i < len(units):
        u = units[i]
        if 0xD800 <= u <= 0xDBFF:
            if i + 1 < len(units) and 0xDC00 <= units[i + 1] <= 0xDFFF:
                out.append(0x10000 + ((u - 0xD800) << 10) + (units[i + 1] - 0xDC00))
                i += 2
                continue
            out.append(0xFFFD)
        elif 0xDC00 <= u <= 0xDFFF:
            out.append(0xFFFD)
        else:
            out.append(u)
        i += 1
    return out


def code_bytes(ln, code):
    return code.to_bytes(ln, 'big')


# ------------------------------------------------------------------------------------------
# random tables
# ------------------------------------------------------------------------------------------

def rand_units(rng, kind=None, room=0):
    """a target; room = how far its last unit will be incremented"""
    kind = kind or rng.choice(['bmp', 'bmp', 'bmp', 'pair', 'multi', 'lig'])
    hi_last = 0xFFFF - room
    if kind == 'bmp':
        # keep incremented BMP targets out of the surrogate block in the common case
        base = rng.choice([0x20, 0x41, 0x3B1, 0x4E00, 0xFB00, 0xFEF0, 0xFFF0, 0xAC00, 0xFEFF, 0xFFFE, 0xEFBB, 0xBF41, 0xFEFE,
                           rng.randrange(0x20, 0xD000)])
        return [min(base, max(0, hi_last))]
    if kind == 'pair':
        lo = rng.choice([0xDC00, 0xDE00, 0xDF00, rng.randrange(0xDC00, 0xE000)])
        lo = min(lo, max(0xDC00, 0xDFFF - room))
        return [rng.choice([0xD83D, 0xD800, 0xDBFF, 0xD840]), lo]
    if kind == 'lig':
        return [0x66, min(rng.choice([0x66, 0x69, 0x6C]), max(0, hi_last))]
    n = rng.randint(2, 4)
    u = [rng.choice([0x41, 0x263A, 0x4E2D, 0x20AC]) for _ in range(n)]
    u[-1] = min(u[-1], max(0, hi_last))
    return u


def gen_table(rng):
    """returns (defs, lens) ; codes of different lengths have different first bytes, which makes the
    set of mapped codes prefix-free (the well-formedness CMaps get from their codespace ranges)"""
    nl = rng.choice([1, 1, 1, 2, 2, 3])
    lens = sorted(rng.sample([1, 2, 3, 4], nl))
    cuts = sorted(rng.sample(range(1, 256), nl - 1)) if nl > 1 else []
    bounds = [0] + cuts + [256]
    first = {ln: (bounds[i], bounds[i + 1] - 1) for i, ln in enumerate(lens)}
    defs = []

    def rand_code(ln, near=None):
        f0, f1 = first[ln]
        lo_c, hi_c = f0 << (8 * (ln - 1)), ((f1 + 1) << (8 * (ln - 1))) - 1
        if near is not None and rng.random() < 0.8:
            c = near + rng.randint(-12, 12)
        elif rng.random() < 0.5:
            # cluster near a few anchors so that definitions meet each other
            c = rng.choice([lo_c, hi_c, (lo_c + hi_c) // 2, lo_c + 0x10, lo_c + 0xF8, lo_c + 0x100]) + rng.randint(-4, 20)
        else:
            c = rng.randrange(lo_c, hi_c + 1)
        return max(lo_c, min(hi_c, c)), lo_c, hi_c

    n = rng.choice([1, 2, 3, 4, 6, 8, 12])
    last = {}
    for _ in range(n):
        ln = rng.choice(lens)
        kind = rng.choice(['char', 'incr', 'incr', 'incr', 'array'])
        c, lo_c, hi_c = rand_code(ln, last.get(ln))
        if kind == 'char':
            defs.append(('char', ln, c, rand_units(rng)))
            last[ln] = c
            continue
        size = rng.choice([1, 2, 3, 5, 16, 40]) if kind == 'incr' else rng.choice([1, 2, 3, 5])
        hi = min(hi_c, c + size - 1)
        if kind == 'incr':
            defs.append(('incr', ln, c, hi, rand_units(rng, room=hi - c)))
        else:
            defs.append(('array', ln, c, hi, [rand_units(rng) for _ in range(hi - c + 1)]))
        last[ln] = hi
    # adversarial transforms on the definition list (each keeps the table well-formed)
    for _ in range(rng.choice([0, 1, 1, 2, 3])):
        t = rng.choice(['split', 'char_in_range', 'adjacent_equal', 'adjacent_equal_array', 'redefine', 'overlap',
                        'equal_chars', 'cover', 'merge_back'])
        ranged = [d for d in defs if d[0] != 'char']
        if t == 'split' and ranged:
            d = rng.choice(ranged)
            if d[3] > d[2]:
                k = rng.randint(d[2], d[3] - 1)
                i = defs.index(d)
                if d[0] == 'incr':
                    u2 = list(d[4]); u2[-1] = (u2[-1] + (k + 1 - d[2])) & 0xFFFF
                    parts = [('incr', d[1], d[2], k, d[4]), ('incr', d[1], k + 1, d[3], u2)]
                else:
                    parts = [('array', d[1], d[2], k, d[4][:k + 1 - d[2]]), ('array', d[1], k + 1, d[3], d[4][k + 1 - d[2]:])]
                if rng.random() < 0.3:
                    parts.reverse()
                defs[i:i + 1] = parts
        elif t == 'char_in_range' and ranged:
            d = rng.choice(ranged)
            defs.insert(rng.randint(defs.index(d) + 1, len(defs)), ('char', d[1], rng.randint(d[2], d[3]), rand_units(rng)))
        elif t == 'adjacent_equal' and ranged:
            d = rng.choice([x for x in ranged if x[0] == 'incr'] or ranged)
            if d[0] == 'incr':
                size = d[3] - d[2] + 1
                _, lo_c, hi_c = rand_code(d[1])
                if d[3] + size <= hi_c:
                    defs.insert(rng.randint(0, len(defs)), ('incr', d[1], d[3] + 1, d[3] + size, list(d[4])))
                elif d[2] - size >= lo_c:
                    defs.insert(rng.randint(0, len(defs)), ('incr', d[1], d[2] - size, d[2] - 1, list(d[4])))
        elif t == 'adjacent_equal_array':
            arrs = [x for x in ranged if x[0] == 'array']
            if arrs:
                d = rng.choice(arrs)
                size = d[3] - d[2] + 1
                _, lo_c, hi_c = rand_code(d[1])
                if d[3] + size <= hi_c:
                    defs.insert(rng.randint(0, len(defs)), ('array', d[1], d[3] + 1, d[3] + size, [list(u) for u in d[4]]))
        elif t == 'redefine' and defs:
            d = rng.choice(defs)
            defs.insert(rng.randint(0, len(defs)), d)
        elif t == 'overlap' and ranged:
            d = rng.choice(ranged)
            _, lo_c, hi_c = rand_code(d[1])
            lo = max(lo_c, d[2] + rng.randint(-3, d[3] - d[2]))
            hi = min(hi_c, lo + rng.randint(0, 6))
            defs.insert(rng.randint(0, len(defs)), ('incr', d[1], lo, hi, rand_units(rng, room=hi - lo)))
        elif t == 'equal_chars':
            ln = rng.choice(lens)
            c, lo_c, hi_c = rand_code(ln, last.get(ln))
            u = rand_units(rng, rng.choice(['pair', 'multi', 'lig']))
            for k in range(rng.randint(2, 4)):
                if c + k <= hi_c:
                    defs.insert(rng.randint(0, len(defs)), ('char', ln, c + k, list(u)))
        elif t == 'cover' and ranged:
            d = rng.choice(ranged)
            _, lo_c, hi_c = rand_code(d[1])
            lo, hi = max(lo_c, d[2] - rng.randint(0, 3)), min(hi_c, d[3] + rng.randint(0, 3))
            defs.append(('incr', d[1], lo, hi, rand_units(rng, room=hi - lo)))
        elif t == 'merge_back' and ranged:
            # define the middle differently and then again like the original: the stored ranges re-merge
            d = rng.choice(ranged)
            if d[0] == 'incr' and d[3] - d[2] >= 2:
                k = rng.randint(d[2] + 1, d[3] - 1)
                i = defs.index(d)
                defs.insert(i + 1, ('char', d[1], k, rand_units(rng)))
                defs.insert(i + 2, d)
    return defs, lens, first


# ------------------------------------------------------------------------------------------
# rendering
# ------------------------------------------------------------------------------------------

def hexs(rng, b):
    s = b.hex()
    r = rng.random()
    return s.upper() if r < 0.4 else s if r < 0.8 else ''.join(c.upper() if rng.random() < 0.5 else c for c in s)


def sp0(rng):
    return rng.choice(['', ' ', ' ', ' ', '\t', '  ', ' \t'])


def sp1(rng):
    return rng.choice([' ', ' ', ' ', '\t', '  ', '\t '])


def ms1(rng):
    return rng.choice(['\n', '\n', '\n', '\n', '\r\n', '\r', ' \n', '\n\n', ' ', '\t\n', '\n% a comment <00> endbfrange\n',
                       ' %x\r\n', '\n  '])


def ms0(rng):
    return rng.choice(['', '', '', ' ', '\n', ' \r\n ', '\t'])


def arr_ws(rng):
    """white space after [, between the strings of an array, before ]: any, also none (fix: 2c2ca77)"""
    return rng.choice([' ', ' ', ' ', '', '', '\t', '  ', '\n', '\r\n  ', ' % next\n', '\r'])


def render_units(rng, units):
    out = '<'
    for i, u in enumerate(units):
        out += hexs(rng, u.to_bytes(2, 'big'))
        if i + 1 < len(units):
            out += rng.choice(['', '', '', ' ', '\n', '  '])
        elif rng.random() < 0.1:
            out += rng.choice([' ', '\n'])
    return out + '>'


def render_def(rng, d):
    if d[0] == 'char':
        return sp0(rng) + '<' + hexs(rng, code_bytes(d[1], d[2])) + '>' + sp0(rng) + render_units(rng, d[3]) + ms1(rng)
    head = sp0(rng) + '<' + hexs(rng, code_bytes(d[1], d[2])) + '>' + sp0(rng) + '<' + hexs(rng, code_bytes(d[1], d[3])) + '>' + sp0(rng)
    if d[0] == 'incr':
        if rng.random() < 0.1:
            return head + '[' + sp0(rng) + render_units(rng, d[4]) + sp0(rng) + ']' + ms1(rng) if d[3] == d[2] and len(d[4]) > 1 \
                else head + render_units(rng, d[4]) + ms1(rng)
        return head + render_units(rng, d[4]) + ms1(rng)
    out = head + '[' + arr_ws(rng)
    for i, u in enumerate(d[4]):
        out += (arr_ws(rng) if i else '') + render_units(rng, u)
    return out + arr_ws(rng) + ']' + ms1(rng)


CID_DICTS = [
    '<<\n/Registry (Adobe)\n/Ordering (UCS)\n/Supplement 0\n>>',
    '<< /Registry (Adobe) /Ordering (UCS) /Supplement 0 >>',
    '<</Registry(Adobe)/Ordering(UCS)/Supplement 0>>',
    '<< /Registry (Adobe) % note\n /Ordering (UCS)\n/Supplement 0\n>>',
    '3 dict dup begin\n  /Registry (callas) def\n  /Ordering (MyriadPro-Regular14-UCMap) def\n  /Supplement 0 def\nend',
    '<< >>',
    '<<>>',
]


def render_sections(rng, defs, lens, first):
    """sections: consecutive definitions of one kind grouped at random; codespace sections anywhere"""
    out = ''
    i = 0
    groups = []
    while i < len(defs):
        kind = 'char' if defs[i][0] == 'char' else 'range'
        if kind == 'char' and rng.random() < 0.25:
            # a bfchar may equally be written as a one-code bfrange
            kind = 'range1'
        j = i + 1
        while j < len(defs) and ('char' if defs[j][0] == 'char' else 'range') == kind and rng.random() < 0.7:
            j += 1
        groups.append((kind, defs[i:j]))
        i = j
    def codespace():
        body = ''
        ls = lens if rng.random() < 0.8 else rng.sample(lens, rng.randint(1, len(lens)))
        for ln in ls:
            f0, f1 = first[ln]
            body += sp0(rng) + '<' + hexs(rng, bytes([f0] + [0] * (ln - 1))) + '>' + sp0(rng) + '<' + hexs(rng, bytes([f1] + [255] * (ln - 1))) + '>' + ms1(rng)
        return '%d%sbegincodespacerange%s%sendcodespacerange%s' % (len(ls), sp1(rng), ms1(rng), body, ms1(rng))
    cs_at = rng.choice([0, 0, 0, 0, None, rng.randint(0, len(groups))])
    for gi, (kind, ds) in enumerate(groups):
        if cs_at == gi:
            out += codespace()
        n = len(ds) if rng.random() < 0.9 else rng.randint(0, 200)
        if kind == 'char':
            out += '%d%sbeginbfchar%s' % (n, sp1(rng), ms1(rng)) + ''.join(render_def(rng, d) for d in ds) + 'endbfchar' + ms1(rng)
        else:
            rs = [d if d[0] != 'char' else ('incr', d[1], d[2], d[2], d[3]) for d in ds]
            out += '%d%sbeginbfrange%s' % (n, sp1(rng), ms1(rng)) + ''.join(render_def(rng, d) for d in rs) + 'endbfrange' + ms1(rng)
    if cs_at is not None and cs_at >= len(groups):
        out += codespace()
    return out


def render_secs_text(rng, secs):
    """the sections of a given section list (see sections_of_defs) in the free style of render_sections"""
    names = {'cs': 'codespacerange', 'bfchar': 'bfchar', 'bfrange': 'bfrange'}
    out = ''
    for k, ls in secs:
        n = len(ls) if rng.random() < 0.9 else rng.randint(0, 200)
        out += '%d%sbegin%s%s' % (n, sp1(rng), names[k], ms1(rng))
        for x in ls:
            if k == 'cs':
                out += sp0(rng) + '<' + hexs(rng, code_bytes(x[2], x[0])) + '>' + sp0(rng) + '<' + hexs(rng, code_bytes(x[2], x[1])) + '>' + ms1(rng)
            elif k == 'bfchar':
                out += render_def(rng, ('char', x[1], x[0], x[2]))
            elif len(x[3]) == 1:
                out += render_def(rng, ('incr', x[2], x[0], x[1], x[3][0]))
            else:
                out += render_def(rng, ('array', x[2], x[0], x[1], x[3]))
        out += 'end' + names[k] + ms1(rng)
    return out


def render_cmap(rng, defs, lens, first, plain_meta=False, secs=None):
    pre = rng.choice(['', '', '\n', '%!PS-Adobe-3.0 Resource-CMap\n%%DocumentNeededResources: ProcSet (CIDInit)\n\n', ' \t\r\n'])
    head = pre + '/CIDInit' + sp0(rng) + rng.choice(['/ProcSet', '/ProcSet', '/Procset']) + sp1(rng) + 'findresource' + sp1(rng) + 'begin' + ms1(rng)
    head += str(rng.choice([12, 12, 1, 100])) + sp1(rng) + 'dict' + sp1(rng) + 'begin' + ms1(rng) + 'begincmap' + ms1(rng)
    metas = []
    cid = '/CIDSystemInfo' + ms0(rng) + rng.choice(CID_DICTS) + ms1(rng) + 'def' + ms1(rng)
    nm = '/CMapName' + sp0(rng) + rng.choice(['/Adobe-Identity-UCS', '/R27', '/A#20B', '/']) + sp1(rng) + 'def' + ms1(rng)
    ty = '/CMapType' + sp1(rng) + rng.choice(['2', '2', '1', '007']) + sp1(rng) + 'def' + ms1(rng)
    pool = [nm, ty] if plain_meta else [cid, nm, ty]
    k = rng.randint(1, len(pool))
    metas = rng.sample(pool, k)
    if rng.random() < 0.1 and len(metas) < 4:
        metas.append(rng.choice([nm, ty]))
    body = render_sections(rng, defs, lens, first) if secs is None else render_secs_text(rng, secs)
    tail = 'endcmap' + ms1(rng) + 'CMapName' + sp1(rng) + 'currentdict' + sp1(rng) + '/CMap' + sp1(rng) + 'defineresource' + sp1(rng) + 'pop' + ms1(rng)
    tail += 'end' + ms1(rng) + 'end' + rng.choice(['', '\n', '\n\n%%EndResource\n%%EOF\n', ' trailing garbage is ignored', '\r\n'])
    return (head + ''.join(metas) + body + tail).encode('latin-1')


# ------------------------------------------------------------------------------------------
# layouts for the EXTRACTED renderer (coq/Spec/CMapRender.v, the one the round-trip theorem is about)
#   blank B = 's' | 't' ; in-string item S = B | 'cr' | 'lf' | 'crlf' ; item W = S | ('c', text, eol)
#   the Python functions L_* below are a second, independent rendering of the same layout; the text
#   used in a case is the extracted renderer's, and a difference between the two is reported
# ------------------------------------------------------------------------------------------

def sections_of_defs(rng, defs, lens, first):
    """section list [('cs', [(lo,hi,len)]) | ('bfchar', [(code,len,units)]) | ('bfrange', [(lo,hi,len,[units..])])]"""
    groups = []
    i = 0
    while i < len(defs):
        kind = 'char' if defs[i][0] == 'char' else 'range'
        if kind == 'char' and rng.random() < 0.25:
            kind = 'range1'
        j = i + 1
        while j < len(defs) and ('char' if defs[j][0] == 'char' else 'range') == kind and rng.random() < 0.7:
            j += 1
        groups.append((kind, defs[i:j]))
        i = j

    def codespace():
        ls = lens if rng.random() < 0.8 else rng.sample(lens, rng.randint(1, len(lens)))
        return ('cs', [((first[ln][0] << (8 * (ln - 1))), (((first[ln][1] + 1) << (8 * (ln - 1))) - 1), ln) for ln in ls])
    cs_at = rng.choice([0, 0, 0, 0, None, rng.randint(0, len(groups))])
    secs = []
    for gi, (kind, ds) in enumerate(groups):
        if cs_at == gi:
            secs.append(codespace())
        if kind == 'char':
            secs.append(('bfchar', [(d[2], d[1], list(d[3])) for d in ds]))
        else:
            lines = []
            for d in ds:
                if d[0] == 'char':
                    lines.append((d[2], d[2], d[1], [list(d[3])]))
                elif d[0] == 'incr':
                    lines.append((d[2], d[3], d[1], [list(d[4])]))
                else:
                    lines.append((d[2], d[3], d[1], [list(u) for u in d[4]]))
            secs.append(('bfrange', lines))
    if cs_at is not None and cs_at >= len(groups):
        secs.append(codespace())
    return secs


# ---- sections of more than 100 entries --------------------------------------------------------------------------------
# Adobe TN 5014 recommends that a producer writes at most 100 entries per section; the grammar has no such limit (many1),
# ISO 32000-1 9.10.3 states none, real producers exceed it, and C15_parse_render holds for sections of any length.
BIG_SIZES = [101, 150, 250, 1000]


def gen_big_table(rng, kind, n):
    """a small random table (gen_table) plus n further definitions of ONE kind in a row: kind = 'bfchar' (single codes),
    'bfrange' (incrementing and array ranges of 1-3 codes), 'cs' (no further definitions: the n entries are codespace
    ranges).  Returns (defs, lens, first, (start, n) = where the run of n definitions sits in defs)."""
    while True:
        defs, lens, first = gen_table(rng)
        wide = [ln for ln in lens if ln >= 2]
        if wide:
            break
    defs = defs[:rng.choice([0, 0, 1, 3, len(defs)])]
    if kind == 'cs':
        return defs, lens, first, (len(defs), 0)
    ln = rng.choice(wide)
    f0, f1 = first[ln]
    lo_c, hi_c = f0 << (8 * (ln - 1)), ((f1 + 1) << (8 * (ln - 1))) - 1
    span = hi_c - lo_c + 1
    pos = rng.randrange(span)
    run = []
    for _ in range(n):
        if kind == 'bfchar':
            run.append(('char', ln, lo_c + pos % span, rand_units(rng)))
            pos += rng.choice([1, 1, 1, 2, 3, 7])
        else:
            size = rng.choice([1, 1, 2, 3])
            c = lo_c + pos % span
            hi = min(hi_c, c + size - 1)
            if rng.random() < 0.25:
                run.append(('array', ln, c, hi, [rand_units(rng) for _ in range(hi - c + 1)]))
            else:
                run.append(('incr', ln, c, hi, rand_units(rng, room=hi - c)))
            pos += size + rng.choice([0, 0, 1, 5])
    at = rng.randint(0, len(defs))
    return defs[:at] + run + defs[at:], lens, first, (at, n)


def sections_chunked(rng, defs, lens, first, per, big_cs=0):
    """section list in which consecutive definitions of one kind share a section of at most `per` entries (per = entries per
    section, the producer's choice); big_cs > 0: the codespace section holds that many ranges (sub-ranges of the code space,
    in `per`-sized sections as well)"""
    secs = []
    def put(kind, line):
        if secs and secs[-1][0] == kind and len(secs[-1][1]) < per:
            secs[-1][1].append(line)
        else:
            secs.append((kind, [line]))
    for d in defs:
        if d[0] == 'char':
            put('bfchar', (d[2], d[1], list(d[3])))
        elif d[0] == 'incr':
            put('bfrange', (d[2], d[3], d[1], [list(d[4])]))
        else:
            put('bfrange', (d[2], d[3], d[1], [list(u) for u in d[4]]))
    cs = []
    if big_cs:
        for _ in range(big_cs):
            ln = rng.choice(lens)
            f0, f1 = first[ln]
            lo_c, hi_c = f0 << (8 * (ln - 1)), ((f1 + 1) << (8 * (ln - 1))) - 1
            a = rng.randint(lo_c, hi_c)
            cs.append((a, min(hi_c, a + rng.choice([0, 1, 15, 255, 65535])), ln))
    else:
        cs = [((first[ln][0] << (8 * (ln - 1))), (((first[ln][1] + 1) << (8 * (ln - 1))) - 1), ln) for ln in lens]
    cs_secs = [('cs', cs[i:i + per]) for i in range(0, len(cs), per)]
    at = rng.choice([0, 0, len(secs), rng.randint(0, len(secs))])
    return secs[:at] + cs_secs + secs[at:]


def lay_layout_big(rng, secs):
    """a layout for long sections: full line layouts for the first lines of every section (up to a random number that
    often lies beyond 100), the renderer's defaults after that"""
    y = lay_layout(rng, [(k, ls[:rng.choice([0, 3, 20, 105, 130])]) for k, ls in secs])
    return y


def big_plan(rng, tier):
    """[(kind, n, per)]: every kind of section with 101, 150, 250, 1000 entries in ONE section, and the same tables chunked
    at 100 (TN 5014), 101 and at random"""
    plan = []
    for kind in ('bfchar', 'bfrange', 'cs'):
        for n in BIG_SIZES:
            plan.append((kind, n, n))
        plan.append((kind, rng.choice([150, 250]), 100))
        plan.append((kind, rng.choice([150, 250, 303]), 101))
        plan.append((kind, rng.randint(102, 400), rng.randint(101, 400)))
    if tier != 'quick':
        for _ in range(120):
            n = rng.choice(BIG_SIZES + [rng.randint(101, 1200)])
            plan.append((rng.choice(['bfchar', 'bfrange', 'cs']), n, rng.choice([n, n, 100, 101, rng.randint(90, 1200)])))
    return plan


def lay_blank(rng):
    return rng.choice(['s', 's', 's', 't'])


def lay_gap0(rng):
    return [lay_blank(rng) for _ in range(rng.choice([0, 0, 1, 1, 1, 2, 3]))]


def lay_gap1(rng):
    return [lay_blank(rng) for _ in range(rng.choice([1, 1, 1, 2, 3]))]


def lay_eol(rng):
    return rng.choice(['lf', 'lf', 'lf', 'cr', 'crlf'])


def lay_comment(rng):
    t = rng.choice(['', ' a comment', '%%EndComments', ' <00> endbfrange', 'x\ry\nz', '\t[ <0041> ]',
                    ''.join(chr(rng.randrange(256)) for _ in range(rng.randint(0, 6)))])
    return ('c', t, lay_eol(rng))


def lay_witem(rng):
    r = rng.random()
    return lay_blank(rng) if r < 0.3 else lay_eol(rng) if r < 0.88 else lay_comment(rng)


def lay_brk1(rng):
    if rng.random() < 0.5:
        return [lay_eol(rng)]
    return [lay_witem(rng) for _ in range(rng.choice([1, 2, 2, 3, 4]))]


def lay_brk0(rng):
    return [lay_witem(rng) for _ in range(rng.choice([0, 0, 1, 1, 2, 3]))]


def lay_agap(rng):
    """white space inside an array: any, also none"""
    r = rng.random()
    if r < 0.25:
        return []
    if r < 0.8:
        return lay_gap1(rng)
    return [lay_witem(rng) for _ in range(rng.choice([1, 2, 3]))]


def lay_bits(rng, n):
    r = rng.random()
    if r < 0.3:
        return ''
    if r < 0.55:
        return '1' * n
    return ''.join(rng.choice('01') for _ in range(rng.choice([n, n, n, max(0, n - 1), n + 2])))


def lay_sgap(rng):
    return [rng.choice(['s', 's', 't', 'lf', 'cr', 'crlf']) for _ in range(rng.choice([0, 0, 0, 0, 1, 1, 2]))]


def short(rng, l):
    """a layout list may be too short: the renderer continues with the default"""
    return l[:rng.randrange(len(l) + 1)] if l and rng.random() < 0.12 else l


def lay_tlay(rng, units):
    return short(rng, [(lay_bits(rng, 4), lay_sgap(rng)) for _ in units])


def lay_line(rng, kind, line):
    if kind == 'cs':
        ln, tg = line[2], []
    elif kind == 'bfchar':
        ln, tg = line[1], [(lay_agap(rng), lay_tlay(rng, line[2]))]
    else:
        ln, tg = line[2], short(rng, [(lay_agap(rng), lay_tlay(rng, u)) for u in line[3]])
    return {'c1': lay_bits(rng, 2 * ln), 'g1': lay_gap0(rng), 'c2': lay_bits(rng, 2 * ln), 'g2': lay_gap0(rng),
            'br': 1 if rng.random() < 0.3 else 0, 'open': lay_agap(rng), 'tgts': tg, 'close': lay_agap(rng), 'end': lay_brk1(rng)}


def lay_layout(rng, secs):
    if rng.random() < 0.05:
        return {'pre': [], 'gap0': [], 'gap1': [], 'brk': [], 'dict': [], 'n': 12, 'secs': [], 'post': []}     # all defaults
    return {'pre': lay_brk0(rng), 'gap0': short(rng, [lay_gap0(rng) for _ in range(2)]),
            'gap1': short(rng, [lay_gap1(rng) for _ in range(11)]), 'brk': short(rng, [lay_brk1(rng) for _ in range(11)]),
            'dict': short(rng, [lay_brk0(rng) for _ in range(7)]), 'n': rng.choice([12, 12, 1, 0, 100, 10 ** 21 + 7]),
            'secs': short(rng, [{'gap': lay_gap1(rng), 'begin': lay_brk1(rng),
                                 'lines': short(rng, [lay_line(rng, k, x) for x in ls]), 'end': lay_brk1(rng)} for k, ls in secs]),
            'post': lay_brk0(rng)}


# --- the case language ---
def sx_w(w):
    return L('c', xb(w[1]), w[2]) if isinstance(w, tuple) else w


def sx_bits(b):
    return b or '-'


def sx_line(y):
    ws = lambda l: L(*[sx_w(w) for w in l])
    return L('line', sx_bits(y['c1']), L(*y['g1']), sx_bits(y['c2']), L(*y['g2']), str(y['br']), ws(y['open']),
             L('tgts', *[L(ws(g), L(*[L(sx_bits(b), L(*a)) for b, a in t])) for g, t in y['tgts']]), ws(y['close']),
             L(*[sx_w(w) for w in y['end']]))


def sx_layout(y):
    ws = lambda l: L(*[sx_w(w) for w in l])
    return L('layout', L('pre', *[sx_w(w) for w in y['pre']]), L('gap0', *[L(*g) for g in y['gap0']]),
             L('gap1', *[L(*g) for g in y['gap1']]), L('brk', *[ws(b) for b in y['brk']]), L('dict', *[ws(b) for b in y['dict']]),
             str(y['n']),
             L('secs', *[L('sec', L(*s['gap']), ws(s['begin']), L('lines', *[sx_line(x) for x in s['lines']]), ws(s['end']))
                         for s in y['secs']]),
             L('post', *[sx_w(w) for w in y['post']]))


def sx_secs(secs):
    out = []
    for k, ls in secs:
        if k == 'cs':
            out.append(L('cs', *[L(str(a), str(b), str(c)) for a, b, c in ls]))
        elif k == 'bfchar':
            out.append(L('bfchar', *[L(str(c), str(n), L(*[str(u) for u in t])) for c, n, t in ls]))
        else:
            out.append(L('bfrange', *[L(str(a), str(b), str(n), L(*[L(*[str(u) for u in t]) for t in ts])) for a, b, n, ts in ls]))
    return L('secs', *out)


# --- the second rendering (Python), line for line after the syntax, defaults as in the Coq record types ---
L_EOL = {'cr': '\r', 'lf': '\n', 'crlf': '\r\n'}
SP1, NL1 = ['s'], ['lf']
LINE_DEFAULT = {'c1': '', 'g1': ['s'], 'c2': '', 'g2': ['s'], 'br': 0, 'open': [], 'tgts': [], 'close': [], 'end': NL1}
SEC_DEFAULT = {'gap': SP1, 'begin': NL1, 'lines': [], 'end': NL1}


def L_w(w):
    if isinstance(w, tuple):
        return '%' + ''.join(ch for ch in w[1] if ch not in '\r\n') + L_EOL[w[2]]
    return L_EOL[w] if w in L_EOL else (' ' if w == 's' else '\t')


def L_ws(l):
    return ''.join(L_w(w) for w in l)


def L_hex(bits, bs_):
    out = ''
    for i, ch in enumerate(bytes(bs_).hex()):
        out += ch.upper() if i < len(bits) and bits[i] == '1' else ch
    return out


def nth(l, k, d):
    return l[k] if k < len(l) else d


def L_target(tl, units):
    out = '<'
    for i, u in enumerate(units):
        b, a = nth(tl, i, ('', []))
        out += L_hex(b, u.to_bytes(2, 'big')) + L_ws(a)
    return out + '>'


def L_code(bits, ln, v):
    return '<' + L_hex(bits, v.to_bytes(ln, 'big')) + '>'


def L_array(y, dst):
    out = '[' + L_ws(y['open']) + L_target(nth(y['tgts'], 0, (SP1, []))[1], dst[0])
    for i, t in enumerate(dst[1:]):
        g, tl = nth(y['tgts'], i + 1, (SP1, []))
        out += L_ws(g) + L_target(tl, t)
    return out + L_ws(y['close']) + ']'


def L_line(kind, y, x):
    t0 = nth(y['tgts'], 0, (SP1, []))[1]
    if kind == 'cs':
        return L_code(y['c1'], x[2], x[0]) + L_ws(y['g1']) + L_code(y['c2'], x[2], x[1]) + L_ws(y['end'])
    if kind == 'bfchar':
        return L_code(y['c1'], x[1], x[0]) + L_ws(y['g1']) + L_target(t0, x[2]) + L_ws(y['end'])
    head = L_code(y['c1'], x[2], x[0]) + L_ws(y['g1']) + L_code(y['c2'], x[2], x[1]) + L_ws(y['g2'])
    if len(x[3]) == 1 and not (y['br'] and x[0] == x[1]):
        return head + L_target(t0, x[3][0]) + L_ws(y['end'])
    return head + L_array(y, x[3]) + L_ws(y['end'])


def L_render(y, secs):
    g0 = lambda k: L_ws(nth(y['gap0'], k, ['s']))
    g1 = lambda k: L_ws(nth(y['gap1'], k, SP1))
    br = lambda k: L_ws(nth(y['brk'], k, NL1))
    bs1 = lambda k: L_ws(nth(y['brk'], k, ['s']))
    dw = lambda k: L_ws(nth(y['dict'], k, ['s']))
    out = L_ws(y['pre']) + '/CIDInit' + g0(0) + '/ProcSet' + g1(0) + 'findresource' + g1(1) + 'begin' + br(0)
    out += (str(y['n'] % 10 ** 21).zfill(21) if y['n'] >= 10 ** 21 else str(y['n']))   # 21 digits at most
    out += g1(2) + 'dict' + g1(3) + 'begin' + br(1) + 'begincmap' + br(2)
    out += '/CIDSystemInfo' + dw(0) + '<<' + dw(1) + '/Registry' + dw(2) + '(Adobe)' + dw(3) + '/Ordering' + dw(4) + '(UCS)' + dw(5)
    out += '/Supplement' + bs1(3) + '0' + dw(6) + '>>' + bs1(4) + 'def' + br(5)
    out += '/CMapName' + g0(1) + '/Adobe-Identity-UCS' + g1(4) + 'def' + br(6)
    out += '/CMapType' + g1(5) + '2' + g1(6) + 'def' + br(7)
    names = {'cs': 'codespacerange', 'bfchar': 'bfchar', 'bfrange': 'bfrange'}
    for i, (k, ls) in enumerate(secs):
        s = nth(y['secs'], i, SEC_DEFAULT)
        out += str(len(ls)) + L_ws(s['gap']) + 'begin' + names[k] + L_ws(s['begin'])
        for j, x in enumerate(ls):
            out += L_line(k, nth(s['lines'], j, LINE_DEFAULT), x)
        out += 'end' + names[k] + L_ws(s['end'])
    out += 'endcmap' + br(8) + 'CMapName' + g1(7) + 'currentdict' + g1(8) + '/CMap' + g1(9) + 'defineresource' + g1(10) + 'pop' + br(9)
    out += 'end' + br(10) + 'end' + L_ws(y['post'])
    return out.encode('latin-1')


def extracted_render(pairs):
    """[(layout, secs)] -> [bytes | None] through the extracted runner (built by the check before the cases are generated)"""
    import os, vlib
    exe = os.path.join(vlib.BUILD, 'ocaml', 'c15', 'run')
    if not pairs or not os.path.exists(exe):
        return [None] * len(pairs)
    outs = vlib.run_lines(exe, [L('rendertext', sx_layout(y), sx_secs(s)) for y, s in pairs], timeout=600, shards=8)
    res = []
    for o in outs:
        try:
            res.append(bytes.fromhex(o[1:]) if o.startswith('x') else None)
        except ValueError:
            res.append(None)
    return res


# ------------------------------------------------------------------------------------------
# cases
# ------------------------------------------------------------------------------------------

ENCS = ['none', 'none', xb('Identity-H'), xb('Identity-H'), xb('Identity-V')] * 5 + [xb('WinAnsiEncoding'), xb('UniGB-UCS2-H'), xb('Identity')]


def mapped_codes(defs):
    """all (len, code) some definition covers, capped per definition"""
    out = []
    for d in defs:
        if d[0] == 'char':
            out.append((d[1], d[2]))
        else:
            span = d[3] - d[2]
            ks = {0, span, span // 2, min(span, 1), max(0, span - 1)}
            out += [(d[1], d[2] + k) for k in sorted(ks)]
    return out


def sx_units(u):
    return 'none' if u is None else L('some', *[str(x) for x in u])


def make_case(rng, defs, lens, first, stream, expect=True, extra_texts=(), extra_probes=(), head='case', tail=()):
    if len(defs) > 60:
        # a long table: probe the first and last definitions, those around the 100th / 101st, and a random sample
        # (the expectation is still computed from the WHOLE table)
        idx = set(range(3)) | set(range(len(defs) - 3, len(defs))) | set(rng.sample(range(len(defs)), 40))
        for k in range(len(defs)):
            if k % 50 in (0, 1, 49) or 97 <= k <= 103:
                idx.add(k)
        idx = sorted(idx)[:90]
        codes = mapped_codes([defs[k] for k in idx])
    else:
        codes = mapped_codes(defs)
    # also the neighbours of every boundary, mapped or not
    near = []
    for (ln, c) in codes:
        f0, f1 = first[ln]
        for c2 in (c - 1, c + 1):
            if (f0 << (8 * (ln - 1))) <= c2 < ((f1 + 1) << (8 * (ln - 1))):
                near.append((ln, c2))
    probes = list(dict.fromkeys(codes + near))
    rng.shuffle(probes)
    probes = probes[:40]
    mapped = [p for p in dict.fromkeys(codes + near) if lookup(defs, p[0], p[1]) is not None]
    texts = []
    if mapped:
        for _ in range(rng.randint(1, 4)):
            texts.append([rng.choice(mapped) for _ in range(rng.choice([1, 2, 3, 5, 9]))])
        for p in mapped[:30]:
            texts.append([p])
    tbytes = [b''.join(code_bytes(ln, c) for ln, c in t) for t in texts]
    eg = [sx_units(lookup(defs, ln, c)) for ln, c in probes]
    et = []
    for t in texts:
        units = []
        for ln, c in t:
            units += lookup(defs, ln, c)
        et.append(L(*[str(x) for x in utf16_chars(units)]))
    probes = probes + list(extra_probes)
    eg += ['any'] * len(extra_probes)
    tbytes += list(extra_texts)
    et += ['any'] * len(extra_texts)
    exp = L('expect', L('gets', *eg), L('texts', *et)) if expect else L('malformed')
    line = L(head, rng.choice(ENCS), xb(stream), L('texts', *[xb(t) for t in tbytes]),
             L('probes', *[L(str(c), str(ln)) for ln, c in probes]), exp, *tail)
    return line, len(texts)


def damage(rng, stream):
    """one syntactic or semantic damage; returns (bytes, name)"""
    s = stream.decode('latin-1')
    import re
    kind = rng.choice(['flip', 'delete', 'insert', 'truncate', 'lenmismatch', 'backwards', 'emptyarray', 'shortarray',
                       'longcode', 'oddhex', 'noend', 'spacefirst', 'nlarray', 'manyunits', 'fivemeta', 'emptytarget',
                       'overflow', 'nocount', 'upper_keyword', 'missing_ms'])
    if kind == 'flip':
        i = rng.randrange(len(s)); s = s[:i] + chr(rng.choice([0, 0x20, 0x3c, 0x3e, 0x25, 0x5b, 0x30, 0x67, 0xff, 0x0a])) + s[i + 1:]
    elif kind == 'delete':
        i = rng.randrange(len(s)); s = s[:i] + s[i + rng.randint(1, 3):]
    elif kind == 'insert':
        i = rng.randrange(len(s)); s = s[:i] + rng.choice(['<', '>', ' ', '\n', '%', '0', 'g', '[', ']', '<00>', 'end']) + s[i:]
    elif kind == 'truncate':
        s = s[:rng.randrange(len(s))]
    else:
        ranges = list(re.finditer(r'<([0-9a-fA-F]+)>([ \t]*)<([0-9a-fA-F]+)>([ \t]*)(<[0-9a-fA-F \n]+>|\[[^\]]*\])', s))
        targets = list(re.finditer(r'<([0-9a-fA-F]{4})', s))
        if kind == 'lenmismatch' and ranges:
            m = rng.choice(ranges); s = s[:m.start(3)] + '00' + s[m.start(3):]
        elif kind == 'backwards' and ranges:
            m = rng.choice(ranges)
            s = s[:m.start(1)] + m.group(3) + s[m.end(1):m.start(3)] + m.group(1) + s[m.end(3):]
        elif kind == 'emptyarray' and ranges:
            m = rng.choice(ranges); s = s[:m.start(5)] + rng.choice(['[]', '[ ]']) + s[m.end(5):]
        elif kind == 'shortarray' and ranges:
            m = rng.choice(ranges); s = s[:m.start(5)] + '[<0041> <0042>]' + s[m.end(5):]
        elif kind == 'longcode' and ranges:
            m = rng.choice(ranges); s = s[:m.start(1)] + '0102030405' + s[m.end(1):]
        elif kind == 'oddhex' and targets:
            m = rng.choice(targets); s = s[:m.end(1)] + 'A' + s[m.end(1):]
        elif kind == 'noend':
            s = s.replace(rng.choice(['endbfrange', 'endbfchar', 'endcmap', 'endcodespacerange']), '', 1)
        elif kind == 'spacefirst' and targets:
            m = rng.choice(targets); s = s[:m.start(1)] + ' ' + s[m.start(1):]
        elif kind == 'nlarray':
            s = re.sub(r'> <', '>\n<', s, count=1) if '[' in s else s + 'x'
        elif kind == 'manyunits' and targets:
            m = rng.choice(targets); s = s[:m.end(1)] + '0041' * rng.choice([255, 256]) + s[m.end(1):]
        elif kind == 'fivemeta':
            s = s.replace('begincmap\n', 'begincmap\n' + '/CMapType 2 def\n' * rng.choice([3, 4, 5]), 1)
        elif kind == 'emptytarget' and targets:
            m = rng.choice(targets); s = s[:m.start(1)] + s[m.end(1):]
        elif kind == 'overflow' and ranges:
            m = rng.choice(ranges); s = s[:m.start(5)] + rng.choice(['<FFFF>', '<0041FFFF>', '<D83DFFFE>']) + s[m.end(5):]
        elif kind == 'nocount':
            s = re.sub(r'\d+([ \t]+begin(bfchar|bfrange|codespacerange))', r'\1', s, count=1)
        elif kind == 'upper_keyword':
            k = rng.choice(['beginbfchar', 'beginbfrange', 'findresource', 'def', 'begincmap', 'pop'])
            s = s.replace(k, k.upper(), 1)
        elif kind == 'missing_ms':
            s = re.sub(r'(endbfchar|endbfrange|endcodespacerange|begincmap|def|pop)[ \t\r\n]+', r'\1', s, count=1)
    return s.encode('latin-1', 'replace'), kind


def gen_cases(rng, tier):
    n = 1500 if tier == 'quick' else 40000
    cases = []
    # cases whose CMap text is written by the extracted renderer of Spec/CMapRender.v
    nr = 400 if tier == 'quick' else 10000
    pend = []
    for k in range(nr):
        defs, lens, first = gen_table(rng)
        secs = sections_of_defs(rng, defs, lens, first)
        pend.append((defs, lens, first, secs, lay_layout(rng, secs)))
    # sections of 101, 150, 250, 1000 entries (bfchar, bfrange, codespacerange), through the extracted renderer ...
    plan = big_plan(rng, tier)
    big = {}
    for kind, nb, per in plan:
        defs, lens, first, _ = gen_big_table(rng, kind, nb)
        secs = sections_chunked(rng, defs, lens, first, per, big_cs=nb if kind == 'cs' else 0)
        big[len(pend)] = 'render-long-%s%s' % (kind, '' if per > 100 else '-chunked100')
        pend.append((defs, lens, first, secs, lay_layout_big(rng, secs)))
    texts = extracted_render([(p[4], p[3]) for p in pend])
    for pi, ((defs, lens, first, secs, lay), text) in enumerate(zip(pend, texts)):
        mine = L_render(lay, secs)
        kind = big.get(pi, 'render')
        if text is None:
            text, kind = mine, 'render-noextract'     # the runner could not be asked: the model still compares the text with its own
        elif text != mine:
            text, kind = mine, 'render-py-differs'    # the model will answer (res render-differs) on this one
        garbage = [bytes(rng.randrange(256) for _ in range(rng.randint(1, 9))) for _ in range(2)]
        line, nt = make_case(rng, defs, lens, first, text, True, garbage,
                             [(rng.choice(lens), rng.randrange(1 << (8 * rng.choice(lens))))], head='render',
                             tail=(sx_layout(lay), sx_secs(secs)))
        cases.append((line, {'kind': kind, 'nontrivial': len(defs) >= 2 and nt > 0}))
    # ... and in the free style of the Python renderer
    for kind, nb, per in plan:
        defs, lens, first, _ = gen_big_table(rng, kind, nb)
        secs = sections_chunked(rng, defs, lens, first, per, big_cs=nb if kind == 'cs' else 0)
        stream = render_cmap(rng, defs, lens, first, secs=secs)
        line, nt = make_case(rng, defs, lens, first, stream, True, [], [(rng.choice(lens), rng.randrange(1 << (8 * rng.choice(lens))))])
        cases.append((line, {'kind': 'wf-long-%s%s' % (kind, '' if per > 100 else '-chunked100'), 'nontrivial': nt > 0,
                             'entries': nb, 'per_section': per}))
    for k in range(n):
        defs, lens, first = gen_table(rng)
        r = rng.random()
        if r < 0.72:
            stream = render_cmap(rng, defs, lens, first)
            garbage = [bytes(rng.randrange(256) for _ in range(rng.randint(1, 9))) for _ in range(2)]
            line, nt = make_case(rng, defs, lens, first, stream, True, garbage,
                                 [(rng.choice([0, 1, 2, 3, 4, 5, 255]), rng.randrange(1 << 32)), (rng.choice(lens), rng.randrange(1 << (8 * rng.choice(lens))))])
            kinds = {d[0] for d in defs}
            cases.append((line, {'kind': 'wf-' + '+'.join(sorted(kinds)), 'nontrivial': len(defs) >= 2 and nt > 0}))
        else:
            stream = render_cmap(rng, defs, lens, first, plain_meta=True)
            stream, dk = damage(rng, stream)
            garbage = [bytes(rng.randrange(256) for _ in range(rng.randint(1, 9))) for _ in range(2)]
            line, nt = make_case(rng, defs, lens, first, stream, False, garbage, [(rng.choice([1, 2, 3, 4]), rng.randrange(1 << 16))])
            cases.append((line, {'kind': 'mal-' + dk, 'nontrivial': True}))
    return cases


SPEC = {
    'gen_parts': ['CMapC'],
    'allowed_axioms': (),
    'runner': 'c15',
    'bin': 'c15',
    'gen_cases': gen_cases,
    'rule': 'random mapping tables (1-3 code lengths out of 1-4 bytes with disjoint first bytes; bfchar, incrementing and '
            'array ranges; BMP, surrogate-pair, ligature and multi-unit targets) put through adversarial transforms '
            '(split, bfchar inside a range, adjacent equal targets/arrays, redefinition, overlap, cover, re-merge), '
            'rendered with random sectioning, bfchar-as-bfrange, counts, hex case, white space, comments, metadata, '
            'codespace placement; texts over mapped codes (expectation from the table) plus random bytes; a fifth of the '
            'well-formed cases (kind render) carry a random LAYOUT and the text written for it by the extracted renderer of '
            'Spec/CMapRender.v (the runner refuses a text that is not its own and re-checks the round-trip theorem on it; a '
            'second rendering in Python must agree byte for byte); 21 + 21 (thorough 141 + 141) tables whose bfchar / bfrange / '
            'codespacerange section holds 101, 150, 250, 1000 entries in ONE section (TN 5014 recommends at most 100 per section; the '
            'grammar, the standard and C15_parse_render know no limit), and the same tables chunked at 100, at 101 and at random '
            '(entries per section is a parameter of both renderers), probed at the first, 98th..104th, every 50th and the last '
            'definitions; 20 kinds of '
            'damage compared by outcome class; non-trivial = at least 2 definitions and one text, or damaged; '
            'distinct = distinct case text',
    'extra_trusted': [
        'C15: rangemap::RangeInclusiveMap modelled by its contract (pointwise last-insert-wins; stored range = maximal run of equal values), tied through lopdf only',
        'C15: encoding_rs UTF-16BE decoding modelled from WHATWG Encoding (unpaired surrogate -> U+FFFD), tied through lopdf only',
        'C15: the PDF dictionary after /CIDSystemInfo is modelled for name/integer/plain-string values only (explicit Unmodelled outcome otherwise)',
    ],
}


def run(ctx):
    return propcheck.standard_check(ctx, SPEC)


MANIFEST = {
    'level_text': 'Machine-checked proof (Coq) that the model of ToUnicodeCMap::{from_sections,get} returns, for every '
                  'section list and every code, the target of the last definition covering the code (range: last UTF-16 '
                  'unit plus offset mod 2^16; array: indexed by the offset), that Encoding::bytes_to_string segments a '
                  'concatenation of mapped prefix-free codes into exactly those codes, that UTF-16 decoding turns '
                  'surrogate pairs into one scalar value and distributes over well-formed targets, that the model of '
                  'the CMap grammar gives a real outcome on every byte string (its loop fuel, linear in the input, is never '
                  'exhausted; every repeated element parser consumes input), and -- from the CMap TEXT -- that for every '
                  'layout (blanks, line breaks with CR / LF / CR LF and comments, hex digit case, white space inside target '
                  'strings and arrays, bare or bracketed single targets) and every well-formed section list the grammar model '
                  'parses the text written by an independent renderer (Spec/CMapRender.v, from the syntax of the standard) '
                  'back to exactly those sections (C15_parse_render), so that the decoded text of every string of defined '
                  'codes is what the CMap defines, end to end from the text (C15_decodes_text).',
    'level_note': 'Trusted: Coq kernel; hand-written models of cmap.rs / cmap_parser.rs / bytes_to_string tied by '
                  'differential runs through get_font_encoding + decode_text + ToUnicodeCMap::get (the grammar model is tied to '
                  'cmap_parser.rs by these runs; the renderer of the round-trip theorem is extracted and writes the text of the '
                  'case kind render, a second rendering in Python must agree byte for byte); layouts are line oriented up to '
                  'the [ of an array (domain restriction, witnessed by C15_grammar_is_line_oriented); rangemap and encoding_rs '
                  'modelled by contract; extraction/OCaml driver; Rust harness. No axioms.',
    'technique': 'Coq proof (fold invariant over definitions, segmentation by induction on the code list, fuel sufficiency of the parser model by a consumed-length invariant, printer/parser round trip by explicit continuation with follow sets) + differential correspondence',
    'design_ref': 'DESIGN.md 6 C15',
}
